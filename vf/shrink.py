"""Generic source-level shrinker for program-shaped cases (own ddmin; Hypothesis' shrinker is not
used because every evaluation costs a conversion and its 5-minute cap is too coarse).

shrink_src(src, still_fails, deadline) repeatedly tries, until a fixed point or the deadline:
  * deleting one statement (from any body in the module),
  * replacing a compound statement by its body (unwrapping),
  * dropping else/elif/finally/handler clauses,
  * replacing an expression statement / assigned value by a constant.
A candidate is kept when it still parses/compiles and still_fails(new_src) is true.
"""
import ast
import copy
import time

_BODIES = ('body', 'orelse', 'finalbody')


def _bodies(tree):
  """Yields (owner node, field name, list) for every statement list."""
  for node in ast.walk(tree):
    for f in _BODIES:
      lst = getattr(node, f, None)
      if isinstance(lst, list) and lst and isinstance(lst[0], ast.stmt):
        yield node, f, lst
    if isinstance(node, ast.Try):
      for h in node.handlers:
        pass  # handlers' bodies are reached through ast.walk (ExceptHandler has .body)


def _candidates(tree):
  """Yields functions that mutate a deep copy of the tree; identified by (path index, kind)."""
  n = 0
  for owner, f, lst in _bodies(tree):
    for i, s in enumerate(lst):
      yield (n, f, i, 'delete')
      if isinstance(s, (ast.If, ast.While, ast.For, ast.With, ast.Try)):
        yield (n, f, i, 'unwrap')
        if getattr(s, 'orelse', None):
          yield (n, f, i, 'drop_else')
        if isinstance(s, ast.Try):
          if s.finalbody and (s.handlers):
            yield (n, f, i, 'drop_finally')
          if s.handlers and (s.finalbody or len(s.handlers) > 1):
            yield (n, f, i, 'drop_handler')
    n += 1


def _apply(tree, cand):
  n, f, i, kind = cand
  t2 = copy.deepcopy(tree)
  k = 0
  for owner, ff, lst in _bodies(t2):
    if k == n:
      if ff != f or i >= len(lst):
        return None
      s = lst[i]
      if kind == 'delete':
        if isinstance(s, (ast.FunctionDef,)) and s.name in ('make', 'prog', 'cells'):
          return None
        if isinstance(s, (ast.ImportFrom, ast.Import, ast.Global, ast.Nonlocal)):
          return None
        if (isinstance(s, ast.Assign) and isinstance(s.value, ast.Constant) and len(s.targets) == 1
            and isinstance(s.targets[0], ast.Name)):
          return None   # constant initialisations keep shrunk programs inside "definitely assigned"
        if isinstance(s, ast.FunctionDef) and len(s.body) == 1 and isinstance(s.body[0], ast.Return):
          return None   # trivial predefined local functions
        del lst[i]
        if not lst:
          if f == 'body':
            lst.append(ast.Pass())
      elif kind == 'unwrap':
        lst[i:i + 1] = s.body
      elif kind == 'drop_else':
        s.orelse = []
      elif kind == 'drop_finally':
        s.finalbody = []
      elif kind == 'drop_handler':
        s.handlers = s.handlers[:-1]
      return t2
    k += 1
  return None


def shrink_src(src, still_fails, deadline):
  try:
    tree = ast.parse(src)
  except SyntaxError:
    return src
  best = src
  progress = True
  while progress and time.time() < deadline:
    progress = False
    cands = list(_candidates(tree))
    # try larger cuts first: unwrap/delete at shallow positions come first in walk order
    for cand in cands:
      if time.time() >= deadline:
        break
      t2 = _apply(tree, cand)
      if t2 is None:
        continue
      try:
        ast.fix_missing_locations(t2)
        new = ast.unparse(t2) + '\n'
        compile(new, '<shrink>', 'exec')
      except Exception:
        continue
      if new == best:
        continue
      try:
        ok = still_fails(new)
      except Exception:
        ok = False
      if ok:
        tree, best, progress = ast.parse(new), new, True
        break
  return best


def shrink_case(case, bucket, replay, deadline):
  """Shrinks a {'src', 'inputs', ...} case keeping a failure in the same bucket."""
  def fails_with(c):
    return any(f['bucket'] == bucket for f in replay(c))

  cur = dict(case)
  # 1. single input
  if len(cur.get('inputs', [])) > 1:
    for inp in cur['inputs']:
      c2 = dict(cur, inputs=[inp])
      if fails_with(c2):
        cur = c2
        break
  # 2. statements
  def still(new_src):
    return fails_with(dict(cur, src=new_src))
  cur['src'] = shrink_src(cur['src'], still, deadline)
  cur.pop('meta', None)
  return cur
