"""PG - the constructive program generator (DESIGN 2.1).

A Hypothesis composite that draws a small Python module:

    from vf.rt import *
    G0 = 0; G1 = 5
    def h1(x, y): ...            # generated helpers with their own control flow
    p1 = partial(h1, 1)
    def make():                  # factory: prog gets real closure cells c0, c1
      c0 = 10; c1 = 20
      def prog(a, b, o, d, l): ...
      def cells(): return (c0, c1)
      return prog, cells

Constructive, not rejection based: while drawing, the generator tracks the definitely-bound
names (with their kind), loop depth, try depth, whether it is inside a finally, and function
nesting, so only legal, total, terminating, in-class programs come out.

Totality: int/bool arithmetic only (+ - * by constant, % by positive constant, comparisons),
attribute/key/index reads only on structure that exists and is never removed, helpers never
raise; the only exceptions are explicit `raise` (E1/E2/E3/ValueError) and - when the knob
`unbound_reads` is on and the read is not inside a try - NameError for a possibly-unbound local.
Termination: every while has a dedicated counter incremented first in its body and bounded by a
constant; for loops iterate over finite literals / ranges of small ints; local functions obey a rank
rule (a function bound to a name mentions only local functions of strictly lower rank, aliases only
go upwards once a function mentions others), so late binding by name can never close a call cycle.

Shape families (each behind a knob of DEFAULT_CFG, each counted in `meta`, see the check evidence):
  * function objects that outlive their name (`fn_escape`): a local function is stored under another
    access path - name alias, functools.partial (with / without bound arguments / with keywords), list,
    tuple, dict, attribute o.f, an external registry (rt.reg / rt.rcall), a capturing sibling function
    (one and two levels deep), a default value, a lambda - and called through it (kinds 'h:*' in
    _Env.bound); its own name is then kept, forgotten, redefined in straight-line code or deleted.
    Forced shape `shape_escape`: closure over x, stored, x rebound inside a drawn control-flow
    statement, called through the access path.
  * nested functions calling local functions of the enclosing function (`fn_capture`).
  * defs at every statement position of a compound statement (`optfns`): names that hold None or a
    function (`n0 = None` ... `def n0(q)` as first / middle / last statement of an if arm with an empty
    or shorter other arm, of a for / while / with / try body), a store to the captured variable after
    the statement, guarded call after the join (forced shape `shape_defpos`).
  * every subscript target form (`subscripts`, `containers`): constant, negative, computed index,
    slice, extended slice, tuple key, attribute subscript (o.v[i]), subscripts inside tuple targets;
    store / augmented store / del; on the parameters l, d, o.v and on local containers m0 (list), m1 (dict).
  * `global X` declared by a NESTED function that assigns the module-level X where X also names a local
    of an enclosing function (`nested_globals`); vf.diffobs observes created / rebound module attributes.
  * functools.partial objects created WITH keywords (`kwpartials`): module-level P0 / P1 / P2 (their
    keywords are part of the post-state) and local ones, called with extra / overriding keywords, again
    and again.
Pure programs (C02) keep the pure subset: no registry / attribute route, no containers / slices, no
keyword partials of logging callees, no nested globals; nested functions of pure programs do not mutate
o / d; with `init_all`, bindings of non-int names made inside a conditional do not outlive it.
"""
import re

import hypothesis.strategies as st

DEFAULT_NAMES = ['x0', 'x1', 'x2', 'x3']

DEFAULT_CFG = {
    'max_depth': 3,
    'max_stmts': 10,        # statements per block
    'budget': 28,           # total statements per function
    'names': DEFAULT_NAMES,
    'fn_names': ['f0', 'f1'],
    'helpers': 2,
    'tracer': True,         # side effects allowed (t(), o.m(), mutation)
    'pure': False,          # C02: no effects at all
    'unbound_reads': True,  # allow reads of possibly-unbound locals outside try (NameError family)
    'try': True, 'with': True, 'defs': True, 'lambdas': True, 'globals': True, 'nonlocals': True,
    'comprehensions': True, 'del': True, 'composites': True, 'iterators': True, 'calls': True,
    'jumps': True,
    # exclusions of known findings (DESIGN 1.5); each redirected draw is counted in meta
    'excl': (),
    'wbound': 3,
    'init_all': False,      # C02: every local initialised at function top
    'directives': 0,        # percent of loops carrying a set_loop_options directive (C03)
    'def_extras': 25,       # percent of nested defs with a default-value expression / decorator
    'unusual': 0,           # weight of 'unusual literal' expression forms (C17)
    'bare_defs': 0,         # percent of nested defs whose body is only a docstring / `...` / a docstring before the body (C17)
    # --- shape classes added for the escape / def-position / subscript / nested-global / keyword-partial families
    'fn_escape': True,      # function objects stored under another access path (alias, partial, list, tuple, dict, attribute,
                            # registry, capturing closure, default value, lambda) and called through it; names retired afterwards
    'fn_capture': True,     # nested defs may call local functions of the enclosing function (rank rule keeps this terminating)
    'optfns': True,         # names holding None-or-function (`n0 = None ... def n0(q)` inside a compound), guarded calls
    'subscripts': True,     # slice / tuple / computed subscript targets (store, augmented store, del) on l, d, o.v and local containers
    'containers': True,     # local list / dict variables m0 / m1
    'nested_globals': 30,   # percent of nested defs declaring a name `global` (an enclosing local's name or G0/G1) and assigning it
    'kwpartials': True,     # functools.partial objects created WITH keywords (module level P0.. / local), called with extra/overriding keywords
    'shape_jumpnest': 2,    # weight of the forced shape "jump nested in 1-3 non-loop blocks of a loop body, statements after each block"
    'shape_escape': 3,      # weight of the forced shape "closure stored under an alias, variable rebound in control flow, alias called"
    'shape_defpos': 2,      # weight of the forced shape "def at a drawn position of a compound statement, store, call after the join"
}

HOLD_NAMES = ['s0', 's1', 's2']
OPT_NAMES = ['n0', 'n1']
LIST_NAME, DICT_NAME = 'm0', 'm1'


class _Env(object):
  """Static context while drawing a block."""

  def __init__(self):
    self.bound = {}        # name -> kind ('int' | 'fn' | 'iter'), definitely bound here
    self.maybe = set()     # names possibly bound (int kind) but not definitely
    self.loop = 0          # enclosing loops in this function
    self.trydepth = 0      # enclosing try bodies/handlers in this function
    self.in_finally = 0
    self.depth = 0
    self.fn_depth = 0
    self.for_targets = ()  # targets of enclosing for loops (F3 exclusion)
    self.in_handler_with_finally = 0
    self.declared = set()  # names declared global/nonlocal in this function
    self.readonly = set()  # names that must not be assigned here (closure reads in nested defs)
    self.jump_ok = True
    self.has_o = True      # o, d, l are in scope
    self.int_return = False  # function must return ints (helpers, nested defs)
    self.catchable = ()      # exception class names some enclosing handler of this function catches
    self.callable_outer = ()  # local functions of enclosing functions this (nested) function may call

  def copy(self):
    e = _Env()
    e.__dict__.update(self.__dict__)
    e.bound = dict(self.bound)
    e.maybe = set(self.maybe)
    e.declared = set(self.declared)
    e.readonly = set(self.readonly)
    return e


def _join(envs, base):
  """Definitely-bound after a join = intersection; everything else bound somewhere = maybe."""
  envs = [e for e in envs if e is not None]
  out = base.copy()
  if not envs:
    return None
  common = set(envs[0].bound)
  allb = set()
  allm = set()
  for e in envs:
    common &= set(e.bound)
    allb |= set(e.bound)
    allm |= e.maybe
  out.bound = {}
  for n in common:
    kinds = set(e.bound[n] for e in envs)
    if len(kinds) == 1:
      out.bound[n] = kinds.pop()
    else:
      allm.discard(n)  # mixed kinds: unusable
      allb.discard(n)
  out.maybe = set(n for n in (allb | allm) - set(out.bound)
                  if all(e.bound.get(n, 'int') == 'int' for e in envs))
  return out


class Gen(object):

  def __init__(self, draw, cfg):
    self.draw = draw
    self.cfg = dict(DEFAULT_CFG)
    self.cfg.update(cfg or {})
    self.meta = {}
    self.budget = 0
    self.wcount = 0
    self.kcount = 0
    self.helpers = []      # (name, nparams)
    self.markers = 0
    self.assign_stack = []
    self.top_names = list(self.cfg['names'])
    self.top_fn_names = list(self.cfg['fn_names'])   # rank order of the local function names of the function under test
    self.fn_callers = set()   # top-level function names that (may) hold a function calling other local functions
    self.holder_kind = {}     # holder name -> kind, fixed per function so that a join never mixes call forms
    self.mpartials = []       # module-level partial objects with keywords: (name, [call forms])

  # ---- helpers ------------------------------------------------------------------------------
  def note(self, k, n=1):
    self.meta[k] = self.meta.get(k, 0) + n

  def choice(self, seq):
    return self.draw(st.sampled_from(list(seq)))

  def chance(self, p):
    """True with probability ~p (p in tenths)."""
    return self.draw(st.integers(0, 99)) < p

  def integer(self, lo, hi):
    return self.draw(st.integers(lo, hi))

  def excl(self, flag):
    return flag in self.cfg['excl']

  def newk(self):
    self.kcount += 1
    return self.kcount

  # ---- expressions ---------------------------------------------------------------------------
  def int_atoms(self, env):
    atoms = [n for n, k in env.bound.items() if k == 'int']
    return atoms

  def expr(self, env, depth=0, effects=None):
    """Draws an int/bool valued total expression."""
    cfg = self.cfg
    effects = cfg['tracer'] and not cfg['pure'] if effects is None else effects
    atoms = self.int_atoms(env)
    kinds = ['const', 'const']
    if atoms:
      kinds += ['var'] * 4
    if depth < 2:
      kinds += ['bin', 'bin', 'cmp', 'mul', 'mod']
      kinds += ['neg', 'not', 'bool', 'ifexp', 'chain']
      if effects:
        kinds += ['t', 't']
        if cfg['calls']:
          kinds += ['ext', 'builtin']
          if env.has_o:
            kinds += ['meth']
          if self.helpers:
            kinds += ['helper', 'helper', 'partial']
      else:
        if cfg['calls']:
          kinds += ['builtin']
          pass
      if cfg['composites'] and env.has_o:
        kinds += ['attr', 'key']
      if cfg['lambdas'] and depth < 1:
        kinds += ['lamcall']
      if cfg['comprehensions'] and depth < 1:
        kinds += ['comp']
      fns = [n for n, k in env.bound.items() if k == 'fn']
      # local functions have effects only when the program may have them: callable in effect-free
      # positions of pure programs (C02), never in effect-free positions of effectful programs
      callok = cfg['calls'] and (effects or cfg['pure'])
      if fns and callok:
        kinds += ['fncall', 'fncall']
      if callok and any(k.startswith('h:') for k in env.bound.values()):
        kinds += ['holdcall'] * 3
      if callok and any(k == 'optfn' for k in env.bound.values()):
        kinds += ['optcall'] * 2
      if self.mpartials and effects and cfg['calls']:
        kinds += ['mpartial']
      if any(k in ('list', 'dict') for k in env.bound.values()):
        kinds += ['cont'] * 2
      if cfg['subscripts'] and cfg['composites'] and env.has_o and not cfg['pure']:
        kinds += ['subread']
      if cfg['unbound_reads'] and env.maybe and env.trydepth == 0 and not cfg['pure']:
        kinds += ['maybe']
    if cfg['unusual'] and depth < 2:
      kinds += ['unusual'] * cfg['unusual']
    k = self.choice(kinds)
    e = lambda: self.expr(env, depth + 1, effects)
    if k == 'unusual':
      self.note('unusual_literal')
      forms = [
          '(-%s)', '(- -%s)', '(+%s)', '(~%s)', '((-2) ** 2 + %s)', '(%s // 2)', 'int(%s / 2)', '((%s & 7) << 1)', '(%s | 1)', '(%s ^ 2)',
          'len(f"{(%s)!r:>{3}}")', "len(f'{(%s):{\"0\"}>4}')", 'len(f"{f\'{(%s)}\'}")', 'len(f"{(%s)}{{}}")', 'len(f"{(%s)=}")',
          '(1, %s, 3)[-1]', '[1, %s, 3][0:2][0]', '{(1, 2): %s}[1, 2]', '[*range(3), *[%s]][1]', '(lambda *z: len(z))(*[1, %s])',
          '[%s, 2, 3][::-1][0]', 'l[1:][0 * %s]', "{**{'a': 1}, 'b': %s}['b']", '(%s if ... is Ellipsis else 0)', "(len(b'ab') + %s)",
          'int((1+2j).real + %s)', '(int(1e1) + 0x10 + 1_000 - %s)', "(len('a\\'b\"c\\n') + %s)", '(len("""x""") + %s)',
          '(lambda z=(lambda: %s): z())()', '(%s,)[0]', '[[%s]][0][0]', '(%s)', 'max(*(%s, 1))', 'dict(a=%s)["a"]',
          '(0 if (%s,)[0] is None else 1)', '(%s).__class__(3)', 'abs(-%s - 1)', 'round(%s + 0.5)', '(1 < %s < 9 != 4)',
      ]
      if not env.has_o:
        forms = [f for f in forms if 'l[1:]' not in f]
      if env.fn_depth == 0 and not cfg['pure'] and env.trydepth == 0:
        forms.append('(wz%d := %%s)' % self.newk())
      form = self.choice(forms)
      return form % tuple(e() for _ in range(form.count('%s')))
    if k == 'const':
      return str(self.integer(-2, 5))
    if k == 'var':
      return self.choice(sorted(atoms))
    if k == 'maybe':
      self.note('unbound_read_possible')
      return self.choice(sorted(env.maybe))
    if k == 'bin':
      return '(%s %s %s)' % (e(), self.choice(['+', '-']), e())
    if k == 'mul':
      return '(%s * %d)' % (e(), self.integer(-2, 3))
    if k == 'mod':
      return '(%s %% %d)' % (e(), self.integer(2, 5))
    if k == 'cmp':
      return '(%s %s %s)' % (e(), self.choice(['<', '<=', '==', '!=', '>', '>=']), e())
    if k == 'chain':
      self.note('chained_compare')
      # middle operand is pure (F17: impure middle operands are evaluated twice) unless allowed
      mid = self.expr(env, depth + 1, effects and not self.excl('no_impure_chain_middle'))
      if effects and self.excl('no_impure_chain_middle'):
        self.note('excluded:no_impure_chain_middle')
      return '(%s %s %s %s %s)' % (e(), self.choice(['<', '<=', '==']), mid, self.choice(['<', '<=', '!=']), e())
    if k == 'neg':
      return '(-%s)' % e()
    if k == 'not':
      self.note('not')
      return '(not %s)' % e()
    if k == 'bool':
      self.note('boolop')
      ops = [e() for _ in range(self.integer(2, 3))]
      return '(%s)' % (' %s ' % self.choice(['and', 'or'])).join(ops)
    if k == 'ifexp':
      self.note('ifexp')
      return '(%s if %s else %s)' % (e(), e(), e())
    if k == 't':
      return 't(%s)' % e()
    if k == 'meth':
      self.note('method_call')
      return self.choice(['o.m(%s)', 'O.s(%s)', 'o.s(%s)']) % e()
    if k == 'ext':
      self.note('ext_call')
      form = self.choice(['ext1(%s)', 'ext2(%s)', 'ext2(%s, k=%s)', 'ext2(%s, %s)', 'ext2(*(%s, %s))',
                          'ext2(%s, **{"k": %s})', 'nc(%s)'])
      return form % tuple(e() for _ in range(form.count('%s')))
    if k == 'builtin':
      self.note('builtin_call')
      form = self.choice(['abs(%s)', 'max(%s, %s)', 'min(%s, %s)', 'int(%s)', 'len(l)' if env.has_o else 'abs(%s)', 'sum([%s, %s])',
                          'len(range(%s %% 5))', 'sum(range(%s %% 5))', 'len([%s, %s])', 'bool(%s)'])
      return form % tuple(e() for _ in range(form.count('%s')))
    if k == 'helper':
      self.note('helper_call')
      name, n = self.choice(self.helpers)
      return '%s(%s)' % (name, ', '.join(e() for _ in range(n)))
    if k == 'partial':
      self.note('partial_call')
      name, n = self.choice(self.helpers)
      if n == 2:
        return 'partial(%s, %s)(%s)' % (name, e(), e())
      return 'partial(%s)(%s)' % (name, e())
    if k == 'attr':
      return self.choice(['o.x', 'o.y', '(0 if o.n is None else 1)'])
    if k == 'key':
      return self.choice(["d['k']", 'l[0]', 'l[-1]'])
    if k == 'lamcall':
      self.note('lambda_call')
      inner = _Env()
      inner.bound = dict((n, kk) for n, kk in env.bound.items())
      inner.bound['q'] = 'int'
      inner.trydepth = env.trydepth
      inner.fn_depth = env.fn_depth + 1
      inner.has_o = env.has_o
      body = self.expr(inner, depth + 1, effects)
      return '(lambda q: %s)(%s)' % (body, e())
    if k == 'comp':
      self.note('comprehension')
      inner = _Env()
      inner.bound = dict(env.bound)
      inner.bound['z'] = 'int'  # comprehension-only name (CPython 3.12 PEP 709 quirk, see DESIGN 6)
      inner.trydepth = env.trydepth
      inner.fn_depth = env.fn_depth
      inner.has_o = env.has_o
      elt = self.expr(inner, depth + 1, effects)
      it = self.choice(['range(%d)' % self.integer(0, 3), '[%s, %s]' % (e(), e()), 'l' if env.has_o else 'range(2)'])
      form = self.choice(['sum([%s for z in %s])', 'len([%s for z in %s if z])', 'sum({%s for z in %s})',
                          'sum({z: %s for z in %s}.values())'])
      return form % (elt, it)
    if k == 'fncall':
      self.note('local_fn_call')
      fns = sorted(n for n, kk in env.bound.items() if kk == 'fn')
      f_ = self.choice(fns)
      if f_ in env.callable_outer:
        self.note('call_of_enclosing_local_fn_from_nested_fn')
      return '%s(%s)' % (f_, e())
    if k == 'holdcall':
      return self.holdcall(env, None, e)
    if k == 'optcall':
      self.note('optional_fn_guarded_call')
      n_ = self.choice(sorted(n for n, kk in env.bound.items() if kk == 'optfn'))
      return self.choice(['(%s(%s) if %s is not None else %s)', '(%s(%s) if %s else %s)']) % (n_, e(), n_, e())
    if k == 'mpartial':
      self.note('module_kwpartial_call')
      name, forms = self.choice(self.mpartials)
      form = self.choice(forms)
      if '=' in form or '**' in form:
        self.note('kwpartial_call_with_keyword')
      return form % ((name,) + tuple(e() for _ in range(form.count('%s') - 1)))
    if k == 'cont':
      self.note('local_container_read')
      n_ = self.choice(sorted(n for n, kk in env.bound.items() if kk in ('list', 'dict')))
      if env.bound[n_] == 'list':
        return self.choice(['%s[0]', '%s[-1]', 'len(%s)', 'sum(%s)', '%s[1:2][0]', 'sum(%s[0:2])']) % n_
      return self.choice(["%s['k']", 'len(%s)', '%s.get((0, 1), 0)', "%s.get('k', 0)"]) % n_
    if k == 'subread':
      self.note('slice_or_tuple_subscript_read')
      return self.choice(['d.get((0, 1), 0)', 'o.v[0]', 'o.v[-1]', 'len(o.v)', 'sum(l[1:2])', 'sum(l[0:2])', 'len(l[::2])', 'sum(o.v[:])', 'l[0:1][0]', 'o.v[1:2][0]'])
    raise AssertionError(k)

  HOLD_CALLS = {
      'h:alias': ['%(s)s(%(e)s)'],
      'h:partial1': ['%(s)s(%(e)s)'],
      'h:partial0': ['%(s)s()'],
      'h:list': ['%(s)s[0](%(e)s)', '%(s)s[-1](%(e)s)', 'sum([zf(%(e)s) for zf in %(s)s])'],
      'h:tuple': ['%(s)s[0](%(e)s)', '%(s)s[-1](%(e)s)'],
      'h:dict': ["%(s)s['f'](%(e)s)"],
      'h:attr': ['o.f(%(e)s)'],
      'h:reg': ['rcall(%(e)s)'],
      'h:kwp': ['%(s)s(%(e)s)', '%(s)s(%(e)s, k=%(e)s)', '%(s)s(%(e)s, y=%(e)s)', '%(s)s(%(e)s, **{"k": %(e)s})', '%(s)s(%(e)s, %(e)s)'],
      'h:kwph': ['%(s)s(%(e)s)', '%(s)s(%(e)s, y=%(e)s)', '%(s)s(%(e)s, **{"y": %(e)s})'],
      'h:kwpf': ['%(s)s(%(e)s)', '%(s)s(%(e)s, r=%(e)s)'],
  }

  def holdcall(self, env, key, e):
    """A call of a function object through the access path it was stored under."""
    if key is None:
      key = self.choice(sorted(n for n, kk in env.bound.items() if kk.startswith('h:')))
    kind = env.bound[key]
    form = self.choice(self.HOLD_CALLS[kind])
    self.note('call_through:' + kind[2:])
    if kind.startswith('h:kwp') and ('=' in form or '**' in form):
      self.note('kwpartial_call_with_keyword')
    out = ''
    rest = form.replace('%(s)s', key)
    while '%(e)s' in rest:
      i = rest.index('%(e)s')
      out += rest[:i] + e()
      rest = rest[i + 5:]
    return out + rest

  def cond(self, env):
    """A test expression; mostly data dependent."""
    return self.expr(env, 1)

  # ---- statements ----------------------------------------------------------------------------
  def target(self, env):
    """A local int name that may be (re)bound here."""
    names = [n for n in self.cfg['names'] if env.bound.get(n, 'int') == 'int' and n not in env.readonly]
    return self.choice(names)

  def block(self, env, ind, lines, top=False):
    """Draws a block. Returns env after it, or None if control cannot fall through."""
    n = self.integer(1, self.cfg['max_stmts'] if top else max(1, min(4, self.cfg['max_stmts'])))
    made = 0
    for _ in range(n):
      if self.budget <= 0 and made > 0:
        break
      self.budget -= 1
      env = self.stmt(env, ind, lines)
      made += 1
      if env is None:
        return None
    return env

  def stmt(self, env, ind, lines):
    cfg = self.cfg
    sp = '  ' * ind
    effects = cfg['tracer'] and not cfg['pure']
    kinds = ['assign'] * 5 + ['aug'] * 2 + ['tuple']
    deep = env.depth < cfg['max_depth'] and self.budget > 1
    if deep:
      kinds += ['if'] * 5 + ['while'] * 2 + ['for'] * 3
      if cfg['try'] and not cfg['pure']:
        kinds += ['try'] * 2
        if cfg['jumps'] and cfg.get('raise', True) and not env.in_finally and effects:
          kinds += ['shape_try_return', 'shape_nested_try']
      if cfg['with'] and not cfg['pure']:
        kinds += ['with']
      if cfg['jumps'] and cfg['shape_jumpnest'] and not env.in_finally:
        kinds += ['shape_jumpnest'] * cfg['shape_jumpnest']
      if cfg['defs'] and env.fn_depth < 2:
        kinds += ['def']
    if cfg['lambdas']:
      kinds += ['lam']
    if cfg['defs'] and any(kk == 'fn' for kk in env.bound.values()):
      kinds += ['fnalias']
      if cfg['fn_escape']:
        kinds += ['hold']
    if cfg['defs'] and deep and env.fn_depth < 2:
      if cfg['fn_escape']:
        kinds += ['shape_escape'] * cfg['shape_escape']
      if cfg['optfns']:
        kinds += ['shape_defpos'] * cfg['shape_defpos']
    if cfg['defs'] and cfg['optfns']:
      kinds += ['optinit']
    if cfg['subscripts'] and cfg['composites'] and env.has_o and not cfg['pure']:
      kinds += ['subs']
    if cfg['containers'] and not cfg['pure']:
      kinds += ['continit']
      if any(kk in ('list', 'dict') for kk in env.bound.values()):
        kinds += ['contmut']
    if cfg['kwpartials'] and effects and cfg['calls']:
      kinds += ['kwpartial']
    if effects:
      kinds += ['effect'] * 2
    if cfg['composites'] and env.has_o and not (cfg['pure'] and env.fn_depth > 0):
      # (pure programs call their nested functions, also from untaken branches under a tracing backend:
      # a nested function must not mutate o / d)
      kinds += ['setattr', 'setkey']
    if cfg['jumps'] and not env.in_finally:
      if env.loop:
        kinds += ['break', 'continue'] * 2
      kinds += ['return']
      if cfg['try'] and cfg.get('raise', True) and not cfg['pure']:
        kinds += ['raise']
    if cfg['del'] and not cfg['pure'] and any(k == 'int' for k in env.bound.values()):
      kinds += ['del']
    if env.declared:
      kinds += ['declared_assign'] * 2
    k = self.choice(kinds)
    self.note('stmt:' + k)

    if k == 'assign':
      x = self.target(env)
      lines.append('%s%s = %s' % (sp, x, self.expr(env)))
      return self.bind(env, x)
    if k == 'aug':
      cands = sorted(n for n in self.int_atoms(env) if n in cfg['names'] and n not in env.readonly)
      if not cands:
        x = self.target(env)
        lines.append('%s%s = %s' % (sp, x, self.expr(env)))
        return self.bind(env, x)
      x = self.choice(cands)
      lines.append('%s%s %s= %s' % (sp, x, self.choice(['+', '-']), self.expr(env)))
      return self.bind(env, x)
    if k == 'tuple':
      x, y = self.target(env), self.target(env)
      if x == y:
        lines.append('%s%s = %s' % (sp, x, self.expr(env)))
        return self.bind(env, x)
      self.note('tuple_assign')
      lines.append('%s%s, %s = %s, %s' % (sp, x, y, self.expr(env), self.expr(env)))
      return self.bind(self.bind(env, x), y)
    if k == 'declared_assign':
      x = self.choice(sorted(env.declared))
      self.note('declared_name_assigned')
      lines.append('%s%s = %s' % (sp, x, self.expr(env)))
      return env
    if k == 'effect':
      form = self.choice(['t(%s)', 'o.m(%s)', 'l.append(%s)', 'o.inc()', 'ext1(%s)', 'print(%s, %s, file=SINK)']
                         if env.has_o else ['t(%s)', 'ext1(%s)', 'print(%s, file=SINK)'])
      if form.startswith('print'):
        self.note('print_call')
      lines.append(sp + (form % tuple(self.expr(env) for _ in range(form.count('%s'))) if '%s' in form else form))
      return env
    if k == 'setattr':
      if cfg['pure']:
        form = self.choice(['o.x = %s', "d['k'] = %s", 'o.y = %s', 'optattr'])
      else:
        form = self.choice(['o.x = %s', 'o.x += %s', "d['k'] = %s", "d['k'] -= %s", 'l[0] = %s', 'o.z = %s', 'l[-1] = %s', 'setdel', 'aliaskey', 'optattr'])
      self.note('composite_write')
      if form == 'aliaskey':
        # composite key whose base name is bound right here: d[ob.x] must not become loop/branch
        # state of an enclosing statement that does not bind `ob`
        self.note('composite_index_with_local_base')
        lines.append('%sob = o' % sp)
        lines.append('%sd[ob.x] = %s' % (sp, self.expr(env)))
        return env
      if form == 'optattr':
        self.note('none_valued_attribute')
        lines.append('%so.n = %s' % (sp, self.choice(['None', self.expr(env)])))
        return env
      if form == 'setdel':
        # a key that exists only between the two statements: subscript deletion stays total
        self.note('subscript_delete')
        lines.append("%sd['z'] = %s" % (sp, self.expr(env)))
        lines.append("%sdel d['z']" % sp)
        return env
      lines.append(sp + form % self.expr(env))
      return env
    if k == 'setkey':
      self.note('composite_write')
      lines.append("%sd['k'] = %s" % (sp, self.expr(env)))
      return env
    if k == 'del':
      x = self.choice(sorted(n for n, kk in env.bound.items() if kk == 'int' and n in cfg['names']
                             and n not in env.readonly and n not in env.declared) or ['-'])
      if x == '-':
        lines.append(sp + 'pass')
        return env
      self.note('del')
      lines.append('%sdel %s' % (sp, x))
      self.mark(x)
      e2 = env.copy()
      del e2.bound[x]
      e2.maybe.add(x)
      return e2
    if k == 'lam':
      f = self.choice(cfg['fn_names'])
      if env.bound.get(f, 'fn') != 'fn':
        lines.append(sp + 'pass')
        return env
      inner = _Env()
      inner.fn_depth = env.fn_depth + 1
      inner.trydepth = env.trydepth
      inner.has_o = env.has_o
      if self.excl('no_lambda_capture_across_rebind'):
        # lambdas may only capture parameters/closure names that are never rebound
        inner.bound = dict((n, kk) for n, kk in env.bound.items() if n in ('a', 'b', 'c0', 'c1', 'G0', 'G1'))
        self.note('excluded:no_lambda_capture_across_rebind')
      else:
        inner.bound = dict((n, kk) for n, kk in env.bound.items() if kk == 'int')
      inner.bound['q'] = 'int'
      self.note('lambda_def')
      lines.append('%s%s = lambda q: %s' % (sp, f, self.expr(inner, 1)))
      e2 = env.copy()
      e2.bound[f] = 'fn'
      return e2
    if k == 'hold':
      return self.hold_stmt(env, ind, lines)[0]
    if k == 'shape_escape':
      return self.shape_escape(env, ind, lines)
    if k == 'shape_defpos':
      return self.shape_defpos(env, ind, lines)
    if k == 'optinit':
      cands = [n for n in OPT_NAMES if env.bound.get(n, 'optfn') == 'optfn' and n not in env.readonly]
      if not cands:
        lines.append(sp + 'pass')
        return env
      n_ = self.choice(cands)
      self.note('optional_fn_none_init')
      lines.append('%s%s = None' % (sp, n_))
      e2 = env.copy()
      e2.bound[n_] = 'optfn'
      return e2
    if k == 'subs':
      return self.subscript_stmt(env, ind, lines)
    if k == 'continit':
      n_ = self.choice([LIST_NAME, DICT_NAME])
      if n_ in env.readonly:
        lines.append(sp + 'pass')
        return env
      self.note('local_container_bind')
      if n_ == LIST_NAME:
        lines.append('%s%s = [%s]' % (sp, n_, ', '.join(self.expr(env, 1) for _ in range(self.integer(2, 3)))))
      else:
        lines.append("%s%s = {'k': %s}" % (sp, n_, self.expr(env, 1)))
      e2 = env.copy()
      e2.bound[n_] = 'list' if n_ == LIST_NAME else 'dict'
      return e2
    if k == 'contmut':
      return self.subscript_stmt(env, ind, lines, local=True)
    if k == 'kwpartial':
      # a partial object created WITH keywords, kept in a local and called (several times) later
      srcs = [('h:kwp', 'ext2', 'k')]
      srcs += [('h:kwph', hn, 'y') for hn, n_ in self.helpers if n_ == 2]
      kind, fn_, kw = self.choice(srcs)
      cands = [n for n in HOLD_NAMES if self.holder_kind.get(n, kind) == kind and n not in env.readonly]
      if not cands:
        lines.append(sp + 'pass')
        return env
      key = self.choice(cands)
      self.holder_kind[key] = kind
      self.note('kwpartial_created')
      lines.append('%s%s = partial(%s, %s=%s)' % (sp, key, fn_, kw, self.expr(env, 1)))
      e2 = env.copy()
      e2.bound[key] = kind
      return e2
    if k == 'fnalias':
      # a local function reached under another name (alias): closure liveness must follow it
      src_fns = sorted(n for n, kk in env.bound.items() if kk == 'fn')
      dst = [n for n in cfg['fn_names'] if env.bound.get(n, 'fn') == 'fn']
      if not src_fns or not dst:
        lines.append(sp + 'pass')
        return env
      a_, b_ = self.choice(dst), self.choice(src_fns)
      if a_ == b_ or not self.alias_ok(a_, b_):
        lines.append(sp + 'pass')
        return env
      self.note('local_fn_alias')
      lines.append('%s%s = %s' % (sp, a_, b_))
      e2 = env.copy()
      e2.bound[a_] = 'fn'
      return e2
    if k == 'return':
      self.note('return')
      if env.loop or env.depth:
        self.note('early_return')
      lines.append('%sreturn %s' % (sp, self.retexpr(env)))
      return None
    if k == 'break':
      self.note('break')
      lines.append(sp + 'break')
      return None
    if k == 'continue':
      self.note('continue')
      lines.append(sp + 'continue')
      return None
    if k == 'raise':
      self.note('raise')
      pool = ['E1', 'E2', 'E3', 'ValueError']
      if env.catchable and self.chance(70):
        # explicit raise caught by a handler of the same function (inner or outer try)
        pool = list(env.catchable)
        self.note('raise_of_catchable_type')
      lines.append('%sraise %s(%s)' % (sp, self.choice(pool), self.expr(env, 1, False)))
      return None
    if k == 'shape_jumpnest':
      return self.shape_jumpnest(env, ind, lines)
    if k == 'shape_try_return':
      return self.shape_try_return(env, ind, lines)
    if k == 'shape_nested_try':
      return self.shape_nested_try(env, ind, lines)
    if k == 'if':
      return self.if_stmt(env, ind, lines)
    if k == 'while':
      return self.while_stmt(env, ind, lines)
    if k == 'for':
      return self.for_stmt(env, ind, lines)
    if k == 'try':
      return self.try_stmt(env, ind, lines)
    if k == 'with':
      return self.with_stmt(env, ind, lines)
    if k == 'def':
      return self.def_stmt(env, ind, lines)
    raise AssertionError(k)

  # ---- local function objects: ranks, aliases, escape routes ------------------------------------
  def fn_rank(self, name):
    """Rank of a local function name of the function under test (None: not capturable). A function
    bound to a name may only call names of strictly lower rank, which keeps every call chain finite
    whatever the names are rebound to later (late binding)."""
    return self.top_fn_names.index(name) if name in self.top_fn_names else None

  def alias_ok(self, dst, src):
    """`dst = src` keeps the rank invariant: src never held a calling function, or dst ranks higher."""
    if src not in self.fn_callers:
      return True
    rd, rs = self.fn_rank(dst), self.fn_rank(src)
    if rd is not None and rs is not None and rd > rs:
      self.fn_callers.add(dst)
      return True
    return False

  def hold_stmt(self, env, ind, lines, src=None, route=None):
    """Stores a local function object under another access path. Returns (env, key) - key None if
    nothing was generated."""
    sp = '  ' * ind
    cfg = self.cfg
    effects = cfg['tracer'] and not cfg['pure']
    fns = sorted(n for n, kk in env.bound.items() if kk == 'fn')
    if not fns:
      lines.append(sp + 'pass')
      return env, None
    f = src or self.choice(fns)
    routes = ['alias', 'alias', 'partial1', 'partial0', 'list', 'tuple', 'dict']
    if effects and env.fn_depth == 0:
      if env.has_o and cfg['composites']:
        routes += ['attr', 'attr']
      if cfg['calls']:
        routes += ['reg', 'reg']
    route = route or self.choice(routes)
    kind = 'h:' + route
    if route == 'attr':
      key = 'o.f'
    elif route == 'reg':
      key = '<reg>'
    else:
      cands = [n for n in HOLD_NAMES if self.holder_kind.get(n, kind) == kind and n not in env.readonly]
      if not cands:
        lines.append(sp + 'pass')
        return env, None
      key = self.choice(cands)
      self.holder_kind[key] = kind
    self.note('escape:' + route)
    self.note('escape')
    if route == 'alias':
      lines.append('%s%s = %s' % (sp, key, f))
    elif route == 'partial1':
      lines.append('%s%s = partial(%s)' % (sp, key, f))
    elif route == 'partial0':
      lines.append('%s%s = partial(%s, %s)' % (sp, key, f, self.expr(env, 1)))
    elif route == 'kwpf':
      lines.append('%s%s = partial(%s, r=%s)' % (sp, key, f, self.expr(env, 1)))
      self.note('kwpartial_created')
    elif route == 'list':
      other = self.choice(fns)
      lines.append('%s%s = [%s]' % (sp, key, f if other == f else self.choice(['%s, %s' % (f, other), '%s, %s' % (other, f)])))
    elif route == 'tuple':
      lines.append('%s%s = (%s,)' % (sp, key, f))
    elif route == 'dict':
      lines.append("%s%s = {'f': %s}" % (sp, key, f))
    elif route == 'attr':
      lines.append('%so.f = %s' % (sp, f))
    elif route == 'reg':
      lines.append('%sreg(%s)' % (sp, f))
    e2 = env.copy()
    e2.bound[key] = kind
    return e2, key

  def retire(self, env, f, ind, lines, by_name=False):
    """After a function object was stored elsewhere: what happens to its own name. by_name: the holder
    looks the name up at call time (capturing closure / lambda), so the name must stay bound."""
    sp = '  ' * ind
    cfg = self.cfg
    hows = ['keep', 'forget', 'forget']
    if f in cfg['fn_names'] and f not in env.readonly:
      hows += ['redefine', 'redefine']
      if cfg['del'] and not cfg['pure'] and not by_name and env.loop == 0 and env.trydepth == 0:
        hows += ['del']
    how = self.choice(hows)
    self.note('escaped_fn_name:' + how)
    e2 = env.copy()
    if how == 'forget':
      # the name stays bound at run time but is never mentioned again (a later def may rebind it)
      if not by_name:
        e2.bound.pop(f, None)
    elif how == 'redefine':
      tiny = _Env()
      tiny.bound = {'q': 'int'}
      tiny.fn_depth = env.fn_depth + 1
      tiny.has_o = False
      lines.append('%sdef %s(q):' % (sp, f))
      lines.append('%s  return %s' % (sp, self.expr(tiny, 1, False)))
      self.note('nested_def')
      self.note('local_fn_redefined_in_straight_line_code')
    elif how == 'del':
      lines.append('%sdel %s' % (sp, f))
      self.note('del')
      e2.bound.pop(f, None)
    return e2

  def small_targets(self, env):
    """Already bound, assignable int locals (assigning them does not change the binding state)."""
    return sorted(n for n in self.int_atoms(env) if n in self.cfg['names'] and n not in env.readonly and n not in env.declared)

  def closure_def(self, env, ind, lines, f, x, sig='q'):
    """def f(sig): return (x <op> <expr over the parameters>) - a closure reading the enclosing x."""
    sp = '  ' * ind
    tiny = _Env()
    tiny.bound = {'q': 'int', x: 'int'}
    if 'r=' in sig:
      tiny.bound['r'] = 'int'
    tiny.fn_depth = env.fn_depth + 1
    tiny.has_o = False
    tiny.int_return = True
    tiny.trydepth = env.trydepth
    lines.append('%sdef %s(%s):' % (sp, f, sig))
    lines.append('%s  return (%s %s %s)' % (sp, x, self.choice(['+', '-', '+']), self.expr(tiny, 1)))
    self.note('nested_def')
    self.note('closure_read')

  def rebind_in_control_flow(self, env, ind, lines, x):
    """x (definitely bound) is rebound inside a drawn control-flow statement. Returns the form."""
    sp = '  ' * ind
    forms = ['if', 'if', 'if_aug', 'for', 'for_aug', 'while', 'for_if', 'if_if']
    if not self.excl('no_all_branch_rebind_in_nested_block'):
      forms += ['if_else']
    if self.cfg['with'] and not self.cfg['pure']:
      forms += ['with_if']
    form = self.choice(forms)
    self.note('rebind_in:' + form)
    e = lambda: self.expr(env, 1)
    self.mark(x)
    if form in ('if', 'if_aug', 'if_else', 'if_if'):
      self.note('if')
      lines.append('%sif %s:' % (sp, self.cond(env)))
      if form == 'if_if':
        lines.append('%s  if %s:' % (sp, self.cond(env)))
        lines.append('%s    %s = %s' % (sp, x, e()))
      else:
        lines.append('%s  %s %s %s' % (sp, x, '+=' if form == 'if_aug' else '=', e()))
      if form == 'if_else':
        lines.append('%selse:' % sp)
        lines.append('%s  %s = %s' % (sp, x, e()))
    elif form in ('for', 'for_aug', 'for_if'):
      self.note('for')
      if env.loop:
        self.note('nested_loop')
      tg = 'i%d' % self.newk()
      lines.append('%sfor %s in range(%d):' % (sp, tg, self.integer(0, 3)))
      self.directive(lines, sp)
      if form == 'for_if':
        lines.append('%s  if %s:' % (sp, self.cond(env)))
        lines.append('%s    %s = %s' % (sp, x, e()))
      else:
        lines.append('%s  %s %s %s' % (sp, x, '+=' if form == 'for_aug' else '=', e()))
    elif form == 'while':
      self.note('while')
      if env.loop:
        self.note('nested_loop')
      w = 'w%d' % self.wcount
      self.wcount += 1
      lines.append('%s%s = 0' % (sp, w))
      lines.append('%swhile %s < %d:' % (sp, w, self.integer(0, self.cfg['wbound'])))
      self.directive(lines, sp)
      lines.append('%s  %s += 1' % (sp, w))
      lines.append('%s  %s = %s' % (sp, x, e()))
    elif form == 'with_if':
      self.note('with')
      lines.append('%swith CM(%d):' % (sp, self.newk()))
      lines.append('%s  if %s:' % (sp, self.cond(env)))
      lines.append('%s    %s = %s' % (sp, x, e()))
    return form

  def shape_escape(self, env, ind, lines):
    """Forced shape: a nested def reading an enclosing variable is stored under another access path
    (every route a function object can outlive its name by); its own name is kept / forgotten /
    redefined in straight-line code / deleted; the variable is rebound inside control flow; the stored
    function is called through the access path."""
    sp = '  ' * ind
    cfg = self.cfg
    effects = cfg['tracer'] and not cfg['pure']
    fcands = [n for n in cfg['fn_names'] if env.bound.get(n, 'fn') == 'fn' and n not in env.readonly]
    if not fcands:
      lines.append(sp + 'pass')
      return env
    self.note('shape:closure_escape')
    self.budget -= 2
    x = self.target(env)
    if env.bound.get(x) != 'int':
      lines.append('%s%s = %s' % (sp, x, self.expr(env, 1)))
      env = self.bind(env, x)
    routes = ['store'] * 5 + ['kwpf']
    f = self.choice(fcands)
    g = None
    if env.fn_depth == 0 and cfg['fn_capture'] and len(self.top_fn_names) >= 2:
      lo, hi = self.top_fn_names[0], self.top_fn_names[-1]
      if env.bound.get(lo, 'fn') == 'fn' and env.bound.get(hi, 'fn') == 'fn':
        routes += ['closure', 'closure', 'closure2', 'closure2', 'default']
        if not self.excl('no_lambda_capture_across_rebind') and cfg['lambdas']:
          routes += ['lambda']
    route = self.choice(routes)
    by_name = route in ('closure', 'closure2', 'lambda')
    if route in ('closure', 'closure2', 'default', 'lambda'):
      f, g = self.top_fn_names[0], self.top_fn_names[-1]
    self.closure_def(env, ind, lines, f, x, 'q, r=%s' % self.expr(env, 1) if route == 'kwpf' else 'q')
    env = env.copy()
    env.bound[f] = 'fn'
    key = None
    if route == 'store':
      env, key = self.hold_stmt(env, ind, lines, src=f)
    elif route == 'kwpf':
      env, key = self.hold_stmt(env, ind, lines, src=f, route='kwpf')
    else:
      tiny = _Env()
      tiny.bound = {'q': 'int'}
      tiny.fn_depth = env.fn_depth + 1
      tiny.has_o = False
      self.note('escape:' + route)
      self.note('escape')
      self.note('nested_def')
      if route == 'closure':
        lines.append('%sdef %s(q):' % (sp, g))
        lines.append('%s  return (%s(q) + %s)' % (sp, f, self.expr(tiny, 1)))
      elif route == 'closure2':
        # a function nested two levels below f's definition calls f
        lines.append('%sdef %s(q):' % (sp, g))
        lines.append('%s  def g0(r):' % sp)
        lines.append('%s    return %s(r)' % (sp, f))
        lines.append('%s  return (g0(q) + %s)' % (sp, self.expr(tiny, 1)))
      elif route == 'default':
        lines.append('%sdef %s(q, r=%s):' % (sp, g, f))
        lines.append('%s  return (r(q) + %s)' % (sp, self.expr(tiny, 1)))
      else:
        lines.append('%s%s = lambda q: (%s(q) + %s)' % (sp, g, f, self.expr(tiny, 1, False)))
        self.note('lambda_def')
      if by_name:
        self.fn_callers.add(g)
        self.note('call_of_enclosing_local_fn_from_nested_fn')
      env.bound[g] = 'fn'
    if key is None and g is None:
      return env
    env = self.retire(env, f, ind, lines, by_name=by_name)
    self.rebind_in_control_flow(env, ind, lines, x)
    e = lambda: self.expr(env, 1)
    call = self.holdcall(env, key, e) if key is not None else '%s(%s)' % (g, e())
    y = self.target(env)
    if effects and self.chance(40):
      lines.append('%st(%s)' % (sp, call))
      return env
    lines.append('%s%s = %s' % (sp, y, call))
    return self.bind(env, y)

  def shape_defpos(self, env, ind, lines):
    """Forced shape: a def (closure over x) at a drawn position - first / middle / last statement -
    of a drawn compound statement (if with empty or shorter other arm, for, while, with, try); the
    name holds None before, x is stored after the statement, the function is called (guarded) later."""
    sp = '  ' * ind
    cfg = self.cfg
    effects = cfg['tracer'] and not cfg['pure']
    cands = [n for n in OPT_NAMES if env.bound.get(n, 'optfn') == 'optfn' and n not in env.readonly]
    if not cands:
      lines.append(sp + 'pass')
      return env
    self.budget -= 2
    n_ = self.choice(cands)
    x = self.target(env)
    if env.bound.get(x) != 'int':
      lines.append('%s%s = %s' % (sp, x, self.expr(env, 1)))
      env = self.bind(env, x)
    if env.bound.get(n_) != 'optfn':
      lines.append('%s%s = None' % (sp, n_))
      env = env.copy()
      env.bound[n_] = 'optfn'
    comps = ['if', 'if', 'if_else', 'for', 'while']
    if cfg['with'] and not cfg['pure']:
      comps.append('with')
    if cfg['try'] and not cfg['pure']:
      comps.append('try')
    comp = self.choice(comps)
    pos = self.choice(['first', 'middle', 'last', 'last'])
    self.note('shape:def_position:%s/%s' % (comp, pos))
    self.note('shape:def_position')
    if pos == 'last' and comp in ('for', 'while'):
      self.note('shape:def_last_in_loop_body')
    if pos != 'first' and comp in ('if', 'if_else'):
      self.note('shape:def_after_statement_on_if_arm')
    e = lambda: self.expr(env, 1)
    small = self.small_targets(env) or [x]
    used = []

    def simple(sp2):
      y = self.choice(small)
      used.append(y)
      self.mark(y)
      lines.append('%s%s = %s' % (sp2, y, e()))

    if comp in ('if', 'if_else'):
      self.note('if')
      lines.append('%sif %s:' % (sp, self.cond(env)))
    elif comp == 'for':
      self.note('for')
      if env.loop:
        self.note('nested_loop')
      lines.append('%sfor i%d in range(%d):' % (sp, self.newk(), self.integer(0, 3)))
      self.directive(lines, sp)
    elif comp == 'while':
      self.note('while')
      if env.loop:
        self.note('nested_loop')
      w = 'w%d' % self.wcount
      self.wcount += 1
      lines.append('%s%s = 0' % (sp, w))
      lines.append('%swhile %s < %d:' % (sp, w, self.integer(0, cfg['wbound'])))
      self.directive(lines, sp)
      lines.append('%s  %s += 1' % (sp, w))
    elif comp == 'with':
      self.note('with')
      lines.append('%swith CM(%d):' % (sp, self.newk()))
    else:
      self.note('try')
      lines.append('%stry:' % sp)
    for _ in range({'first': 0, 'middle': 1}.get(pos, self.integer(1, 2))):
      simple(sp + '  ')
    self.closure_def(env, ind + 1, lines, n_, x)
    self.note('optional_fn_def')
    for _ in range(0 if pos == 'last' else 1):
      simple(sp + '  ')
    if comp == 'if_else':
      other = [y for y in small if y not in used]
      if other and self.chance(70):
        lines.append('%selse:' % sp)
        y = self.choice(other)
        self.mark(y)
        lines.append('%s  %s = %s' % (sp, y, e()))
    elif comp == 'try':
      self.note('except')
      lines.append('%sexcept %s:' % (sp, self.choice(['E1', 'E2', 'ValueError'])))
      lines.append('%s  %s' % (sp, 't(%s)' % e() if effects else 'pass'))
    if self.chance(85):
      self.mark(x)
      lines.append('%s%s %s %s' % (sp, x, self.choice(['=', '=', '+=']), e()))
      self.note('store_after_def_in_compound')
    call = self.choice(['(%s(%s) if %s is not None else %s)', '(%s(%s) if %s else %s)']) % (n_, e(), n_, e())
    self.note('optional_fn_guarded_call')
    if effects and self.chance(40):
      lines.append('%st(%s)' % (sp, call))
      return env
    y = self.target(env)
    lines.append('%s%s = %s' % (sp, y, call))
    return self.bind(env, y)

  # ---- subscript target forms -------------------------------------------------------------------
  def subscript_stmt(self, env, ind, lines, local=False):
    """Stores / augmented stores / deletions through every subscript target form: constant, computed
    and negative index, slice, extended slice, tuple (multi-dimensional) key, nested attribute
    subscript, inside a tuple target. Index and bound expressions are effect free; every form keeps
    len(l) >= 2, len(o.v) >= 2, d['k'] present (totality of the reads elsewhere)."""
    sp = '  ' * ind
    e = lambda: self.expr(env, 1)

    def pe():
      # index / bound expressions: effect free and never a possibly-unbound read (the order of
      # subscript and value evaluation must not be observable - L08 under Feature.LISTS)
      saved = self.cfg['unbound_reads']
      self.cfg['unbound_reads'] = False
      try:
        return self.expr(env, 2, False)
      finally:
        self.cfg['unbound_reads'] = saved

    tracked = getattr(env, 'lists', None) is not None   # a sub-grammar tracks list lengths itself (vf.c01_lists)
    if local:
      n_ = self.choice(sorted(n for n, kk in env.bound.items() if kk in ('list', 'dict')))
      lst = env.bound[n_] == 'list'
    else:
      n_ = self.choice(['d', 'o.v'] if tracked else ['l', 'l', 'd', 'o.v'])
      lst = n_ != 'd'
    if lst and n_ == 'l':
      # the parameter l: other parts of the grammar read l[0] / l[-1] and may track its length, so
      # these forms never shrink it and only assume len(l) >= 1
      forms = ['N[1:2] = [E]', 'N[0:1] = [E, E]', 'N[:0] = [E]', 'N[len(N):] = [E]', 'N[-1:] = [E]', 'N[::2] = N[::2]',
               'N[P % len(N)] = E', 'N[0] += E', 'N[-1] -= E', 'del N[len(N):]', 'N[len(N):] = [E];del N[-1:]', 'N[0:1], X = [E], E',
               'N[0], N[-1] = N[-1], N[0]', 'N[0:2] = N[1::-1]', 'N[:] = N', 'N[0:0] = [E];del N[0:1]', 'N[::-1] = N']
    elif lst:
      forms = ['N[1:2] = [E]', 'N[0:1] = [E, E]', 'N[:0] = [E]', 'N[len(N):] = [E]', 'N[-1:] = [E]', 'N[::2] = N[::2]',
               'N[P % 2] = E', 'N[1] += E', 'N[-1] -= E', 'del N[2:3]', 'del N[5:]', 'del N[2::2]', 'N[0:1], X = [E], E',
               'N[0], N[1] = N[1], N[0]', 'N[0:2] = N[1::-1]', 'N[:] = N']
      if local:
        forms += ['N.append(E)', 'N[0] = E']
    else:
      forms = ['N[0, 1] = E', 'N[1, P % 2] = E', 'N[0, 1] = E;N[0, 1] += E', 'N[2, 2] = E;del N[2, 2]', 'N[(0, 1)] = E',
               'N[0, 1], X = E, E', "N['k'], N[0, 1] = E, E", 'N[0, 1] = E;del N[0, 1]']
      if local:
        forms += ["N['k'] = E", "N['k'] += E"]
    form = self.choice(forms)
    self.note('subscript_target:' + ('local:' if local else '') + form.replace('N', 'c').replace(' ', ''))
    self.note('subscript_target')
    if 'del ' in form:
      self.note('subscript_target_del')
    self.note('composite_write')
    e2 = env
    x = None
    if 'X' in form:
      x = self.target(env)
    for part in form.split(';'):
      out = ''
      for ch in part:
        if ch == 'N':
          out += n_
        elif ch == 'E':
          out += e()
        elif ch == 'P':
          out += pe()
        elif ch == 'X':
          out += x
        else:
          out += ch
      lines.append(sp + out)
    if x is not None:
      e2 = self.bind(env, x)
    return e2

  def mark(self, *names):
    for s_ in self.assign_stack:
      s_.update(names)

  def bind(self, env, x):
    self.mark(x)
    e2 = env.copy()
    e2.bound[x] = 'int'
    e2.maybe.discard(x)
    return e2

  def retexpr(self, env):
    if env.int_return:
      return self.expr(env)
    k = self.choice(['e', 'e', 'e', 'tuple', 'fn', 'none'])
    if k == 'tuple':
      return '(%s, %s)' % (self.expr(env), self.expr(env))
    if k == 'fn':
      fns = sorted(n for n, kk in env.bound.items() if kk == 'fn')
      if fns:
        self.note('returns_function')
        return self.choice(fns)
    if k == 'none':
      return 'None'
    return self.expr(env)

  def sub(self, env, **kw):
    e = env.copy()
    e.depth += 1
    for k, v in kw.items():
      setattr(e, k, v)
    return e

  def if_stmt(self, env, ind, lines):
    sp = '  ' * ind
    self.note('if')
    lines.append('%sif %s:' % (sp, self.cond(env)))
    branch_assigned = []
    self.assign_stack.append(set())
    outs = [self.block(self.sub(env), ind + 1, lines)]
    branch_assigned.append(self.assign_stack.pop())
    nel = self.integer(0, 2) if self.chance(25) else 0
    for _ in range(nel):
      self.note('elif')
      lines.append('%selif %s:' % (sp, self.cond(env)))
      self.assign_stack.append(set())
      outs.append(self.block(self.sub(env), ind + 1, lines))
      branch_assigned.append(self.assign_stack.pop())
    if self.chance(55):
      mark = len(lines)
      lines.append('%selse:' % sp)
      self.assign_stack.append(set())
      o_else = self.block(self.sub(env), ind + 1, lines)
      a_else = self.assign_stack.pop()
      # names assigned on every path that can fall through (branches ending in a jump do not count)
      sets = [a_ for a_, o_ in zip(branch_assigned, outs) if o_ is not None]
      if o_else is not None:
        sets.append(a_else)
      common = set.intersection(*sets) if sets else set()
      if common and (env.depth >= 1 or self.meta.get('return')) and self.excl('no_all_branch_rebind_in_nested_block'):
        # (statements after an early return are nested under the generated `if not do_return:`)
        # F29: a variable assigned on every path of a nested conditional may be made local to the
        # enclosing generated body function without being initialised there; cut the else clause
        self.note('excluded:no_all_branch_rebind_in_nested_block')
        del lines[mark:]
        outs.append(env)
      else:
        outs.append(o_else)
        branch_assigned.append(a_else)
    else:
      outs.append(env)
    for a_ in branch_assigned:
      self.mark(*a_)
    if all(o is None for o in outs):
      return None
    j = _join(outs, env)
    j.depth = env.depth
    if self.cfg['init_all']:
      # C02 domain: every variable is definitely assigned before every syntactic read, also when a
      # tracing backend runs the untaken branch (a branch ending in a jump binds nothing, yet the code
      # after the statement is traced). Int locals are initialised at function top; names of the other
      # kinds (functions, stored functions, containers) bound inside the conditional do not outlive it.
      for n in list(j.bound):
        if j.bound[n] != 'int' and env.bound.get(n) != j.bound[n]:
          self.note('init_all:binding_confined_to_conditional')
          del j.bound[n]
    return self.restore(j, env)

  def restore(self, j, env):
    """Keeps structural fields of env, takes binding info from j."""
    e = env.copy()
    e.bound = j.bound
    e.maybe = j.maybe
    return e

  def while_stmt(self, env, ind, lines):
    sp = '  ' * ind
    self.note('while')
    if env.loop:
      self.note('nested_loop')
    w = 'w%d' % self.wcount
    self.wcount += 1
    bound = self.integer(0, self.cfg['wbound'])
    lines.append('%s%s = 0' % (sp, w))
    env = env.copy()
    env.bound[w] = 'wcounter'
    form = self.choice(['plain', 'and', 'guard', 'and'])
    if form == 'plain':
      lines.append('%swhile %s < %d:' % (sp, w, bound))
    elif form == 'and':
      lines.append('%swhile %s < %d and %s:' % (sp, w, bound, self.cond(env)))
    else:
      lines.append('%swhile %s:' % (sp, self.cond(env)))
    self.directive(lines, sp)
    lines.append('%s  %s += 1' % (sp, w))
    if form == 'guard':
      self.note('break')
      lines.append('%s  if %s > %d:' % (sp, w, bound))
      lines.append('%s    break' % sp)
    body_env = self.sub(env, loop=env.loop + 1)
    self.assign_stack.append(set())
    out = self.block(body_env, ind + 1, lines)
    assigned = self.assign_stack.pop()
    # after the loop: zero-trip / break possible, so only what was bound before (and not deleted
    # inside) is definite; everything assigned or deleted inside is maybe-bound
    e = env.copy()
    for n in assigned:
      if e.bound.get(n) == 'int':
        del e.bound[n]
      if n not in e.bound:
        e.maybe.add(n)
    return e

  def directive(self, lines, sp):
    if self.cfg['directives'] and self.chance(self.cfg['directives']):
      self.note('loop_directive')
      k = 1000 + self.newk()
      form = self.choice(['maximum_iterations=%d', 'parallel_iterations=%d', 'maximum_iterations=%d, swap_memory=True'])
      lines.append('%s  malt.experimental.set_loop_options(%s)' % (sp, form % k))

  def for_stmt(self, env, ind, lines):
    sp = '  ' * ind
    cfg = self.cfg
    self.note('for')
    if env.loop:
      self.note('nested_loop')
    kinds = ['range', 'range', 'list', 'tuple', 'unpack', 'rangevar', 'unpack_star']
    if cfg['iterators'] and not cfg['pure']:
      kinds += ['iter', 'shared_iter', 'enumerate', 'zip']
    k = self.choice(kinds)
    x = self.target(env)
    fresh = self.excl('no_for_target_rebind')
    if fresh:
      # F3 exclusion: every for statement gets its own target names, never bound elsewhere
      x = 'i%d' % self.newk()
    tg = x
    targets = [x]
    e = lambda: self.expr(env, 1)
    pre = None
    if k == 'range':
      it = 'range(%d)' % self.integer(0, 3)
    elif k == 'rangevar':
      it = 'range(%s %% 4)' % self.expr(env, 1)
    elif k == 'list':
      it = '[%s]' % ', '.join(e() for _ in range(self.integer(0, 3)))
    elif k == 'tuple':
      it = '(%s,)' % ', '.join(e() for _ in range(self.integer(1, 3)))
    elif k == 'unpack' or k == 'enumerate' or k == 'zip':
      y = ('j%d' % self.kcount) if fresh else self.target(env)
      if y == x:
        k = 'range'
        it = 'range(%d)' % self.integer(0, 3)
      else:
        self.note('for_unpack')
        tg = '%s, %s' % (x, y)
        targets = [x, y]
        if k == 'unpack':
          it = '[%s]' % ', '.join('(%s, %s)' % (e(), e()) for _ in range(self.integer(0, 3)))
        elif k == 'enumerate':
          it = 'enumerate([%s])' % ', '.join(e() for _ in range(self.integer(0, 3)))
        else:
          it = 'zip([%s], range(%d))' % (', '.join(e() for _ in range(self.integer(0, 3))), self.integer(0, 3))
    elif k == 'unpack_star':
      # starred element in the loop target; the starred name is fresh and never used as an int
      self.note('for_starred_target')
      ys = 'js%d' % self.newk()
      tg = '%s, *%s' % (x, ys) if self.chance(70) else '*%s, %s' % (ys, x)
      it = '[%s]' % ', '.join('(%s)' % ', '.join([e() for _ in range(self.integer(1, 3))] + ['']) for _ in range(self.integer(0, 3)))
    elif k == 'iter':
      self.note('for_iterator')
      it = 'iter([%s])' % ', '.join(e() for _ in range(self.integer(0, 3)))
    elif k == 'shared_iter':
      self.note('for_shared_iterator')
      itn = 'it%d' % self.newk()
      lines.append('%s%s = iter([%s])' % (sp, itn, ', '.join(e() for _ in range(self.integer(1, 4)))))
      it = itn
      pre = itn
    lines.append('%sfor %s in %s:' % (sp, tg, it))
    self.directive(lines, sp)
    body_env = self.sub(env, loop=env.loop + 1, for_targets=env.for_targets + tuple(targets))
    for n in targets:
      body_env.bound[n] = 'int'
      body_env.maybe.discard(n)
    if self.excl('no_for_target_rebind') :
      body_env.readonly = set(body_env.readonly) | set(targets)
      self.note('excluded:no_for_target_rebind')
    self.assign_stack.append(set(targets))
    self.mark(*targets)
    out = self.block(body_env, ind + 1, lines)
    assigned = self.assign_stack.pop()
    en = env.copy()
    for n in assigned:
      if en.bound.get(n) == 'int':
        del en.bound[n]
      if n not in en.bound:
        en.maybe.add(n)
    if pre is not None:
      # consume what is left of the shared iterator after the loop (observable position)
      lines.append('%st(list(%s))' % (sp, pre))
    return en

  def try_stmt(self, env, ind, lines):
    sp = '  ' * ind
    self.note('try')
    k = self.newk()
    has_fin = self.chance(50)
    nh = self.integer(0 if has_fin else 1, 2)
    if nh and self.excl('no_handler_only_binding'):
      # F30: a name whose only earlier definition sits in an except handler is "defined on some
      # path" for the analysis although unbound on the path taken; bind every name before the try
      pre = [n for n in self.cfg['names'] if n not in env.bound and n not in env.readonly]
      if pre:
        self.note('excluded:no_handler_only_binding')
        for n in pre:
          lines.append('%s%s = 0' % (sp, n))
          env = self.bind(env, n)
    # handler types are drawn first so that raises in the body can aim at them
    htypes = []
    for i in range(nh):
      htypes.append(self.choice([t_ for t_ in ['E1', 'E2', 'E3', 'ValueError', '(E1, E2)', '(E2, ValueError)'] if t_ not in htypes]))
    caught = []
    for t_ in htypes:
      caught += [x.strip() for x in t_.strip('()').split(',')]
    if 'E1' in caught and 'E3' not in caught:
      caught.append('E3')   # E3 subclasses E1
    try_start = len(lines)
    if has_fin:
      lines.append('%stryin(%d)' % (sp, k))
    lines.append('%stry:' % sp)
    body_env = self.sub(env, trydepth=env.trydepth + 1, catchable=tuple(sorted(set(env.catchable) | set(caught))))
    self.assign_stack.append(set())
    out = self.block(body_env, ind + 1, lines)
    outs = [out]
    for i in range(nh):
      typ = htypes[i]
      as_ = self.chance(50)
      self.note('except_as' if as_ else 'except')
      lines.append('%sexcept %s%s:' % (sp, typ, ' as ex' if as_ else ''))
      # handler starts from the state at try entry (a raise may come from anywhere in the body)
      henv = self.sub(env, trydepth=env.trydepth + 1)
      for n in self.assign_stack[-1]:
        if henv.bound.get(n) == 'int':
          del henv.bound[n]
        if n not in henv.bound:
          henv.maybe.add(n)
      if has_fin and self.excl('no_jump_in_handler_with_finally'):
        henv.jump_ok = False
      if as_:
        lines.append('%s  t(type(ex).__name__)' % sp)
        if self.chance(40):
          # a control-flow statement inside the handler that uses the exception variable
          self.note('handler_if_uses_exception_variable')
          lines.append('%s  if len(ex.args) %s %d:' % (sp, self.choice(['==', '<', '!=']), self.integer(0, 2)))
          lines.append('%s    t(len(ex.args))' % sp)
      h_start = len(lines)
      outs.append(self.handler_block(henv, ind + 1, lines, has_fin))
      if self.excl('no_handler_only_binding'):
        # F30 again: names of every kind (function names, holders, containers, loop targets) that the handler
        # binds and that are unbound at try entry are bound before the try as well
        pre = self.prebind_for_handler(lines[h_start:], env)
        if pre:
          self.note('excluded:no_handler_only_binding')
          add = []
          for n in pre:
            if n in self.cfg['fn_names'] or n == 'g0':
              add += ['%sdef %s(q):' % (sp, n), '%s  return q' % sp]
            else:
              add.append('%s%s = 0' % (sp, n))
          lines[try_start:try_start] = add
          try_start += len(add)
    if nh and out is not None and self.chance(20):
      if self.excl('no_try_else'):
        self.note('excluded:no_try_else')
      else:
        self.note('try_else')
        lines.append('%selse:' % sp)
        o2 = self.block(self.sub(out, trydepth=env.trydepth + 1), ind + 1, lines)
        outs[0] = o2
    j = None
    if not all(o is None for o in outs):
      if False:
        pass
      else:
        j = self.restore(_join(outs, env), env)
    if has_fin:
      self.note('finally')
      lines.append('%sfinally:' % sp)
      lines.append('%s  fin(%d)' % (sp, k))
      fenv = self.sub(env, in_finally=env.in_finally + 1, trydepth=env.trydepth + 1)
      for n in self.assign_stack[-1]:
        if fenv.bound.get(n) == 'int':
          del fenv.bound[n]
        if n not in fenv.bound:
          fenv.maybe.add(n)
      before_f = set(fenv.bound)
      fo = self.block(fenv, ind + 1, lines)
      # names definitely bound by the finally body are bound after
      if j is not None and fo is not None:
        for n, kk in fo.bound.items():
          if n not in before_f and kk == 'int':
            j.bound[n] = kk
            j.maybe.discard(n)
    assigned = self.assign_stack.pop()
    self.mark(*assigned)
    return j

  def prebind_for_handler(self, hlines, env):
    """Names bound somewhere in the handler text (not inside nested defs) that are unbound at try entry."""
    import ast as _ast
    import textwrap as _tw
    try:
      tree = _ast.parse(_tw.dedent('\n'.join(hlines)))
    except SyntaxError:
      return []
    found = []

    def walk(node):
      for c in _ast.iter_child_nodes(node):
        if isinstance(c, (_ast.FunctionDef, _ast.Lambda, _ast.ClassDef)):
          if isinstance(c, _ast.FunctionDef):
            found.append(c.name)
          continue
        if isinstance(c, _ast.Name) and isinstance(c.ctx, _ast.Store):
          found.append(c.id)
        walk(c)
    walk(tree)
    skip = set(env.bound) | set(env.readonly) | set(env.declared) | {'ex', 'z'}
    out = []
    for n in found:
      if n not in skip and n not in out:
        out.append(n)
    return out

  def handler_block(self, env, ind, lines, has_fin):
    if not env.jump_ok:
      # draw the block with jumps disabled (F23 exclusion)
      saved = self.cfg['jumps']
      self.cfg['jumps'] = False
      self.note('excluded:no_jump_in_handler_with_finally')
      try:
        return self.block(env, ind, lines)
      finally:
        self.cfg['jumps'] = saved
    return self.block(env, ind, lines)

  # ---- forced shapes (DESIGN 4.1): small templates with drawn holes ----------------------------
  def shape_jumpnest(self, env, ind, lines):
    """A loop whose body holds 1-3 nested non-loop blocks (if / else / with / try-finally / try-except / try-else),
    a conditional continue / break / return in the innermost one, and an observable statement after the jump in
    every enclosing block and after the loop: every block between the jump and its loop needs a guard."""
    cfg = self.cfg
    sp = '  ' * ind
    effects = cfg['tracer'] and not cfg['pure']
    x = self.target(env)
    i = 'i%d' % self.newk()
    n = self.integer(1, 3)
    pool = ['if', 'else']
    if cfg['with'] and not cfg['pure']:
      pool += ['with']
    if cfg['try'] and not cfg['pure']:
      pool += ['try_finally', 'try_except', 'try_else']
    wrappers = [self.choice(pool) for _ in range(n)]
    jump = self.choice(['continue', 'continue', 'break', 'return'])
    self.note('shape:jump_nested_in_blocks')
    self.note('shape:jump_nested_in_blocks:%s:depth=%d' % (jump, n))
    for w in set(wrappers):
      self.note('shape:jump_nested_in:' + w)
    self.note({'continue': 'continue', 'break': 'break', 'return': 'return'}[jump])
    if jump == 'return':
      self.note('early_return')

    def bump(k):
      return '%s = t(%s + %d)' % (x, x, k) if effects else '%s = %s + %d' % (x, x, k)
    lines.append('%s%s = %s' % (sp, x, self.expr(env, 1)))
    env = self.bind(env, x)
    loop_while = self.chance(30)
    if loop_while:
      lines.append('%s%s = -1' % (sp, i))
      lines.append('%swhile %s < 3:' % (sp, i))
      lines.append('%s  %s += 1' % (sp, i))
    else:
      lines.append('%sfor %s in range(4):' % (sp, i))
    d = 1
    closers = []
    for w in wrappers:
      s2 = sp + '  ' * d
      if w == 'if':
        lines.append('%sif %s >= %d:' % (s2, i, self.integer(0, 1)))
        closers.append((d, []))
      elif w == 'else':
        lines.append('%sif %s > 5:' % (s2, i))
        lines.append('%s  pass' % s2)
        lines.append('%selse:' % s2)
        closers.append((d, []))
      elif w == 'with':
        lines.append('%swith CM(%d):' % (s2, self.newk()))
        closers.append((d, []))
      elif w == 'try_finally':
        lines.append('%stry:' % s2)
        closers.append((d, ['%sfinally:' % s2, '%s  %s' % (s2, bump(100))]))
      elif w == 'try_except':
        lines.append('%stry:' % s2)
        closers.append((d, ['%sexcept E1:' % s2, '%s  pass' % s2]))
      else:
        # the jump sits in the else clause of a try
        lines.append('%stry:' % s2)
        lines.append('%s  %s' % (s2, bump(7)))
        lines.append('%sexcept E1:' % s2)
        lines.append('%s  pass' % s2)
        lines.append('%selse:' % s2)
        closers.append((d, []))
      d += 1
    s2 = sp + '  ' * d
    lines.append('%sif %s == %d:' % (s2, i, self.integer(1, 2)))
    lines.append('%s  %s' % (s2, {'continue': 'continue', 'break': 'break', 'return': 'return %s' % x}[jump]))
    lines.append('%s%s' % (s2, bump(1)))
    for dd, tail in reversed(closers):
      lines.extend(tail)
      lines.append('%s%s' % (sp + '  ' * dd, bump(10 ** min(dd, 3))))
    lines.append('%s%s' % (sp, bump(3)))
    return env

  def shape_try_return(self, env, ind, lines):
    """A try inside an if branch whose body ends in return, with an explicit raise before it that a
    fall-through handler of the same try catches; more statements follow the if."""
    sp = '  ' * ind
    self.note('shape:try_ending_in_return_inside_branch')
    exc = self.choice(['E1', 'E2', 'ValueError'])
    x = self.target(env)
    lines.append('%sif %s:' % (sp, self.cond(env)))
    lines.append('%s  try:' % sp)
    lines.append('%s    if %s:' % (sp, self.cond(env)))
    lines.append('%s      raise %s(%s)' % (sp, exc, self.expr(env, 1, False)))
    lines.append('%s    return %s' % (sp, self.retexpr(env)))
    lines.append('%s  except %s:' % (sp, exc))
    lines.append('%s    t(%s)' % (sp, self.expr(env, 1)))
    if self.chance(50):
      lines.append('%selse:' % sp)
      lines.append('%s  t(%s)' % (sp, self.expr(env, 1)))
    lines.append('%s%s = t(%s)' % (sp, x, self.expr(env, 1)))
    return self.bind(env, x)

  def shape_nested_try(self, env, ind, lines):
    """Nested try statements, both with handlers; an explicit raise in the inner body that only the
    outer handler catches; a variable written in a branch just before the raise, read in the outer
    handler and overwritten on the normal path."""
    sp = '  ' * ind
    self.note('shape:raise_caught_by_outer_handler_only')
    x = self.target(env)
    lines.append('%s%s = %s' % (sp, x, self.expr(env, 1)))
    env = self.bind(env, x)
    inner, outer = self.choice([('E1', 'E2'), ('E2', 'E1'), ('ValueError', 'E2'), ('E2', 'ValueError')])
    lines.append('%stry:' % sp)
    lines.append('%s  try:' % sp)
    lines.append('%s    if %s:' % (sp, self.cond(env)))
    lines.append('%s      %s = %s' % (sp, x, self.expr(env, 1)))
    lines.append('%s      raise %s(%s)' % (sp, outer, self.expr(env, 1, False)))
    lines.append('%s    %s = %s' % (sp, x, self.expr(env, 1)))
    lines.append('%s  except %s:' % (sp, inner))
    lines.append('%s    t(%s)' % (sp, self.expr(env, 1)))
    lines.append('%sexcept %s:' % (sp, outer))
    lines.append('%s  t(%s)' % (sp, x))
    return env

  def with_stmt(self, env, ind, lines):
    sp = '  ' * ind
    self.note('with')
    k = self.newk()
    form = self.choice(['as', 'plain', 'multi'])
    e2 = self.sub(env, trydepth=env.trydepth)
    if form == 'as':
      x = self.target(env)
      lines.append('%swith CM(%d) as %s:' % (sp, k, x))
      self.mark(x)
      e2.bound[x] = 'int'
      e2.maybe.discard(x)
    elif form == 'plain':
      lines.append('%swith CM(%s):' % (sp, self.expr(env, 1)))
    else:
      x = self.target(env)
      lines.append('%swith CM(%d), CM(%d) as %s:' % (sp, k, self.newk(), x))
      self.mark(x)
      e2.bound[x] = 'int'
      e2.maybe.discard(x)
    out = self.block(e2, ind + 1, lines)
    if out is None:
      return None
    e = self.restore(out, env)
    return e

  def def_stmt(self, env, ind, lines):
    sp = '  ' * ind
    cfg = self.cfg
    opt = sorted(n for n, kk in env.bound.items() if kk == 'optfn' and n not in env.readonly) if cfg['optfns'] else []
    f = self.choice(list(cfg['fn_names']) + opt)
    fkind = 'optfn' if f in opt else 'fn'
    if env.bound.get(f, 'fn') != fkind:
      lines.append(sp + 'pass')
      return env
    self.note('nested_def')
    if fkind == 'optfn':
      self.note('optional_fn_def')
    inner = _Env()
    inner.fn_depth = env.fn_depth + 1
    inner.depth = env.depth + 1
    inner.trydepth = env.trydepth   # a NameError inside would surface in the caller's try
    inner.has_o = env.has_o
    inner.int_return = True
    captured = dict((n, kk) for n, kk in env.bound.items() if kk == 'int')
    inner.bound = dict(captured)
    inner.bound['q'] = 'int'
    # local containers are captured too (mutated in place or read, never rebound inside)
    conts = dict((n, kk) for n, kk in env.bound.items() if kk in ('list', 'dict'))
    inner.bound.update(conts)
    # local functions of the enclosing function(s) this def may call: strictly lower rank only
    outer_fns = []
    if cfg['fn_capture']:
      if env.fn_depth == 0:
        r = self.fn_rank(f)
        if r is not None:
          outer_fns = [n for n, kk in env.bound.items() if kk == 'fn' and self.fn_rank(n) is not None and self.fn_rank(n) < r]
      else:
        outer_fns = [n for n in env.callable_outer if env.bound.get(n) == 'fn']
    for n in outer_fns:
      inner.bound[n] = 'fn'
    inner.callable_outer = tuple(sorted(outer_fns))
    extras = cfg['def_extras'] and self.chance(cfg['def_extras'])
    if extras:
      self.note('def_with_default_and_decorator')
      if self.chance(50):
        # F34: a lambda inside a decorator expression of a nested def makes the conversion fail
        # (no CFG is built for it); decorator expressions are drawn without nested forms
        self.note('excluded:no_lambda_in_nested_decorator')
        lines.append('%s@deco(%s)' % (sp, self.expr(env, 2)))
      sig = self.choice(['q, r=%s', 'q, r=%s', 'q, *, r=%s', 'q, *rest, r=%s', 'q, /, r=%s'] +
                        (['q, *, s, r=%s', 'q, *rest, s, r=%s, **kw'] if cfg['bare_defs'] else []))
      if sig != 'q, r=%s':
        self.note('def_signature:' + sig.replace('=%s', '=..'))
      lines.append('%sdef %s(%s):' % (sp, f, sig % self.expr(env, 1)))
      inner.bound['r'] = 'int'
    else:
      lines.append('%sdef %s(q):' % (sp, f))
    body = []
    nl = []
    if cfg['bare_defs'] and self.chance(cfg['bare_defs']):
      form = self.choice(['doc_only', 'ellipsis_only', 'doc_then_body', 'doc_then_body', 'const_only', 'doc_multiline_then_body'])
      self.note('bare_def:' + form)
      if form not in ('doc_then_body', 'doc_multiline_then_body'):
        lines.append(sp + {'doc_only': '  """doc %s"""' % f, 'ellipsis_only': '  ...', 'const_only': '  17'}[form])
        e2 = env.copy()
        e2.bound[f] = fkind
        return e2
      if form == 'doc_multiline_then_body':
        # docstring lines with trailing blanks, whitespace-only lines, tabs, quotes and backslashes
        body.append('%s  \'\'\'doc %s  ' % (sp, f))
        for dl in self.draw(st.lists(st.sampled_from(['| a | b |   ', '   ', '', 'hard break  ', '\\t tab\\t', 'quote " \\\' end', '\\\\ backslash', '  indented']), min_size=1, max_size=3)):
          body.append(dl)
        body.append('%s  \'\'\'' % sp)
      else:
        body.append('%s  "doc %s"' % (sp, f))
    if cfg['nonlocals'] and not cfg['pure'] and self.chance(40):
      # nonlocal writes: only locals of the directly enclosing function that are definitely bound
      cands = sorted(n for n in captured if n in cfg['names'] and n not in env.readonly and n not in env.declared)
      if cands:
        x = self.choice(cands)
        nl = [x]
        self.note('closure_nonlocal_write')
        body.append('%s  nonlocal %s' % (sp, x))
        inner.declared = {x}
    gl = []
    if cfg['nested_globals'] and cfg['globals'] and not cfg['pure'] and self.chance(cfg['nested_globals']):
      # `global X` declared by a NESTED function that assigns the module-level X, where X is (also) the
      # name of a local of an enclosing function - or a module global the enclosing function reads /
      # declares itself. The enclosing function's own X must stay what it is.
      pool = [n for n in cfg['names'] if n not in nl] + [n for n in self.top_names if n not in cfg['names'] and n not in nl]
      pool += ['G0', 'G1']
      x = self.choice(pool)
      gl = [x]
      self.note('nested_global_decl')
      self.note('nested_global_decl:' + ('module_global' if x in ('G0', 'G1') else
                                         'name_of_enclosing_local' if x in cfg['names'] else 'name_of_outer_enclosing_local'))
      body.append('%s  global %s' % (sp, x))
      inner.bound.pop(x, None)
      body.append('%s  %s = %s' % (sp, x, self.expr(inner, 1)))
      inner.bound[x] = 'int'
      inner.declared = set(inner.declared) | {x}
    # captured names not declared nonlocal are read-only inside (assigning would make them local)
    inner.readonly = (set(captured) | set(conts) | set(outer_fns) | set(n for n in env.readonly if n in inner.bound)) - set(nl) - set(gl)
    saved = (cfg['names'], cfg['fn_names'], cfg.get('raise', True), self.budget)
    saved_hk = self.holder_kind
    self.holder_kind = {}
    cfg['names'] = ['u0', 'u1'] if inner.fn_depth == 1 else ['v%d' % inner.fn_depth, 'y%d' % inner.fn_depth]
    cfg['fn_names'] = ['g0']
    cfg['raise'] = False   # exceptions raised by a callee are outside the class
    self.budget = min(self.budget, 6)
    start = self.budget
    if cfg['init_all']:
      for i_, n_ in enumerate(cfg['names']):
        body.append('%s  %s = %d' % (sp, n_, i_))
        inner.bound[n_] = 'int'
    try:
      out = self.block(inner, ind + 1, body)
      if out is not None:
        body.append('%s  return %s' % (sp, self.expr(out)))
    finally:
      used = start - self.budget
      cfg['names'], cfg['fn_names'], cfg['raise'] = saved[0], saved[1], saved[2]
      self.budget = saved[3] - used
      self.holder_kind = saved_hk
    lines.extend(body)
    txt = '\n'.join(body)
    if any(c in txt for c in captured if c in saved[0]):
      self.note('closure_read')
    if any(re.search(r'\b%s\b' % re.escape(n), txt) for n in outer_fns):
      # this function mentions local functions of the enclosing function (late binding by name): it may
      # call them directly, through a local alias or through a container it builds
      self.note('call_of_enclosing_local_fn_from_nested_fn')
      if env.fn_depth == 0:
        self.fn_callers.add(f)
    e2 = env.copy()
    e2.bound[f] = fkind
    return e2

  # ---- whole functions -----------------------------------------------------------------------
  def function(self, name, params, ind, env, final_return=True, budget=None):
    self.budget = budget if budget is not None else self.cfg['budget']
    self.holder_kind = {}
    lines = []
    out = self.block(env, ind + 1, lines, top=True)
    if out is not None and final_return:
      lines.append('%sreturn %s' % ('  ' * (ind + 1), self.retexpr(out)))
    return lines


def _module(draw, cfg):
  g = Gen(draw, cfg)
  cfg = g.cfg
  lines = ['import malt', 'from vf.rt import *', 'G0 = 0', 'G1 = 5', '']
  # helpers
  nh = draw(st.integers(0, cfg['helpers'])) if cfg['helpers'] else 0
  saved = dict((k, cfg[k]) for k in ('defs', 'composites', 'globals', 'nonlocals', 'unbound_reads', 'lambdas'))
  for i in range(nh):
    name = 'h%d' % (i + 1)
    n = draw(st.integers(1, 2))
    params = ['x', 'y'][:n]
    env = _Env()
    env.fn_depth = 0
    env.has_o = False
    env.int_return = True
    for p in params:
      env.bound[p] = 'int'
    cfg.update(defs=False, composites=False, unbound_reads=False, lambdas=False)
    hn = cfg['names']
    cfg['names'] = ['r0', 'r1'] + params
    # helpers never raise (implicit exceptions from calls are outside the class)
    st_try = cfg['try']
    cfg['try'] = False
    body = g.function(name, params, 0, env, budget=8)
    cfg['try'] = st_try
    cfg['names'] = hn
    cfg.update(saved)
    lines.append('def %s(%s):' % (name, ', '.join(params)))
    lines.extend(body)
    lines.append('')
    g.helpers.append((name, n))
  nhelp_meta = dict(g.meta)
  g.meta = {}
  if cfg['kwpartials'] and cfg['calls'] and cfg['tracer'] and not cfg['pure'] and draw(st.integers(0, 99)) < 45:
    # module-level partial objects created WITH keywords: callable from everywhere, their stored
    # keywords are part of the observed post-state (vf.diffobs)
    g.note('module_kwpartials')
    lines.append('P0 = partial(ext2, k=%d)' % draw(st.integers(1, 4)))
    g.mpartials.append(('P0', ['%s(%s)', '%s(%s, k=%s)', '%s(%s, y=%s)', '%s(%s, %s)', '%s(%s, **{"k": %s})', '%s(%s, y=%s, k=%s)']))
    lines.append('P1 = partial(ext2, y=%d)' % draw(st.integers(1, 4)))
    g.mpartials.append(('P1', ['%s(%s)', '%s(%s, y=%s)', '%s(%s, k=%s)', '%s(%s, **{"y": %s})']))
    two = [hn for hn, n_ in g.helpers if n_ == 2]
    if two:
      lines.append('P2 = partial(%s, y=%d)' % (two[0], draw(st.integers(0, 3))))
      g.mpartials.append(('P2', ['%s(%s)', '%s(%s, y=%s)']))
    lines.append('')
  # the function under test
  lines.append('def make():')
  lines.append('  c0 = 10')
  lines.append('  c1 = 20')
  lines.append('  def prog(a, b, o, d, l):')
  env = _Env()
  for p in ('a', 'b'):
    env.bound[p] = 'int'
  decl = []
  if cfg['globals'] and not cfg['pure'] and draw(st.integers(0, 99)) < 25:
    decl.append('    global G0')
    env.declared.add('G0')
    g.note('global_decl')
  if cfg['nonlocals'] and not cfg['pure'] and draw(st.integers(0, 99)) < 25:
    decl.append('    nonlocal c0')
    env.declared.add('c0')
    g.note('nonlocal_decl')
  # closure / global reads are plain int atoms
  for n in ('c0', 'c1', 'G0', 'G1'):
    env.bound[n] = 'int'
  env.readonly = {'c0', 'c1', 'G0', 'G1'}
  lines.extend(decl)
  if cfg['defs'] and draw(st.integers(0, 99)) < cfg.get('predefine_fns', 30):
    # forced shape: local functions exist from the start, so that redefinitions inside branches /
    # loop bodies can be called after the join or at the top of the next iteration
    g.note('predefined_local_fns')
    for f in cfg['fn_names']:
      decl.append('    def %s(q):' % f)
      decl.append('      return q')
      lines.extend(decl[-2:])
      env.bound[f] = 'fn'
  if cfg['init_all']:
    for i_, n_ in enumerate(cfg['names']):
      lines.append('    %s = %d' % (n_, i_))
      env.bound[n_] = 'int'
  g.meta_decl = len(decl)
  body = g.function('prog', ['a', 'b', 'o', 'd', 'l'], 1, env)
  lines.extend(body)
  lines.append('  def cells():')
  lines.append('    return (c0, c1)')
  lines.append('  return prog, cells')
  lines.append('')
  meta = dict(g.meta)
  for k, v in nhelp_meta.items():
    meta['helper:' + k] = v
  meta['nhelpers'] = nh
  return '\n'.join(lines) + '\n', meta


@st.composite
def programs(draw, cfg=None, ninputs=(3, 6)):
  """Strategy: {'src': module text, 'inputs': [[a, b], ...], 'meta': feature counters}."""
  src, meta = _module(draw, cfg)
  n = draw(st.integers(*ninputs))
  inputs = [[0, 0], [3, 2]]
  for _ in range(n - 2):
    inputs.append([draw(st.integers(-2, 5)), draw(st.integers(-2, 5))])
  return {'src': src, 'inputs': inputs, 'meta': meta}
