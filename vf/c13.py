"""C13 - the call wrapper (api.converted_call) is transparent, obeys the conversion policy and
falls back safely.

One case = (callable kind, module-name class of the defining module, route to the wrapper, call-site
shape, argument shape, options, context status, strict mode, history, injected fault).  Each case
is executed in two worlds built from the same generated library module on fresh objects:

  reference world : the callable is called natively (through the same native call-site shape)
  wrapped world   : the same call is routed through the call wrapper

and the two observations (result / exception type, ordered effect log incl. the bound parameter
values, stdout, post-state of mutable arguments, post-state of the callable itself) are compared
call by call (optional history call, call 1, call 2).  Which entities the wrapper tried to convert
(spy on the transpiler's transform_function) and which bodies actually ran as generated code (frame
probe inside every library function) are compared with an independent decision-table model written
from g3doc/reference/functions.md, the converted_call / ConversionOptions docstrings and the
comments in conversion.is_allowlisted.  Faults are one-shot exceptions injected by monkeypatch at a
named stage of the conversion pipeline.

Native callables (never converted, must simply be called) include the *namesakes* of the builtins the
wrapper substitutes by overloads: C functions / bound C methods such as decimal.Context.abs,
ndarray.any/all, operator.abs, whose __name__ is a substituted builtin's name but which are not it.

User callables include receivers whose type overloads special methods (comparison, truth value, hashing,
weak-referencability, attribute lookup: OP_PROFILES x OP_FORMS): the wrapper has to classify them by
identity and type only, so `==` that builds expressions / raises / has no truth value, falsy receivers
and uncacheable receivers must neither change the decision nor the call.
"""
import atexit
import contextlib
import decimal as _decimal
import io
import itertools
import json
import logging as _pylogging
import os
import sys
import types

import hypothesis.strategies as st

from malt.core import ag_ctx
from malt.core import converter
from malt.impl import api
from malt.impl import conversion
from malt.operators import function_wrappers
from malt.pyct import cache as _cache
from malt.pyct import errors as _errors
from vf import common
from vf import harness

ID = 'C13'
LEVEL = 'fault_enumeration'
TECHNIQUE = ('differential + decision-table property-based testing of api.converted_call: Hypothesis-drawn and '
             'enumerated (callable kind x defining-module name x route x call-site/argument shape x options x context '
             'x strict mode x history x injected pipeline fault) cases, native call vs wrapped call on fresh objects, '
             'transform spy + frame probe vs an independent policy model, one-shot fault injection by monkeypatch at '
             'every conversion-pipeline stage')
RULE = ('one evaluation = one case executed in both worlds (up to 3 calls each). A case is non-trivial when the policy '
        'model says the target (or the entity behind a partial/callable object) must be converted and the probe saw it '
        'run as generated code, or when an injected fault actually fired inside a conversion; distinct by '
        '(kind, module class, route, call site, args, kwargs, options, context, strict, history, fault stage/nth/exception). '
        'The enumerated part covers every (convertible kind x pipeline stage) pair: all of them at thorough, a seed-rotated '
        'third at quick (receivers with overloaded special methods take part with their callable-object and metaclass forms, '
        'a seed-rotated fifth at quick; all their forms are in the fault-free decision table and have a slice of the random '
        'draws: classes receiver_*).')
ASSUMPTIONS = [
    'observable behaviour = result (iterators materialised), exception type, ordered log of library tracer calls with the bound '
    'parameter values, captured stdout, post-state of mutable arguments, post-state of the callable (partial args/keywords, instance dict, function attributes)',
    'the decision table is written from functions.md "Function conversion rules", the converted_call and ConversionOptions docstrings, '
    'core/config.py rule list (copied into the check) and the comments of conversion.is_allowlisted (TestCase methods, methods of allow-listed '
    'classes via user subclasses, namedtuples); user_requested bypasses the allow-list; non-recursive mode = internal_convert_user_code False',
    'fault injection = a one-shot exception raised by a monkeypatched pipeline function on its n-th invocation inside a conversion; '
    'only Exception subclasses are injected (BaseException is outside "fails for any reason" as implemented by try/except Exception)',
    'each case starts from empty conversion and allow-list caches (test-side reset) unless the case itself asks for a warm cache',
    'context builtins eval/super/locals/globals are C14 matters and are not routed here; partial subclasses overriding __call__ are outside the quantifier',
    'callables whose type overloads special methods (==/!= answering with expression nodes, truth-less element-wise results, True for everything or '
    'raising for foreign operands; __bool__/__len__ making the object falsy or truth-less; __hash__ None / raising TypeError / constant / by value; '
    '__slots__ without __weakref__; a delegating __getattr__) are ordinary user callables for the policy and are generated as callable objects, '
    'partials of them, their bound methods and classes with such a callable metaclass. They keep to the data-model conventions the wrapper may rely '
    'on: __hash__ returns an int or raises TypeError, __getattr__ raises AttributeError for unknown names and never fabricates underscore-suffixed '
    'names such as autograph_info__ (catch-all mock-like objects are outside the domain), __call__ is looked up on the type',
]
LEVEL_TEXT = ('Fault enumeration: every (convertible callable kind x conversion-pipeline stage) pair receives an injected failure '
              '(all pairs at thorough, a seed-rotated third at quick), on top of randomised exploration of the remaining dimensions; '
              'the fallback contract (no escape unless strict, exactly one invocation, one warning, remembered) is checked on every fired fault.')
LEVEL_NOTE = ('Trusted: CPython call semantics as reference, the library module generated by the check, monkeypatch-based fault '
              'injection reaching the functions the pipeline really calls. Outside: faults raised from inside running converted code, '
              'BaseException faults, thread interleavings, TensorFlow-specific callables.')

# ------------------------------------------------------------------------------------------------
# generated library module

LIB_SRC = r'''
import collections
import functools
import sys
import typing
import unittest

from malt.impl import api as _api

try:
  import wrapt as _wrapt
except Exception:  # pragma: no cover
  _wrapt = None

LOG = []
CONV = []


def _t_impl(*a):
  LOG.append(a)


_t = _api.do_not_convert(_t_impl)


def _c_impl(tag):
  f = sys._getframe(1)
  while f is not None:
    fn = f.f_code.co_filename.replace('\\', '/')
    if '/malt/' not in fn:
      break
    f = f.f_back
  CONV.append((tag, f is not None and '__autograph_generated_file' in f.f_code.co_filename))


_c = _api.do_not_convert(_c_impl)


def helper(v):
  _c('helper')
  if v > 0:
    v = v + 1
  return v


def noop(*a, **k):
  return None


noop = _api.do_not_convert(noop)


def make_func():
  def func(x, y=10, *rest, z=3, **kw):
    _c('func')
    if x > 0:
      r = x + y
    else:
      r = y - x
    _t('func', x, y, rest, z, sorted(kw.items()))
    if z < 0:
      raise ValueError(z)
    return (helper(r), z, len(rest))
  return func


def make_lam():
  lam = lambda x, y=10, *rest, z=3, **kw: (_c('lam'), _t('lam', x, y, rest, z, sorted(kw.items())), ((x + y) if x > 0 else (y - x), z, len(rest)))[2]
  return lam


def make_mut():
  def mut(x, y=10, *rest, z=3, **kw):
    _c('mut')
    if isinstance(x, list):
      x.append(y)
    for k in kw:
      if isinstance(kw[k], list):
        kw[k].append(z)
    _t('mut', x, y, rest, z, sorted(kw.items()))
    return len(rest)
  return mut


def make_closure_state():
  n = 0

  def counter(x, y=10, *rest, z=3, **kw):
    nonlocal n
    _c('counter')
    if x > 0:
      n += x
    else:
      n -= 1
    _t('counter', x, y, rest, z, sorted(kw.items()), n)
    return (n, z, len(rest))
  return counter


def make_gen():
  def gen(x, y=10, *rest, z=3, **kw):
    _c('gen')
    _t('gen', x, y, rest, z, sorted(kw.items()))
    yield x
    if x > 0:
      yield y
    yield z
  return gen


class Meta(type):
  def __call__(cls, x, y=10, *rest, z=3, **kw):
    _c('metacall')
    if x > 0:
      r = x + y
    else:
      r = y - x
    _t('metacall', cls.__name__, x, y, rest, z, sorted(kw.items()))
    return type.__call__(cls, r, z)


def make_classes():
  class C(object):
    def __init__(self, base=100):
      self.base = base
      self.calls = 0

    def m(self, x, y=10, *rest, z=3, **kw):
      _c('m')
      self.calls += 1
      if x > 0:
        r = x + y + self.base
      else:
        r = y - x
      _t('m', x, y, rest, z, sorted(kw.items()))
      return (helper(r), z, len(rest))

    @classmethod
    def cm(cls, x, y=10, *rest, z=3, **kw):
      _c('cm')
      if x > 0:
        r = x + y
      else:
        r = y - x
      _t('cm', cls.__name__, x, y, rest, z, sorted(kw.items()))
      return (r, z, len(rest))

    @staticmethod
    def sm(x, y=10, *rest, z=3, **kw):
      _c('sm')
      if x > 0:
        r = x + y
      else:
        r = y - x
      _t('sm', x, y, rest, z, sorted(kw.items()))
      return (r, z, len(rest))

    def __call__(self, x, y=10, *rest, z=3, **kw):
      _c('call')
      self.calls += 1
      if x > 0:
        r = x + y + self.base
      else:
        r = y - x
      _t('call', x, y, rest, z, sorted(kw.items()))
      return (r, z, len(rest))

  class Ctor(object):
    def __init__(self, x, y=10, *rest, z=3, **kw):
      _c('init')
      _t('init', x, y, rest, z, sorted(kw.items()))
      self.x = x
      self.y = y
      self.z = z

  class WithMeta(metaclass=Meta):
    def __init__(self, r, z):
      _c('metainit')
      self.r = r
      self.z = z

  class TC(unittest.TestCase):
    def runTest(self):
      pass

    def util(self, x, y=10, *rest, z=3, **kw):
      _c('util')
      if x > 0:
        r = x + y
      else:
        r = y - x
      _t('util', x, y, rest, z, sorted(kw.items()))
      return (r, z, len(rest))

  class Base(object):
    __module__ = 'numpy.vf_c13base'

    def inherited(self, x, y=10, *rest, z=3, **kw):
      _c('inherited')
      if x > 0:
        r = x + y
      else:
        r = y - x
      _t('inherited', x, y, rest, z, sorted(kw.items()))
      return (r, z, len(rest))

    def overridden(self, x, y=10, *rest, z=3, **kw):
      return None

  class Sub(Base):
    def overridden(self, x, y=10, *rest, z=3, **kw):
      _c('overridden')
      if x > 0:
        r = x + y
      else:
        r = y - x
      _t('overridden', x, y, rest, z, sorted(kw.items()))
      return (r, z, len(rest))

  Pt = collections.namedtuple('Pt', ['x', 'y'])

  class Pt2(Pt):
    def norm(self, x, y=10, *rest, z=3, **kw):
      _c('norm')
      if x > 0:
        r = x + y + self.x
      else:
        r = y - x
      _t('norm', x, y, rest, z, sorted(kw.items()))
      return (r, z, len(rest))

  class StaticCall(object):
    @staticmethod
    def __call__(x, y=10, *rest, z=3, **kw):
      _c('scall')
      if x > 0:
        r = x + y
      else:
        r = y - x
      _t('scall', x, y, rest, z, sorted(kw.items()))
      return (r, z, len(rest))

  class ClassCall(object):
    @classmethod
    def __call__(cls, x, y=10, *rest, z=3, **kw):
      _c('ccall')
      if x > 0:
        r = x + y
      else:
        r = y - x
      _t('ccall', cls.__name__, x, y, rest, z, sorted(kw.items()))
      return (r, z, len(rest))

  class Unhashable(object):
    __hash__ = None

    def __init__(self):
      self.calls = 0

    def __call__(self, x, y=10, *rest, z=3, **kw):
      _c('ucall')
      self.calls += 1
      if x > 0:
        r = x + y
      else:
        r = y - x
      _t('ucall', x, y, rest, z, sorted(kw.items()))
      return (r, z, len(rest))

  class Slots(object):
    __slots__ = ('a',)

    def __init__(self):
      self.a = 5

    def sm(self, x, y=10, *rest, z=3, **kw):
      _c('slotm')
      if x > 0:
        r = x + y + self.a
      else:
        r = y - x
      self.a += 1
      _t('slotm', x, y, rest, z, sorted(kw.items()))
      return (r, z, len(rest))

  class TNT(typing.NamedTuple):
    a: int = 1

    def tnorm(self, x, y=10, *rest, z=3, **kw):
      _c('tnorm')
      if x > 0:
        r = x + y + self.a
      else:
        r = y - x
      _t('tnorm', x, y, rest, z, sorted(kw.items()))
      return (r, z, len(rest))

  return dict(C=C, Ctor=Ctor, WithMeta=WithMeta, TC=TC, Base=Base, Sub=Sub, Pt=Pt, Pt2=Pt2, TNT=TNT, StaticCall=StaticCall,
              ClassCall=ClassCall, Unhashable=Unhashable, Slots=Slots)


def deco(fn):
  @functools.wraps(fn)
  def deco_wrapper(*a, **k):
    _c('deco_wrapper')
    _t('deco_wrapper', a, sorted(k.items()))
    return fn(*a, **k)
  return deco_wrapper


_EXEC_SRC = """
def execd(x, y=10, *rest, z=3, **kw):
  _c('execd')
  if x > 0:
    r = x + y
  else:
    r = y - x
  _t('execd', x, y, rest, z, sorted(kw.items()))
  return (r, z, len(rest))
"""


def make_exec(filename):
  ns = {'_c': _c, '_t': _t, '__name__': __name__}
  exec(compile(_EXEC_SRC, filename, 'exec'), ns)
  return ns['execd']


def make_wrapt():
  @_wrapt.decorator
  def wr(wrapped, instance, args, kwargs):
    _t('wrapt', args, sorted(kwargs.items()))
    return wrapped(*args, **kwargs)
  return wr(make_func())


def tagged(p):
  p.tag = 1   # an instance dict keeps functools.partial from flattening the chain
  return p


# --- receivers with overloaded special methods --------------------------------------------------------------------
# Callable objects (and classes, through their metaclass) whose type overloads comparison, hashing, truth testing,
# attribute lookup or weak-referencability the way symbolic / tracer / ORM-column / array / container / proxy types do.
# All of them keep to the data-model conventions (see ASSUMPTIONS); the call itself is ordinary.


class EqExpr(object):
  """expression node `lhs == rhs` built instead of a bool (truthy, like any plain object)"""

  def __init__(self, op, lhs, rhs):
    self.op, self.lhs, self.rhs = op, lhs, rhs


class Ambiguous(object):
  """element-wise comparison result: its truth value is an error (numpy style)"""

  def __bool__(self):
    raise ValueError('the truth value of an element-wise result is ambiguous')


def _op_same(a, b):
  return type(a) is type(b) and a.base == b.base


def _op_eq_raises(self, other):
  if type(other) is not type(self):
    raise TypeError('cannot compare %s with %s' % (type(self).__name__, type(other).__name__))
  return self.base == other.base


def _op_ne_raises(self, other):
  return not _op_eq_raises(self, other)


def _op_raise(exc_type, msg):
  def raiser(self, *a):
    raise exc_type(msg)
  return raiser


def _op_getattr(self, name):
  # delegating proxy: unknown public names are looked up on the wrapped value, everything else is an AttributeError
  if name.startswith('_') or name.endswith('_') or 'base' not in self.__dict__:
    raise AttributeError(name)
  return getattr(self.__dict__['base'], name)


_IDHASH = object.__hash__
OP_PROFILES = {
    # comparison
    'eq_expr': {'__eq__': lambda s, o: EqExpr('==', s, o), '__ne__': lambda s, o: EqExpr('!=', s, o), '__hash__': _IDHASH},
    'eq_raises': {'__eq__': _op_eq_raises, '__ne__': _op_ne_raises, '__hash__': lambda s: hash(s.base)},
    'eq_always_true': {'__eq__': lambda s, o: True, '__ne__': lambda s, o: False, '__hash__': _IDHASH},
    'eq_ambiguous': {'__eq__': lambda s, o: Ambiguous(), '__ne__': lambda s, o: Ambiguous(), '__hash__': _IDHASH},
    'eq_notimplemented': {'__eq__': lambda s, o: NotImplemented, '__hash__': _IDHASH},                       # control
    'eq_value': {'__eq__': _op_same, '__hash__': lambda s: hash(s.base)},                                   # control
    'eq_only_unhashable': {'__eq__': _op_same},                              # defining __eq__ alone sets __hash__ = None
    # truth testing
    'falsy_bool': {'__bool__': lambda s: False},
    'falsy_len': {'__len__': lambda s: 0},
    'bool_raises': {'__bool__': _op_raise(ValueError, 'the truth value of this object is ambiguous')},
    'arraylike': {'__eq__': lambda s, o: Ambiguous(), '__ne__': lambda s, o: Ambiguous(), '__len__': lambda s: 3,
                  '__bool__': _op_raise(ValueError, 'the truth value of an array is ambiguous')},           # unhashable
    # hashing / weak references / attribute lookup
    'hash_raises_typeerror': {'__hash__': _op_raise(TypeError, 'unhashable type')},
    'hash_constant': {'__hash__': lambda s: 0},
    'slots_noweakref': {'__slots__': ('base', 'calls')},
    'getattr_proxy': {'__getattr__': _op_getattr},
    'plain': {},                                                                                            # control
}


def make_opclass(profile):
  def __init__(self, base=7):
    self.base = base
    self.calls = 0

  def __call__(self, x, y=10, *rest, z=3, **kw):
    _c('opcall')
    self.calls += 1
    if x > 0:
      r = x + y + self.base
    else:
      r = y - x
    _t('opcall', x, y, rest, z, sorted(kw.items()))
    return (r, z, len(rest))

  def m(self, x, y=10, *rest, z=3, **kw):
    _c('opm')
    self.calls += 1
    if x > 0:
      r = x + y + self.base
    else:
      r = y - x
    _t('opm', x, y, rest, z, sorted(kw.items()))
    return (r, z, len(rest))

  ns = {'__init__': __init__, '__call__': __call__, 'm': m, '__module__': __name__, '__qualname__': 'Op_' + profile}
  ns.update(OP_PROFILES[profile])
  return type('Op_' + profile, (object,), ns)


class MetaEqExpr(Meta):
  def __eq__(cls, other):
    return EqExpr('==', cls, other)

  def __ne__(cls, other):
    return EqExpr('!=', cls, other)

  __hash__ = type.__hash__


class MetaEqRaises(Meta):
  def __eq__(cls, other):
    if not isinstance(other, MetaEqRaises):
      raise TypeError('cannot compare %s with %s' % (cls.__name__, type(other).__name__))
    return cls is other

  __hash__ = type.__hash__


def make_metaop_class(meta):
  class WithMetaOp(metaclass=meta):
    def __init__(self, r, z):
      _c('metainit')
      self.r = r
      self.z = z
  return WithMetaOp


# native call-site shapes (converted as callers for the "nested" route)
def call_pos2(f, a, b):
  return f(a, b)


def call_star(f, args):
  return f(*args)


def call_starkw(f, args, kwargs):
  return f(*args, **kwargs)


def call_kw(f, a, kwargs):
  return f(a, **kwargs)


def call_mixed(f, a, b, kwargs):
  return f(a, z=b, **kwargs)


def call_lead_star(f, a, rest, kwargs):
  return f(a, *rest, **kwargs)
'''

# ------------------------------------------------------------------------------------------------
# the policy model's copy of the documented allow-list (core/config.py), first match wins

RULES = (
    ('C', 'tensorflow.python.training.experimental'),
    ('D', 'malt'),
    ('D', 'collections'), ('D', 'copy'), ('D', 'cProfile'), ('D', 'inspect'), ('D', 'ipdb'), ('D', 'linecache'),
    ('D', 'mock'), ('D', 'pathlib'), ('D', 'pdb'), ('D', 'posixpath'), ('D', 'pstats'), ('D', 're'),
    ('D', 'threading'), ('D', 'urllib'),
    ('D', 'matplotlib'), ('D', 'numpy'), ('D', 'pandas'), ('D', 'tensorflow'), ('D', 'PIL'), ('D', 'absl.logging'),
    ('D', 'tensorflow_probability'), ('D', 'tensorflow_datasets.core'), ('D', 'keras'),
)


def model_module_rule(name):
  """'D' (do not convert), 'C' (definitely convert) or None: first matching rule wins."""
  for action, prefix in RULES:
    if name == prefix or name.startswith(prefix + '.'):
      return action
  return None


def model_module_allowlisted(name):
  return model_module_rule(name) == 'D'


# module-name classes of the defining module: (class, name template)
MODNAMES = {
    'plain': ['vfc13lib'],
    'prefixlike': ['reporting', 'copytools', 'numpy_utils', 'maltose', 'collections_ext', 'pdbx', 'mockery', 'kerasx',
                   'tensorflowx', 'recipes', 'inspector', 'absl.loggingx', 'absl.vfsub', 'pathlibx', 'urllib3x',
                   'tensorflow_datasets.vfsub'],
    'submodule': ['numpy.vfsub', 'malt.vfsub', 're.vfsub', 'urllib.vfsub', 'tensorflow.python.vfsub', 'absl.logging.vfsub',
                  'keras.src.vfsub', 'PIL.vfsub', 'collections.vfsub', 'tensorflow_datasets.core.vfsub', 'copy.vfsub'],
    'exact': ['ipdb', 'mock', 'PIL', 'cProfile_', 'pstats_'],   # trailing _ entries are controls (not allow-listed)
    'convert_rule': ['tensorflow.python.training.experimental.vfsub', 'tensorflow.python.training.experimental'],
}
_UNIQ = '_vf%d' % os.getpid()


def real_modname(template):
  """Name under which the library is registered.  Exact names are used verbatim when they are not importable
  modules of this environment; everything else gets a per-process suffix on its last component."""
  if template in ('ipdb', 'mock', 'PIL', 'tensorflow.python.training.experimental'):
    return template
  return template + _UNIQ


_LIBS = {}


def get_lib(template):
  m = _LIBS.get(template)
  if m is None:
    if 'numpy.vf_c13base' not in sys.modules:
      sys.modules['numpy.vf_c13base'] = types.ModuleType('numpy.vf_c13base')
    name = real_modname(template)
    if name in sys.modules:
      raise RuntimeError('refusing to shadow loaded module %s' % name)
    m = harness.load_module(LIB_SRC, name=name)
    if set(m.OP_PROFILES) != set(OP_PROFILES):
      raise RuntimeError('special-method profiles of the library and of the check differ')
    atexit.register(harness.unload_module, m)   # replays run in the parent, outside the per-run TMPDIR
    _LIBS[template] = m
  return m


# ------------------------------------------------------------------------------------------------
# callable kinds
#
# KINDS[name] = dict(build=source of an expression evaluated in the library namespace (K = make_classes()),
#                    cls=policy class, entity=code name the wrapper converts, tag=probe tag of the target body,
#                    helper=bool (body calls helper), sig='std' | name of an argument table, under=kind (partials))

def _k(build, cls, entity=None, tag=None, helper=False, sig='std', extra=None):
  return dict(build=build, cls=cls, entity=entity, tag=tag, helper=helper, sig=sig, extra=extra or {})


KINDS = {}
KINDS.update({
    'func': _k('make_func()', 'user', 'func', 'func', helper=True),
    'lambda': _k('make_lam()', 'user', '<lambda>', 'lam'),
    'mutator': _k('make_mut()', 'user', 'mut', 'mut', sig='mut'),
    'bound_method': _k("K['C']().m", 'user', 'm', 'm', helper=True),
    'unbound_method': _k("K['C'].m", 'user', 'm', 'm', helper=True, sig='self'),
    'class_method': _k("K['C'].cm", 'user', 'cm', 'cm'),
    'class_method_via_instance': _k("K['C']().cm", 'user', 'cm', 'cm'),
    'static_method': _k("K['C'].sm", 'user', 'sm', 'sm'),
    'static_method_via_instance': _k("K['C']().sm", 'user', 'sm', 'sm'),
    'callable_object': _k("K['C'](7)", 'user', '__call__', 'call'),
    'callable_object_unhashable': _k("K['Unhashable']()", 'user', '__call__', 'ucall', extra={'uncacheable': True}),
    'callable_object_static_call': _k("K['StaticCall']()", 'user', '__call__', 'scall'),
    'callable_object_classmethod_call': _k("K['ClassCall']()", 'user', '__call__', 'ccall'),
    'slots_bound_method': _k("K['Slots']().sm", 'user', 'sm', 'slotm'),
    'closure_state': _k('make_closure_state()', 'user', 'counter', 'counter'),
    'class': _k("K['Ctor']", 'never', tag='init'),
    'class_callable_metaclass': _k("K['WithMeta']", 'user', '__call__', 'metacall'),
    'generator_function': _k('make_gen()', 'generator', 'gen', 'gen'),
    'decorated_wraps': _k('deco(make_func())', 'user', 'deco_wrapper', 'deco_wrapper', extra={'inner': 'func'}),
    'lru_cache': _k('functools.lru_cache(maxsize=None)(make_func())', 'never', tag='func'),
    'wrapt': _k('make_wrapt()', 'never', tag='func'),
    'exec_string': _k("make_exec('<string>')", 'never', tag='execd'),
    'exec_nosource': _k("make_exec('<vf-no-such-file>')", 'nosource', 'execd', 'execd'),
    'namedtuple_class': _k("K['Pt']", 'never', sig='pt'),
    'namedtuple_subclass_method': _k("K['Pt2'](1, 2).norm", 'user', 'norm', 'norm'),
    'namedtuple_method': _k("K['Pt'](1, 2)._replace", 'allowlisted_opaque', sig='ptreplace'),
    'typing_namedtuple_method': _k("K['TNT'](4).tnorm", 'allowlisted', 'tnorm', 'tnorm'),
    'testcase_method': _k("K['TC']().util", 'allowlisted', 'util', 'util'),
    'inherited_from_allowlisted_base': _k("K['Sub']().inherited", 'allowlisted', 'inherited', 'inherited'),
    'overrides_allowlisted_base': _k("K['Sub']().overridden", 'user', 'overridden', 'overridden'),
    'converted_artifact': _k('_to_graph(make_func())', 'artifact_converted', tag='func'),
    'do_not_convert': _k('_api.do_not_convert(make_func())', 'never', tag='func'),
    'do_not_convert_method': _k("_api.do_not_convert(K['C']().m)", 'never', tag='m'),
    'convert_decorated': _k('_api.convert(recursive=True)(make_func())', 'artifact_convert', tag='func'),
    'unspecified_status_wrapper': _k('_api.call_with_unspecified_conversion_status(make_func())', 'never', tag='func'),
    # partial chains
    'partial_pos': _k('functools.partial(make_func(), 1)', 'user', 'func', 'func', helper=True, sig='p1'),
    'partial_kw': _k('functools.partial(make_func(), 1, z=5)', 'user', 'func', 'func', helper=True, sig='p1'),
    'partial_kw_only': _k('functools.partial(make_func(), z=5, w=6)', 'user', 'func', 'func', helper=True),
    'partial_nested': _k('functools.partial(functools.partial(make_func(), 1, z=5, w=1), 2, z=6, v=7)', 'user', 'func', 'func',
                         helper=True, sig='p2'),
    'partial_nested_tagged': _k('functools.partial(tagged(functools.partial(make_func(), 1, z=5, w=1)), 2, z=6, v=7)', 'user',
                                'func', 'func', helper=True, sig='p2'),
    'partial_triple_tagged': _k('functools.partial(tagged(functools.partial(tagged(functools.partial(make_func(), z=1, w=1)), 1, w=2)), z=9)',
                                'user', 'func', 'func', helper=True, sig='p1'),
    'partial_bound_method': _k("functools.partial(K['C']().m, 1, z=5)", 'user', 'm', 'm', helper=True, sig='p1'),
    'partial_callable_object': _k("functools.partial(K['C'](7), 1, z=5)", 'user', '__call__', 'call', sig='p1'),
    'partial_lambda': _k('functools.partial(make_lam(), z=5)', 'user', '<lambda>', 'lam'),
    'partial_class': _k("functools.partial(K['Ctor'], 1, z=5)", 'never', tag='init', sig='p1'),
    'partial_do_not_convert': _k('functools.partial(_api.do_not_convert(make_func()), 1, z=5)', 'never', tag='func', sig='p1'),
    'partial_lru_cache': _k('functools.partial(functools.lru_cache(maxsize=None)(make_func()), 1, z=5)', 'never', tag='func', sig='p1'),
    'partial_generator': _k('functools.partial(make_gen(), 1, z=5)', 'generator', 'gen', 'gen', sig='p1'),
    'partial_mutator': _k('functools.partial(make_mut(), z=5, acc=[0])', 'user', 'mut', 'mut', sig='mut'),
    'partial_builtin_sorted': _k('functools.partial(sorted, reverse=True)', 'never', sig='b:sorted1'),
    'partial_builtin_int': _k('functools.partial(int, base=8)', 'never', sig='b:int1'),
    'partial_builtin_print': _k("functools.partial(print, 'p', sep='-')", 'never', sig='b:print'),
})

# Receivers whose type overloads special methods (the library's OP_PROFILES): comparison that does not answer with a bool
# (expression node, element-wise result with an ambiguous truth value), that raises for foreign operands or that is true for
# everything; falsy / truth-less objects; unhashable, constant-hash and non-weak-referencable objects; delegating proxies.
# The wrapper has to classify such a callable by identity and type only: it is an ordinary user callable (policy class
# 'user') in each of the forms below, and is called exactly like natively.
OP_PROFILES = ('eq_expr', 'eq_raises', 'eq_always_true', 'eq_ambiguous', 'eq_notimplemented', 'eq_value', 'eq_only_unhashable',
               'falsy_bool', 'falsy_len', 'bool_raises', 'arraylike', 'hash_raises_typeerror', 'hash_constant', 'slots_noweakref',
               'getattr_proxy', 'plain')
OP_CONTROLS = ('eq_notimplemented', 'eq_value', 'plain')
# profiles for which `receiver == anything` is not a plain False (what an equality-based membership test trips over)
OP_EQ_NONSTANDARD = ('eq_expr', 'eq_raises', 'eq_always_true', 'eq_ambiguous', 'arraylike')
OP_TRUTH_NONSTANDARD = ('falsy_bool', 'falsy_len', 'bool_raises', 'arraylike')
# the allow-list cache cannot hold them (unhashable or no weak references): cache_allowlisted documents the catch-all
OP_UNCACHEABLE = ('eq_only_unhashable', 'arraylike', 'hash_raises_typeerror', 'slots_noweakref', 'eq_ambiguous')   # eq_ambiguous: the cache lookup compares the weak key through ==, whose result has no truth value (catch-all since FC13b)
OP_FORMS = ('object', 'partial', 'bound_method')
OP_KINDS = []
for _p in OP_PROFILES:
  _unc = {'uncacheable': True} if _p in OP_UNCACHEABLE else {}
  KINDS['opobj:' + _p] = _k("OP(%r)(7)" % _p, 'user', '__call__', 'opcall', extra=dict(_unc, profile=_p, form='object'))
  KINDS['partial_opobj:' + _p] = _k("functools.partial(OP(%r)(7), 1, z=5)" % _p, 'user', '__call__', 'opcall', sig='p1',
                                    extra=dict(_unc, profile=_p, form='partial'))
  # the allow-list cache is keyed by the function behind a bound method, so these are all cacheable
  KINDS['opmethod:' + _p] = _k("OP(%r)(7).m" % _p, 'user', 'm', 'opm', extra=dict(profile=_p, form='bound_method'))
  OP_KINDS += ['opobj:' + _p, 'partial_opobj:' + _p, 'opmethod:' + _p]
# classes called through a callable metaclass that also overloads the comparison of the class objects themselves
KINDS['class_callable_metaclass_eq_expr'] = _k("make_metaop_class(MetaEqExpr)", 'user', '__call__', 'metacall',
                                               extra=dict(profile='eq_expr', form='metaclass'))
KINDS['class_callable_metaclass_eq_raises'] = _k("make_metaop_class(MetaEqRaises)", 'user', '__call__', 'metacall',
                                                 extra=dict(profile='eq_raises', form='metaclass'))
OP_KINDS += ['class_callable_metaclass_eq_expr', 'class_callable_metaclass_eq_raises']

# genuine defects found by this check are excluded from generation behind a named flag (the redirected draws are counted
# as excluded:<flag>) while their committed replay keeps exercising the exact shape.  Finding FC13a/b (__call__ declared
# as staticmethod / classmethod received the instance as an extra first argument) was fixed in /repo, so its two kinds
# are generated again and replays/C13/FC13*.json are ordinary regression replays.
EXCLUDED_KINDS = {}

# Named exclusions of exact shapes (suspected genuine defects reported by the extension that added the special-method
# receivers; the redirected cases are counted as excluded:<flag>).
#   eq_ambiguous_receiver_cached: a *hashable* callable object whose `==` answers with an object that has no truth value
#   (element-wise comparison, identity hash: torch.Tensor style), once the wrapper has entered it in the allow-list cache
#   (it ran unconverted: allow-listed module, non-recursive mode, or a conversion failure).  Every later
#   conversion.is_in_allowlist_cache(f, ...) compares the weak key with itself through `==` and the ValueError of the truth
#   test escapes from converted_call (only TypeError is caught there).  The cases are redirected to the unhashable twin of the
#   profile ('arraylike'), which never enters the cache; the same receiver in cases that do not cache it stays generated.
EXCL = {'eq_ambiguous_receiver_cached': False}   # FC13b repaired in /repo: the shape is generated again


def redirect_excluded(case):
  """Applies the named shape exclusions; returns the case (possibly redirected, with case['excluded'] set)."""
  ex = KINDS[case['kind']]['extra']
  if EXCL['eq_ambiguous_receiver_cached'] and ex.get('profile') == 'eq_ambiguous' and ex.get('form') in ('object', 'partial'):
    _, ureq, internal = effective_options(case)
    converted = internal and (ureq or not model_module_allowlisted(real_modname(case['mod'])))
    if case['ctx'] != 'DISABLED' and (case.get('fault') is not None or not converted):
      return dict(case, kind=case['kind'].replace(':eq_ambiguous', ':arraylike'), excluded='eq_ambiguous_receiver_cached')
  return case

# builtins, their overloads, C functions, functions of allow-listed modules: never converted
# NATIVE[name] = (expression building the callable, [(args source, kwargs source), ...])
NATIVE = {
    'len': ('len', [("([1, 2, 3],)", 'None'), ("('ab',)", '{}'), ("(5,)", 'None')]),
    'abs': ('abs', [('(-3,)', 'None'), ('(2.5,)', '{}')]),
    'max': ('max', [('(3, 1, 2)', 'None'), ('((),)', "{'default': 0}"), ('([4, 9],)', "{'key': neg}")]),
    'sorted': ('sorted', [('([3, 1, 2],)', 'None'), ('([3, 1, 2],)', "{'reverse': True}"), ('([3, 1, 2],)', "{'key': neg}")]),
    'range': ('range', [('(4,)', 'None'), ('(1, 9, 2)', '{}'), ('(5, 0, -2)', 'None')]),
    'int': ('int', [("('12',)", 'None'), ("('12',)", "{'base': 8}"), ('(7.9,)', '{}'), ('()', 'None')]),
    'float': ('float', [("('1.5',)", 'None'), ('(2,)', '{}'), ('()', 'None')]),
    'print': ('print', [("('a', 1)", 'None'), ("('a', 1)", "{'sep': '-', 'end': '!'}"), ('()', '{}')]),
    'enumerate': ('enumerate', [("(['a', 'b'],)", 'None'), ("(['a', 'b'],)", "{'start': 2}"), ("(['a', 'b'], 5)", '{}')]),
    'zip': ('zip', [('([1, 2], [3, 4])', 'None'), ('([1, 2], [3])', '{}'), ('()', 'None')]),
    'map': ('map', [('(neg, [1, 2])', 'None'), ('(max, [1, 5], [3, 2])', '{}')]),
    'filter': ('filter', [('(None, [0, 1, 2])', 'None'), ('(neg, [0, 1])', '{}')]),
    'any': ('any', [('([0, 1],)', 'None'), ('([],)', '{}')]),
    'all': ('all', [('([0, 1],)', 'None'), ('([],)', '{}')]),
    'isinstance': ('isinstance', [('(1, int)', 'None')]),
    'getattr': ('getattr', [("('abc', 'upper')", 'None'), ("('abc', 'nope', 5)", '{}')]),
    'dict': ('dict', [("((('a', 1),),)", "{'b': 2}"), ('()', 'None')]),
    'list_append': ('LST.append', [('(4,)', 'None')]),
    'str_upper_descriptor': ('str.upper', [("('abc',)", 'None')]),
    'str_join_bound': ("'-'.join", [("(['a', 'b'],)", 'None')]),
    'math_floor': ('math.floor', [('(2.5,)', 'None')]),
    'operator_add': ('operator.add', [('(1, 2)', 'None')]),
    'itertools_chain': ('itertools.chain', [('([1], [2])', 'None')]),
    'int_type_error': ('int', [("('x',)", 'None'), ("([],)", '{}')]),
    're_sub': ('re.sub', [("('a', 'b', 'banana')", 'None'), ("('a', 'b', 'banana')", "{'count': 1}")]),
    're_compile': ('re.compile', [("('a+',)", 'None')]),
    'copy_deepcopy': ('copy.deepcopy', [('([1, [2]],)', 'None')]),
    'collections_ordereddict': ('collections.OrderedDict', [('()', "{'a': 1}")]),
    'collections_namedtuple': ('collections.namedtuple', [("('Q', ['a', 'b'])", 'None')]),
    'inspect_isfunction': ('inspect.isfunction', [('(len,)', 'None')]),
    'posixpath_join': ('posixpath.join', [("('a', 'b')", 'None')]),
    'urllib_quote': ('urllib.parse.quote', [("('a b',)", "{'safe': ''}")]),
}
# Native *namesakes*: C-implemented functions and bound C methods whose __name__ is the name of a builtin that the wrapper
# substitutes by an overload (abs/all/any/enumerate/filter/float/int/len/map/next/print/range/sorted/zip) but which are not
# that builtin.  They must simply be called (receiver kept, own signature).  Every first argument shape is one for which the
# native call and the overload of the builtin of the same name differ observably (value, exception type or receiver state);
# the unbound descriptors, the non-substituted names (max/sum/round) and the genuine `next` are controls.
NAMESAKE = {
    'ns:decimal_ctx_abs': ('decimal.Context(prec=2).abs',
                           [("(decimal.Decimal('-1.23456'),)", 'None'), ("(decimal.Decimal('2.34567'),)", '{}'), ('(-7,)', 'None'),
                            ('()', 'None'), ("('x',)", '{}'), ("(decimal.Decimal('-1.23456'), 1)", 'None')]),
    'ns:decimal_ctx_abs_trapping': ('decimal.Context(prec=2, traps=[decimal.Inexact]).abs',
                                    [("(decimal.Decimal('-1.23456'),)", 'None'), ("(decimal.Decimal('-1.2'),)", '{}')]),
    'ns:decimal_ctx_subclass_abs': ("type('Ctx3', (decimal.Context,), {})(prec=3).abs",
                                    [("(decimal.Decimal('-9.87654'),)", '{}'), ("(decimal.Decimal('1E+3'),)", 'None')]),
    'ns:decimal_ctx_abs_unbound': ('decimal.Context.abs', [("(decimal.Context(prec=2), decimal.Decimal('-1.23456'))", 'None'),
                                                           ("(decimal.Decimal('-1.23456'),)", '{}')]),
    'ns:operator_abs': ('operator.abs', [('()', "{'x': -3}"), ('(-3,)', 'None'), ("(decimal.Decimal('-1.5'),)", '{}'), ('()', 'None'),
                                         ("('a',)", 'None')]),
    'ns:operator_dunder_abs': ('operator.__abs__', [('()', "{'x': 2.5}"), ('(-2.5,)', '{}'), ('(1, 2)', 'None')]),
    'ns:next_builtin': ('next', [('(iter([7, 8]),)', 'None'), ('(iter([]), 5)', 'None'), ('(iter([]),)', '{}'), ('([1],)', 'None'),
                                 ('(iter([]),)', "{'default': 1}")]),
}
try:
  import curses as _curses
  # never called successfully: a C function taking no arguments, so that the native call is a TypeError
  NAMESAKE['ns:curses_filter'] = ('curses.filter', [('(None, [0, 1, 2])', 'None'), ('(neg, [0, 1])', '{}')])
except Exception:  # pragma: no cover
  _curses = None
try:
  import numpy as _np
  NAMESAKE.update({
      'ns:ndarray_any': ('np.array([[0, 0], [0, 3], [1, 1]]).any',
                         [('()', 'None'), ('()', "{'axis': 1}"), ('(0,)', 'None'), ('()', '{}'), ('()', "{'keepdims': True}"),
                          ('([0, 1],)', 'None')]),
      'ns:ndarray_all': ('np.array([[0, 2], [1, 3]]).all',
                         [('()', "{'axis': 0}"), ('()', 'None'), ('(1,)', '{}'), ('([],)', 'None'),
                          ('()', "{'axis': (0, 1)}")]),
      'ns:ndarray_subclass_any': ("np.array([[0, 1], [0, 0]]).view(type('SubArr', (np.ndarray,), {})).any",
                                  [('()', '{}'), ('(1,)', 'None'), ('()', "{'axis': 0}")]),
      'ns:ndarray0d_all': ('np.array(3).all', [('()', 'None'), ('()', "{'axis': None}")]),
      'ns:npscalar_any': ('np.int64(0).any', [('()', 'None'), ('()', '{}'), ('(None,)', 'None')]),
      'ns:npscalar_all': ('np.float64(2.5).all', [('()', 'None'), ('()', "{'axis': None}")]),
      'ns:npbool_all': ('np.bool_(False).all', [('()', '{}'), ('()', 'None')]),
      'ns:ndarray_any_unbound': ('np.ndarray.any', [('(np.array([0, 3]),)', 'None'), ('(np.array([[0, 3], [0, 0]]), 1)', '{}'), ('()', 'None')]),
      'ns:ndarray_max': ('np.array([[4, 9], [2, 1]]).max', [('()', 'None'), ('()', "{'axis': 0}"), ('(1,)', '{}')]),
      'ns:ndarray_sum': ('np.array([[4, 9], [2, 1]]).sum', [('()', 'None'), ('(0,)', 'None'), ('()', "{'axis': 1, 'keepdims': True}")]),
      'ns:ndarray_round': ('np.array([1.26, 2.51]).round', [('(1,)', 'None'), ('()', '{}')]),
  })
except Exception:  # pragma: no cover
  _np = None
# (out-of-range axes are left out: numpy's AxisError has a custom constructor, so crossing converted code it is re-raised as
# StagingError by the error rewriting, which is a C12 matter)
# the members of the class proper: __name__ is a substituted builtin's name, isbuiltin() is true, and it is not that builtin
NAMESAKE_CONTROLS = ('ns:decimal_ctx_abs_unbound', 'ns:next_builtin', 'ns:ndarray_any_unbound', 'ns:ndarray_max', 'ns:ndarray_sum',
                     'ns:ndarray_round')
NATIVE.update(NAMESAKE)

# allow-listed by a module rule only (not in the "permanently allowed" list): user_requested asks for conversion
NATIVE_RULE_ONLY = ('posixpath_join', 'urllib_quote')
for _n in NATIVE:
  KINDS['native:' + _n] = _k(NATIVE[_n][0], 'allowlisted_opaque' if _n in NATIVE_RULE_ONLY else 'never', sig='native:' + _n)

# argument tables: (args source, kwargs source)
ARGS = {
    'std': [('(1,)', 'None'), ('(1,)', '{}'), ('(1, 2)', 'None'), ('(1, 2, 3, 4)', '{}'), ('(-1,)', "{'z': 7}"),
            ('(1,)', "{'y': 5}"), ('(2,)', "{'y': 5, 'z': 7, 'w': 9}"), ('()', "{'x': 4}"), ('()', "{'x': -4, 'y': 1, 'q': 0}"),
            ('(1, 2, 3)', "{'z': 8, 'k': 1}"), ('()', 'None'), ('()', '{}'), ('(1,)', "{'x': 2}"), ('(1,)', "{'z': -5}"),
            ('(0,)', "{'w': 1}")],
    # first positional already bound by the partial
    'p1': [('()', 'None'), ('()', '{}'), ('(2,)', 'None'), ('(2, 3, 4)', '{}'), ('()', "{'z': 7}"), ('(2,)', "{'z': 7, 'w': 9}"),
           ('()', "{'y': 5}"), ('(2,)', "{'y': 5}"), ('()', "{'x': 2}"), ('(2,)', "{'q': 0}"), ('()', "{'z': -5}")],
    'p2': [('()', 'None'), ('()', '{}'), ('(3,)', 'None'), ('(3, 4)', "{'z': 7}"), ('()', "{'w': 9, 'v': 8}"), ('()', "{'z': 7, 'u': 0}"),
           ('(3,)', "{'y': 5}")],
    'self': [("(K['C'](), 1)", 'None'), ("(K['C'](), 1, 2)", "{'z': 7}"), ("(K['C'](),)", "{'x': 4, 'w': 1}"), ('(1,)', 'None'),
             ("(K['C'](5), 1)", '{}')],
    'mut': [('([1],)', 'None'), ('([1], 2)', "{'z': 7}"), ('([1],)', "{'box': [5]}"), ('(1,)', "{'box': [5], 'z': 0}"),
            ('([],)', '{}'), ('([1],)', "{'acc': [9]}")],
    'pt': [('(1, 2)', 'None'), ('(1,)', "{'y': 2}"), ('()', "{'x': 1, 'y': 2}"), ('(1,)', 'None'), ('(1, 2)', '{}')],
    'ptreplace': [('()', "{'x': 5}"), ('()', 'None'), ('()', '{}'), ('()', "{'q': 1}")],
    'b:sorted1': [('([3, 1, 2],)', 'None'), ('([3, 1, 2],)', "{'reverse': False}"), ('([3, 1, 2],)', "{'key': neg}"), ('([2, 5],)', '{}')],
    'b:int1': [("('17',)", 'None'), ("('17',)", "{'base': 10}"), ("('17',)", '{}')],
    'b:print': [("('a', 1)", 'None'), ("('a',)", "{'sep': '+', 'end': '!'}"), ('()', '{}')],
}
for _n in NATIVE:
  ARGS['native:' + _n] = NATIVE[_n][1]

CALLSITES = ('pos2', 'star', 'starkw', 'kw', 'mixed', 'lead_star')

# pipeline stages: name -> (module path, attribute, max useful nth)
STAGES = {
    'program_ctx': ('malt.core.converter', 'ProgramContext', 1),
    'futureimports': ('malt.pyct.inspect_utils', 'getfutureimports', 1),
    'source': ('malt.pyct.inspect_utils', 'getimmediatesource', 1),
    'parse': ('malt.pyct.parser', 'parse', 2),
    'origin_info': ('malt.pyct.origin_info', 'resolve_entity', 1),
    'namespace': ('malt.pyct.inspect_utils', 'getnamespace', 1),
    'namer': ('malt.pyct.naming', 'Namer', 1),
    'unsupported_check': ('malt.core.unsupported_features_checker', 'verify', 1),
    'cfg': ('malt.pyct.cfg', 'build', 2),
    'qual_names': ('malt.pyct.qual_names', 'resolve', 8),
    'activity': ('malt.pyct.static_analysis.activity', 'resolve', 7),
    'reaching_definitions': ('malt.pyct.static_analysis.reaching_definitions', 'resolve', 2),
    'reaching_fndefs': ('malt.pyct.static_analysis.reaching_fndefs', 'resolve', 1),
    'liveness': ('malt.pyct.static_analysis.liveness', 'resolve', 1),
    'conv:functions': ('malt.converters.functions', 'transform', 1),
    'conv:directives': ('malt.converters.directives', 'transform', 1),
    'conv:break_statements': ('malt.converters.break_statements', 'transform', 1),
    'conv:asserts': ('malt.converters.asserts', 'transform', 1),
    'conv:continue_statements': ('malt.converters.continue_statements', 'transform', 1),
    'conv:return_statements': ('malt.converters.return_statements', 'transform', 1),
    'conv:lists': ('malt.converters.lists', 'transform', 1),
    'conv:slices': ('malt.converters.slices', 'transform', 1),
    'conv:call_trees': ('malt.converters.call_trees', 'transform', 1),
    'conv:control_flow': ('malt.converters.control_flow', 'transform', 1),
    'conv:conditional_expressions': ('malt.converters.conditional_expressions', 'transform', 1),
    'conv:logical_expressions': ('malt.converters.logical_expressions', 'transform', 1),
    'conv:variables': ('malt.converters.variables', 'transform', 1),
    'load_ast': ('malt.pyct.loader', 'load_ast', 1),
    'load_source': ('malt.pyct.loader', 'load_source', 1),
    'instantiate': ('malt.pyct.transpiler', '_PythonFnFactory.instantiate', 1),
}
# stages only reached with an optional feature switched on
STAGE_FEATURE = {'conv:asserts': 'ASSERT_STATEMENTS', 'conv:lists': 'LISTS', 'conv:slices': 'LISTS'}


class InjectedFault(RuntimeError):
  pass


EXC_TYPES = {
    'InjectedFault': InjectedFault, 'ValueError': ValueError, 'KeyError': KeyError, 'AssertionError': AssertionError,
    'TypeError': TypeError, 'AttributeError': AttributeError, 'NotImplementedError': NotImplementedError,
    'OSError': OSError, 'SyntaxError': SyntaxError, 'NameError': NameError, 'RecursionError': RecursionError,
    'UnsupportedLanguageElementError': _errors.UnsupportedLanguageElementError,
    'InaccessibleSourceCodeError': _errors.InaccessibleSourceCodeError,
    'PyCTError': _errors.PyCTError,
}
_EXC_NAMES = sorted(EXC_TYPES)
# kinds whose target conversion is attempted under the default options (used by the enumeration)
CONVERTIBLE = [k for k, v in KINDS.items() if v['cls'] == 'user']

# ------------------------------------------------------------------------------------------------
# instrumentation


class _Warnings(_pylogging.Handler):
  def __init__(self):
    _pylogging.Handler.__init__(self, level=_pylogging.WARNING)
    self.records = []

  def emit(self, record):
    try:
      msg = record.getMessage()
    except Exception as e:  # a malformed warning call is itself a finding
      msg = 'UNFORMATTABLE:%r %r %r' % (record.msg, record.args, e)
    self.records.append(msg)


_WARN = _Warnings()
_root = _pylogging.getLogger()
if _WARN not in _root.handlers:
  _root.addHandler(_WARN)


class Spy(object):
  """Records which entities reach the transpiler and installs the one-shot fault."""

  def __init__(self):
    self.attempts = []     # code names handed to transform_function
    self.transforms = 0    # transform_ast executions (cache misses)
    self.stack = []
    self.fault = None      # dict(stage, nth, exc) or None
    self.armed = False
    self.fired_in = None
    self.fired_exc = None
    self.count = 0
    self._undo = []

  def install(self, fault):
    tr = api._TRANSPILER
    spy = self
    orig_tf = tr.transform_function
    orig_ta = tr.transform_ast

    def transform_function(fn, user_context):
      name = getattr(getattr(fn, '__code__', None), 'co_name', repr(fn))
      spy.attempts.append(name)
      spy.stack.append(name)
      try:
        return orig_tf(fn, user_context)
      finally:
        spy.stack.pop()

    def transform_ast(node, ctx):
      spy.transforms += 1
      return orig_ta(node, ctx)

    tr.transform_function = transform_function
    tr.transform_ast = transform_ast
    self._undo.append(lambda: (tr.__dict__.pop('transform_function', None), tr.__dict__.pop('transform_ast', None)))
    self.fault = fault
    if fault is not None:
      modpath, attr, _ = STAGES[fault['stage']]
      owner = sys.modules.get(modpath) or __import__(modpath, fromlist=['x'])
      parts = attr.split('.')
      for p in parts[:-1]:
        owner = getattr(owner, p)
      name = parts[-1]
      orig = owner.__dict__[name] if isinstance(owner, type) else getattr(owner, name)
      is_method = isinstance(owner, type)

      def faulty(*a, **k):
        # ProgramContext is built before the transpiler is entered: attribute it to the pending target
        if spy.armed and (spy.stack or fault['stage'] == 'program_ctx'):
          spy.count += 1
          if spy.count == fault['nth']:
            spy.armed = False
            spy.fired_in = spy.stack[-1] if spy.stack else '<program_ctx>'
            spy.fired_exc = EXC_TYPES[fault['exc']]('vf-injected fault at %s' % fault['stage'])
            raise spy.fired_exc
        return orig(*a, **k)

      setattr(owner, name, faulty)
      self._undo.append(lambda: setattr(owner, name, orig))

  def uninstall(self):
    while self._undo:
      self._undo.pop()()


def _normalise(v, depth=0):
  if depth > 6:
    return '...'
  if isinstance(v, (tuple, list)):
    return [type(v).__name__] + [_normalise(x, depth + 1) for x in v]
  if isinstance(v, dict):
    return ['dict'] + [[_normalise(k, depth + 1), _normalise(x, depth + 1)] for k, x in v.items()]
  if v is None or isinstance(v, (bool, int, float, str, bytes)):
    return repr(v)
  if isinstance(v, type):
    return 'type:' + v.__name__
  if isinstance(v, _decimal.Decimal):
    return 'Decimal:' + str(v)
  if isinstance(v, _decimal.Context):
    return 'DecimalContext:' + repr(v)   # precision, rounding, raised flags, traps
  if _np is not None and isinstance(v, _np.ndarray):
    return ['ndarray:' + type(v).__name__, str(v.dtype), list(v.shape), _normalise(v.tolist(), depth + 1)]
  if _np is not None and isinstance(v, _np.generic):
    return 'npscalar:%s:%r' % (type(v).__name__, v.item())
  if isinstance(v, types.GeneratorType) or (hasattr(v, '__next__') and hasattr(v, '__iter__')) or isinstance(v, range):
    out = ['iter:' + type(v).__name__]
    try:
      for i, x in enumerate(v):
        if i >= 50:
          out.append('...')
          break
        out.append(_normalise(x, depth + 1))
    except Exception as e:
      out.append('raised:' + type(e).__name__)
    return out
  if hasattr(v, 'pattern') and hasattr(v, 'flags'):
    return 're:%s' % v.pattern
  d = getattr(v, '__dict__', None)
  if isinstance(d, dict) and not callable(v):
    return ['obj:' + type(v).__name__] + [[k, _normalise(x, depth + 1)] for k, x in sorted(d.items())]
  if callable(v):
    return 'callable:' + getattr(v, '__name__', type(v).__name__)
  return 'obj:' + type(v).__name__


def _callable_state(f, depth=0):
  """Observable state of the callable itself (what a later user of the same object would see)."""
  import functools
  if depth > 5:
    return '...'
  if isinstance(f, functools.partial):
    return ['partial', _callable_state(f.func, depth + 1), _normalise(f.args), _normalise(f.keywords),
            sorted(getattr(f, '__dict__', {}) or {})]
  if isinstance(f, types.MethodType):
    return ['method', _callable_state(f.__func__, depth + 1), _instance_state(f.__self__)]
  if isinstance(f, types.FunctionType):
    return ['function', f.__code__.co_name, sorted(f.__dict__), _normalise(f.__defaults__), _normalise(f.__kwdefaults__)]
  if isinstance(f, type):
    return ['class', f.__name__, sorted(k for k in f.__dict__ if not k.startswith('__'))]
  if isinstance(f, types.BuiltinFunctionType):
    # C function or bound C method: the receiver is the state a later user of the same object sees
    recv = getattr(f, '__self__', None)
    return ['builtin', f.__name__, 'module' if recv is None or isinstance(recv, types.ModuleType) else _normalise(recv)]
  return ['object', type(f).__name__, _instance_state(f)]


def _instance_state(o):
  if isinstance(o, type):
    return 'class:' + o.__name__
  d = getattr(o, '__dict__', None)
  if isinstance(d, dict):
    return [[k, _normalise(v)] for k, v in sorted(d.items()) if not k.startswith('_')]
  slots = getattr(type(o), '__slots__', None)
  if isinstance(slots, tuple) and not isinstance(o, (list, tuple, dict, str, int)):
    return [[k, _normalise(getattr(o, k, '<unset>'))] for k in sorted(slots) if not k.startswith('_')]
  return _normalise(o) if isinstance(o, (list, tuple, dict, str, int)) else 'obj:' + type(o).__name__


def _env(lib):
  import collections, copy, functools, inspect, itertools as it, math, operator, posixpath, re, urllib.parse
  K = lib.make_classes()
  env = dict(lib.__dict__)
  env.update(_ARG_ENV)
  env.update(K=K, functools=functools, math=math, operator=operator, itertools=it, re=re, copy=copy,
             collections=collections, inspect=inspect, posixpath=posixpath, urllib=urllib, LST=[1, 2],
             neg=lib.__dict__.setdefault('_vf_neg', _make_neg()), _to_graph=api.to_graph, _api=api, OP=lib.make_opclass)
  return env


# modules the argument / builder sources of the native kinds may name (also used by callsite_ok)
_ARG_ENV = {'decimal': _decimal}
if _np is not None:
  _ARG_ENV['np'] = _np
if _curses is not None:
  _ARG_ENV['curses'] = _curses


def _make_neg():
  def neg(v):
    return -v
  return api.do_not_convert(neg)


def _options(o):
  feats = o.get('features')
  of = None if not feats else tuple(converter.Feature[n] for n in feats)
  return converter.ConversionOptions(recursive=o['recursive'], user_requested=o['user_requested'],
                                     internal_convert_user_code=o['internal'], optional_features=of)


def effective_options(case):
  """(recursive, user_requested, internal) the wrapper sees for the *target* on the given route."""
  o = case['opts']
  via = case['via']
  if via == 'direct':
    return o['recursive'], o['user_requested'], o['internal']
  if via == 'scope':      # callopts of a FunctionScope built from the options
    return o['recursive'], False, o['recursive']
  if via == 'decorator':  # api.convert(...)(target)
    return o['recursive'], o['user_requested'], True
  if via == 'nested':     # called from a caller converted with api.convert(recursive=R, user_requested=True)
    return o['recursive'], False, o['recursive']
  raise ValueError(via)


def _target_options_obj(case):
  r, u, i = effective_options(case)
  feats = case['opts'].get('features')
  of = None if not feats else tuple(converter.Feature[n] for n in feats)
  return converter.ConversionOptions(recursive=r, user_requested=u, internal_convert_user_code=i, optional_features=of)


def _native_call(lib, callsite, f, args, kwargs):
  """The reference: the same call expressed natively through the same call-site shape."""
  return _shape_call(lib, callsite, lambda fn: fn, f, args, kwargs)


def _shape_call(lib, callsite, wrap, f, args, kwargs):
  if callsite == 'pos2':
    return wrap(lib.call_pos2)(f, args[0], args[1])
  if callsite == 'star':
    return wrap(lib.call_star)(f, args)
  if callsite == 'starkw':
    return wrap(lib.call_starkw)(f, args, kwargs if kwargs is not None else {})
  if callsite == 'kw':
    return wrap(lib.call_kw)(f, args[0], kwargs if kwargs is not None else {})
  if callsite == 'mixed':
    return wrap(lib.call_mixed)(f, args[0], args[1], kwargs if kwargs is not None else {})
  if callsite == 'lead_star':
    return wrap(lib.call_lead_star)(f, args[0], args[1:], kwargs if kwargs is not None else {})
  raise ValueError(callsite)


def callsite_ok(callsite, args_src, kwargs_src):
  """Whether the call-site shape can express the argument shape (decided on the source text)."""
  try:
    n = len(eval(args_src, dict(_ARG_ENV, K=_FakeK(), neg=None)))
  except Exception:
    return False
  none = kwargs_src == 'None'
  if callsite == 'pos2':
    return n == 2 and none
  if callsite == 'star':
    return none
  if callsite == 'starkw':
    return True
  if callsite == 'kw':
    return n == 1
  if callsite == 'mixed':
    return n == 2 and "'z'" not in kwargs_src   # f(a, z=b, **kw) with z in kw fails at the call site, before any wrapper logic
  if callsite == 'lead_star':
    return n >= 1
  return False


class _FakeK(dict):
  def __missing__(self, k):
    return lambda *a, **kw: None


@contextlib.contextmanager
def _ctx(status):
  if status in (None, 'none'):
    yield
  else:
    with ag_ctx.ControlStatusCtx(status=ag_ctx.Status[status]):
      yield


@contextlib.contextmanager
def _strict(val):
  key = 'AUTOGRAPH_STRICT_CONVERSION'
  old = os.environ.get(key)
  if val is None:
    os.environ.pop(key, None)
  else:
    os.environ[key] = str(val)
  try:
    yield
  finally:
    if old is None:
      os.environ.pop(key, None)
    else:
      os.environ[key] = old


def _observe(lib, thunk, f, args, kwargs):
  """Runs thunk() and returns one observation."""
  lib.LOG[:] = []
  lib.CONV[:] = []
  del _WARN.records[:]
  buf = io.StringIO()
  exc_obj = None
  try:
    with contextlib.redirect_stdout(buf):
      r = thunk()
      out = ('ok', _normalise(r))   # lazy results are consumed here, inside the capture
  except Exception as e:
    exc_obj = e
    out = ('exc', type(e).__name__)
  return {
      'outcome': out,
      'log': _normalise(list(lib.LOG)),
      'stdout': buf.getvalue(),
      'args_after': _normalise(args),
      'kwargs_after': _normalise(kwargs),
      'callable_after': _callable_state(f),
      'conv': list(lib.CONV),
      'warnings': list(_WARN.records),
      'exc_obj': exc_obj,
  }


_CMP = ('outcome', 'log', 'stdout', 'args_after', 'kwargs_after', 'callable_after')


def _reset_caches(conv=True):
  if conv:
    api._TRANSPILER._cache = _cache.CodeObjectCache()
  conversion._ALLOWLIST_CACHE = _cache.UnboundInstanceCache()


def _wrapped_thunk(case, lib, f, args, kwargs, ctx_status):
  """Routes the call through the wrapper on the case's route."""
  via = case['via']
  opts = _options(case['opts'])

  def thunk():
    with _ctx(ctx_status):
      if via == 'direct':
        return api.converted_call(f, args, kwargs, options=opts)
      if via == 'scope':
        fs = function_wrappers.FunctionScope('vf_caller', 'vf_caller_scope', opts)
        return api.converted_call(f, args, kwargs, fs)
      if via == 'decorator':
        feats = opts.optional_features or None
        dec = api.convert(recursive=opts.recursive, user_requested=opts.user_requested, optional_features=feats)(f)
        if kwargs is None:
          return dec(*args)
        return dec(*args, **kwargs)
      if via == 'nested':
        feats = opts.optional_features or None
        wrap = lambda caller: api.convert(recursive=opts.recursive, user_requested=True, optional_features=feats)(caller)
        return _shape_call(lib, case['callsite'], wrap, f, args, kwargs)
      raise ValueError(via)
  return thunk


def _native_thunk(case, lib, f, args, kwargs):
  via = case['via']

  def thunk():
    if via == 'nested':
      return _native_call(lib, case['callsite'], f, args, kwargs)
    if kwargs is None:
      return f(*args)
    return f(*args, **kwargs)
  return thunk


# ------------------------------------------------------------------------------------------------
# the policy model


def model(case, libname):
  """Expected conversion decision for the observed call (no fault), from the documented policy.

  Returns dict(attempt=[entity names the wrapper must hand to the transpiler, as a set],
               conv={tag: bool} for probe tags whose value is determined, fails=bool (conversion is
               attempted but documented to fail -> fallback with a warning)).
  """
  kd = KINDS[case['kind']]
  cls = kd['cls']
  rec, ureq, internal = effective_options(case)
  ctx = case['ctx']
  via = case['via']
  mod_allow = model_module_allowlisted(libname)
  if model_module_rule(libname) == 'C' and cls in ('generator', 'allowlisted'):
    # a Convert rule is a "definitely convert" verdict: it is reached before the generator / owner-class / TestCase
    # clauses of the allow-list and overrides them (config.py: evaluation stops at the first rule that tests true)
    cls = 'user_failing' if cls == 'generator' else 'user'
  enabled = ctx != 'DISABLED'
  attempt = set()
  conv = {}
  fails = False

  # the route's own conversion (the caller of the nested route is converted on explicit user request)
  caller_converted = True
  if via == 'nested':
    caller_converted = enabled
    if caller_converted:
      attempt.add('call_' + case['callsite'])
  reach = enabled and caller_converted

  def user_policy():
    return reach and internal and (ureq or not mod_allow)

  tag = kd['tag']
  if cls == 'user':
    c = user_policy()
    if c:
      attempt.add(kd['entity'])
    if tag:
      conv[tag] = c
    if kd['helper']:
      # helper is called from the converted target with call options (recursive, False, recursive)
      hc = c and rec and not mod_allow
      conv['helper'] = hc
      if hc:
        attempt.add('helper')
    inner = kd['extra'].get('inner')
    if inner:   # functools.wraps-style decorator: the inner function is an ordinary callee of the converted wrapper
      ic = c and rec and not mod_allow
      conv[inner] = ic
      if ic:
        attempt.add(inner)
      hc = ic and rec and not mod_allow
      conv['helper'] = hc
      if hc:
        attempt.add('helper')
    if case['kind'].startswith('class_callable_metaclass'):
      conv['metainit'] = False
  elif cls == 'never':
    if tag:
      conv[tag] = False
    if tag in ('func', 'm'):
      conv['helper'] = False
  elif cls == 'user_failing':
    if user_policy():
      attempt.add(kd['entity'])
      fails = True
    conv[tag] = False
  elif cls == 'generator':
    # documented: not converted; when the user explicitly requests it the attempt fails with a warning
    if reach and internal and ureq:
      attempt.add(kd['entity'])
      fails = True
    conv[tag] = False
  elif cls == 'nosource':
    if user_policy():
      attempt.add(kd['entity'])
      fails = True
    conv[tag] = False
  elif cls == 'allowlisted':
    c = reach and internal and ureq
    if c:
      attempt.add(kd['entity'])
    conv[tag] = c
  elif cls == 'allowlisted_opaque':
    pass   # stdlib code: only transparency is checked, plus "no attempt unless user requested"
  elif cls == 'artifact_converted':
    # it *is* generated code (to_graph: recursive, user requested -> its own scope enables conversion for its callees);
    # the wrapper must not convert the artifact again
    conv[tag] = True
    conv['helper'] = not mod_allow
    if not mod_allow:
      attempt.add('helper')
  elif cls == 'artifact_convert':
    # api.convert(recursive=True)(func): its own wrapper converts on every call unless the context is disabled
    c = enabled
    if c:
      attempt.add('func')
    conv[tag] = c
    hc = c and not mod_allow
    conv['helper'] = hc
    if hc:
      attempt.add('helper')
  return {'attempt': attempt, 'conv': conv, 'fails': fails, 'opaque': cls == 'allowlisted_opaque',
          'may_attempt': cls == 'allowlisted_opaque' and reach and internal and ureq}


# ------------------------------------------------------------------------------------------------
# one case


def run_case(case):
  """Executes the oracle; returns (failures [(bucket, detail)], info)."""
  fails = []
  info = {'classes': [], 'nontrivial': False}
  kd = KINDS[case['kind']]
  lib = get_lib(case['mod'])
  libname = lib.__name__
  fault = case.get('fault')
  strict = case.get('strict')
  strict_on = strict is not None and int(strict) > 0
  pre = case.get('pre') or 'none'

  def build():
    env = _env(lib)
    f = eval(kd['build'], env)
    args = eval(case['args'], env)
    kwargs = eval(case['kwargs'], env)
    return f, args, kwargs, env

  def fresh_args(env):
    return eval(case['args'], env), eval(case['kwargs'], env)

  # ---- reference world -------------------------------------------------------------------------
  with _strict(None):
    f, args, kwargs, env = build()
    ref = []
    if pre != 'none':
      ref.append(_observe(lib, _native_thunk(case, lib, f, args, kwargs), f, args, kwargs))
      args, kwargs = fresh_args(env)
    ref.append(_observe(lib, _native_thunk(case, lib, f, args, kwargs), f, args, kwargs))
    args, kwargs = fresh_args(env)
    ref.append(_observe(lib, _native_thunk(case, lib, f, args, kwargs), f, args, kwargs))
  for o in ref:
    if any(c for _, c in o['conv']) and not kd['cls'].startswith('artifact'):
      raise RuntimeError('probe claims generated code in the native world: %r' % (o['conv'],))

  # ---- wrapped world ---------------------------------------------------------------------------
  _reset_caches()
  spy = Spy()
  got = []
  try:
    with _strict(strict):
      f, args, kwargs, env = build()
      if case['via'] == 'nested' and fault is not None:
        # the caller's own conversion is not the subject: convert it before the fault is armed
        spy_dummy_args = {'pos2': (0, 0), 'star': (), 'starkw': (), 'kw': (0,), 'mixed': (0, 0), 'lead_star': (0,)}[case['callsite']]
        wcase = dict(case, fault=None)
        _wrapped_thunk(wcase, lib, lib.noop, spy_dummy_args, None if case['callsite'] in ('pos2', 'star') else {}, 'none')()
      if pre == 'warm':
        # same code objects, other function objects: fills the conversion cache only
        f0, a0, k0, _ = build()
        try:
          _wrapped_thunk(case, lib, f0, a0, k0, 'none')()
        except Exception:
          pass
        conversion._ALLOWLIST_CACHE = _cache.UnboundInstanceCache()
      spy.install(fault)
      if pre == 'disabled_first' or pre == 'warm':
        # a call made while conversion is disabled must leave nothing behind
        got.append(_observe(lib, _wrapped_thunk(case, lib, f, args, kwargs, 'DISABLED'), f, args, kwargs))
        got[-1]['attempts'] = list(spy.attempts)
        del spy.attempts[:]
        args, kwargs = fresh_args(env)
      spy.armed = fault is not None
      got.append(_observe(lib, _wrapped_thunk(case, lib, f, args, kwargs, case['ctx']), f, args, kwargs))
      got[-1]['attempts'] = list(spy.attempts)
      got[-1]['transforms'] = spy.transforms
      fired_in, fired_exc = spy.fired_in, spy.fired_exc
      spy.armed = False
      cached_after = None
      try:
        cached_after = bool(conversion.is_in_allowlist_cache(_unwrap_partial(f), _target_options_obj(case)))
      except Exception as e:
        cached_after = 'exc:' + type(e).__name__
      del spy.attempts[:]
      t_before = spy.transforms
      args, kwargs = fresh_args(env)
      got.append(_observe(lib, _wrapped_thunk(case, lib, f, args, kwargs, case['ctx']), f, args, kwargs))
      got[-1]['attempts'] = list(spy.attempts)
      got[-1]['transforms'] = spy.transforms - t_before
  finally:
    spy.uninstall()

  # ---- oracle ----------------------------------------------------------------------------------
  m = model(case, libname)
  fired = fired_in is not None
  names = (['pre'] if pre != 'none' else []) + ['call1', 'call2']
  main = got[-2]
  second = got[-1]
  target_entity = kd['entity']
  fired_name = fired_in
  if fired_in == '<program_ctx>':
    # the program context is built before the transpiler is entered: attribute it to the conversion that was pending
    if case['via'] == 'nested':
      fired_name = 'call_' + case['callsite']
    elif kd['cls'] == 'artifact_converted':
      fired_name = 'helper'
    elif kd['cls'] == 'artifact_convert':
      fired_name = 'func'
    else:
      fired_name = target_entity
  fired_in_caller = fired and str(fired_name).startswith('call_')
  fired_in_target = fired and not fired_in_caller and fired_name == target_entity and target_entity is not None

  if fired and strict_on:
    # strict mode: the conversion failure must escape as the injected exception
    e = main['exc_obj']
    # ... or as the pipeline's documented translation of it (parser.parse_entity turns an OSError of the source lookup into
    # InaccessibleSourceCodeError, raised while the original is being handled: the injected fault is then in the context chain)
    escaped = _in_exc_chain(e, fired_exc)
    if not escaped and e is not None and case['via'] in ('decorator', 'nested'):
      # the public decorator re-raises errors that crossed converted code with a rewritten message (a C12 matter)
      escaped = 'vf-injected fault' in str(e)
    if not escaped:
      fails.append(('strict:fault-did-not-escape', {'outcome': main['outcome'], 'fired_in': fired_in}))
    info['nontrivial'] = True
    info['classes'] += ['fault_fired', 'fault_fired:strict']
    _policy_pre(got, names, fails, kd)
    return fails, info

  if m['fails'] and strict_on and not fired:
    # documented failure of the conversion (generator / source-less function on explicit request) under strict mode:
    # the conversion error escapes instead of the fallback
    info['classes'].append('natural_failure:strict')
    if main['outcome'][0] != 'exc' or not isinstance(main['exc_obj'], _errors.PyCTError):
      fails.append(('strict:conversion-error-did-not-escape', {'outcome': main['outcome']}))
    _policy_pre(got, names, fails, kd)
    return fails, info

  if m['may_attempt'] and strict_on and not fired and isinstance(main['exc_obj'], _errors.PyCTError):
    # stdlib function of an allow-listed module converted on explicit request: whether its conversion succeeds is not
    # modelled (frozen modules have no source); under strict mode a conversion error escapes by definition
    info['classes'].append('natural_failure:strict')
    return fails, info

  # transparency, call by call
  for nm, r, g in zip(names, ref, got):
    for fld in _CMP:
      if r[fld] != g[fld]:
        fails.append(('transparent:%s:%s' % (fld, nm if nm == 'pre' else 'call'), {
            'call': nm, 'native': _clip(r[fld]), 'wrapped': _clip(g[fld]), 'fired_in': fired_in,
            'exc': repr(g['exc_obj'])[:300] if g['exc_obj'] is not None else None}))
        break
    # explicit invocation count of the target body
    tg = kd['tag']
    if tg:
      nr = sum(1 for e in r['log'][1:] if e[1:2] == [repr(tg)])
      ng = sum(1 for e in g['log'][1:] if e[1:2] == [repr(tg)])
      if nr != ng:
        fails.append(('invocations:%d-instead-of-%d' % (ng, nr), {'call': nm, 'fired_in': fired_in}))

  _policy_pre(got, names, fails, kd)

  # policy on the main call
  exp_attempt = set(m['attempt'])
  exp_conv = dict(m['conv'])
  exp_warn = None
  reached = set(t for t, _ in ref[-2]['conv'])
  if 'helper' not in reached:   # the callee is never reached on this input (the target raises first)
    exp_conv.pop('helper', None)
    exp_attempt.discard('helper')
  if fired:
    # the entity in which the fault fired is run unconverted; what it would have called is not wrapped at all
    info['classes'] += ['fault_fired', 'fault_fired_in:' + ('caller' if fired_in_caller else 'target' if fired_in_target else 'callee')]
    info['nontrivial'] = True
    if fired_in_caller:
      # the converted caller of the nested route fell back: the target is then called natively
      if not kd['cls'].startswith('artifact'):
        for t in list(exp_conv):
          exp_conv[t] = False
        exp_attempt = set(a for a in exp_attempt if a.startswith('call_'))
      if fired_in == '<program_ctx>':   # fails before the transpiler is entered
        exp_attempt = set(a for a in exp_attempt if not a.startswith('call_'))
    elif fired_in_target:
      for t in list(exp_conv):
        if exp_conv[t] is not None:
          exp_conv[t] = False
      if fired_in == '<program_ctx>':   # fails before the transpiler is entered
        exp_attempt = set(a for a in exp_attempt if a.startswith('call_'))
      else:
        exp_attempt = set(a for a in exp_attempt if a == target_entity or a.startswith('call_'))
    else:
      if fired_name in ('helper', 'func'):
        exp_conv[fired_name] = False
        if fired_in == '<program_ctx>':
          exp_attempt.discard(fired_name)
        if fired_name == 'func' and 'helper' in exp_conv:
          exp_conv['helper'] = False
          exp_attempt.discard('helper')
    exp_warn = 1
  elif m['fails']:
    exp_warn = 1
  elif any(v for v in exp_conv.values()) or not m['attempt']:
    exp_warn = 0 if case['kind'] not in ('wrapt', ) and not m['opaque'] else None

  got_attempt = set(main['attempts'])
  if m['opaque']:
    if not m['may_attempt'] and (got_attempt - m['attempt']):
      fails.append(('policy:attempted-although-allowlisted', {'attempts': main['attempts']}))
  elif exp_attempt is not None and got_attempt != exp_attempt:
    extra = sorted(got_attempt - exp_attempt)
    missing = sorted(exp_attempt - got_attempt)
    b = 'policy:converted-but-should-not' if extra else 'policy:not-converted-but-should'
    fails.append((b, {'unexpected': extra, 'missing': missing, 'attempts': main['attempts'], 'module': libname,
                      'effective_options': effective_options(case)}))
  got_conv = {}
  for t, c in main['conv']:
    got_conv.setdefault(t, set()).add(c)
  for t, want in sorted(exp_conv.items()):
    if want is None or t not in got_conv:
      continue
    if got_conv[t] != {want}:
      fails.append(('policy:ran-%s:%s' % ('converted' if True in got_conv[t] else 'unconverted', 'expected-' + ('converted' if want else 'unconverted')),
                    {'tag': t, 'probe': sorted(got_conv[t]), 'module': libname, 'fired_in': fired_in,
                     'effective_options': effective_options(case)}))
      break
  if any(v for v in exp_conv.values() if v) and any(True in s for s in got_conv.values()):
    info['nontrivial'] = True
    info['classes'].append('target_ran_converted')

  # warnings
  nwarn = len(main['warnings'])
  if exp_warn is not None and nwarn != exp_warn:
    fails.append(('fallback:warnings:%d-instead-of-%d' % (nwarn, exp_warn) if (fired or m['fails']) else 'warning:unexpected',
                  {'warnings': [w[:200] for w in main['warnings']], 'fired_in': fired_in}))
  if any(w.startswith('UNFORMATTABLE') for w in main['warnings']):
    fails.append(('fallback:warning-unformattable', {'warnings': [w[:300] for w in main['warnings']]}))

  # the failure is remembered
  if (fired and fired_in_target) or (m['fails'] and not fired):
    info['classes'].append('fallback_observed')
    if kd['extra'].get('uncacheable'):
      info['classes'].append('uncacheable_target')
      return fails, info   # unhashable targets cannot be remembered (cache_allowlisted documents the catch-all)
    if cached_after is not True:
      fails.append(('fallback:not-remembered', {'is_in_allowlist_cache': cached_after, 'fired_in': fired_in}))
    again = [a for a in second['attempts'] if not a.startswith('call_')]
    if again:
      fails.append(('fallback:second-call-converts-again', {'attempts': second['attempts'], 'fired_in': fired_in}))
    if second['warnings']:
      fails.append(('fallback:second-call-warns-again', {'warnings': [w[:200] for w in second['warnings']]}))
    if any(c for _, c in second['conv']):
      fails.append(('fallback:second-call-ran-converted', {'conv': second['conv']}))
  elif not fired and not m['opaque']:
    # second call: same decision as the first, and no new transformation work
    if set(second['attempts']) != got_attempt and exp_attempt is not None and got_attempt == exp_attempt:
      fails.append(('policy:second-call-differs', {'first': main['attempts'], 'second': second['attempts']}))
    if second['transforms']:
      fails.append(('cache:second-call-transforms-again', {'transforms': second['transforms'], 'attempts': second['attempts']}))
  return fails, info


def _in_exc_chain(e, target):
  seen = 0
  while e is not None and seen < 20:
    if e is target:
      return True
    e = e.__cause__ if e.__cause__ is not None else e.__context__
    seen += 1
  return False


def _policy_pre(got, names, fails, kd):
  """A call made under a DISABLED context converts nothing (an already converted artifact stays what it is)."""
  if names[0] == 'pre' and kd['cls'] != 'artifact_converted':
    g = got[0]
    if g['attempts']:
      fails.append(('policy:converted-in-disabled-context', {'attempts': g['attempts']}))
    if any(c for _, c in g['conv']):
      fails.append(('policy:ran-converted-in-disabled-context', {'conv': g['conv']}))


def _unwrap_partial(f):
  import functools
  while isinstance(f, functools.partial):
    f = f.func
  return f


def _clip(v):
  s = json.dumps(v, default=repr)
  return s if len(s) < 700 else s[:700] + '...'


# ------------------------------------------------------------------------------------------------
# generation

_OPTS = st.fixed_dictionaries({
    'recursive': st.booleans(),
    'user_requested': st.booleans(),
    'internal': st.sampled_from([True, True, True, False]),
    'features': st.sampled_from([None, None, None, ['LISTS'], ['ASSERT_STATEMENTS'], ['EQUALITY_OPERATORS', 'BUILTIN_FUNCTIONS']]),
})

_KIND_NAMES = sorted(KINDS)
_ENUM_KINDS = [k for k in _KIND_NAMES if k not in EXCLUDED_KINDS]
_USER_KINDS = sorted(CONVERTIBLE)
# the receivers with overloaded special methods have a slice of the random draws of their own (profile x form); their
# callable-object form takes part in the (kind x stage) fault table, every form in the fault-free decision table
_USER_KINDS_RANDOM = [k for k in _USER_KINDS if k not in OP_KINDS]
_FAULT_TABLE_KINDS = [k for k in _USER_KINDS if k not in OP_KINDS or KINDS[k]['extra'].get('form') in ('object', 'metaclass')]
_OP_METACLASS_KINDS = [k for k in OP_KINDS if KINDS[k]['extra']['form'] == 'metaclass']
_NATIVE_KINDS = sorted(k for k in KINDS if k.startswith('native:'))
_NAMESAKE_KINDS = sorted('native:' + n for n in NAMESAKE)
_SPECIAL_KINDS = sorted(k for k in KINDS if k not in CONVERTIBLE and not k.startswith('native:'))


@st.composite
def cases(draw):
  # half of the draws go to kinds whose conversion is decided by the policy, the rest over everything
  # (the native namesakes of substituted builtins get a slice of their own on top of their share of the native slice)
  g = draw(st.integers(0, 24))
  if g >= 22:
    # receiver with overloaded special methods: profile x form (the two metaclass kinds share one slot of the form draw)
    form = draw(st.sampled_from(['object', 'object', 'object', 'partial', 'partial', 'bound_method', 'metaclass']))
    if form == 'metaclass':
      kind = draw(st.sampled_from(_OP_METACLASS_KINDS))
    else:
      profile = draw(st.sampled_from(OP_PROFILES))
      kind = {'object': 'opobj:', 'partial': 'partial_opobj:', 'bound_method': 'opmethod:'}[form] + profile
  else:
    kind = draw(st.sampled_from(_USER_KINDS_RANDOM if g < 8 else _SPECIAL_KINDS if g < 15 else _NATIVE_KINDS if g < 20 else _NAMESAKE_KINDS))
  excluded = None
  if kind in EXCLUDED_KINDS:
    excluded, kind = EXCLUDED_KINDS[kind]
  kd = KINDS[kind]
  mclass = draw(st.sampled_from(['plain', 'plain', 'plain', 'prefixlike', 'prefixlike', 'submodule', 'submodule', 'exact', 'convert_rule']))
  mod = draw(st.sampled_from(MODNAMES[mclass]))
  args, kwargs = draw(st.sampled_from(ARGS[kd['sig']]))
  via = draw(st.sampled_from(['direct', 'direct', 'scope', 'decorator', 'nested', 'nested']))
  callsite = None
  if via == 'nested':
    ok = [c for c in CALLSITES if callsite_ok(c, args, kwargs)]
    if kd['sig'] != 'std' and kd['sig'][:1] != 'p' or kd['sig'] in ('pt', 'ptreplace'):
      ok = [c for c in ok if c != 'mixed']   # the extra z= keyword is only meaningful for the library signature
    callsite = draw(st.sampled_from(ok))
  opts = draw(_OPTS)
  ctx = draw(st.sampled_from(['none', 'none', 'ENABLED', 'ENABLED', 'UNSPECIFIED', 'DISABLED']))
  strict = draw(st.sampled_from([None, None, None, '0', '1', '1']))
  pre = draw(st.sampled_from(['none', 'none', 'none', 'disabled_first', 'warm']))
  fault = None
  if draw(st.integers(0, 9)) < 5:
    stage = draw(st.sampled_from(sorted(STAGES)))
    nth = draw(st.integers(1, STAGES[stage][2]))
    exc = draw(st.sampled_from(sorted(EXC_TYPES)))
    fault = {'stage': stage, 'nth': nth, 'exc': exc}
    feat = STAGE_FEATURE.get(stage)
    if feat and draw(st.booleans()):
      opts = dict(opts, features=[feat])
    if pre == 'warm':
      pre = 'none'   # a warm conversion cache means the pipeline is never entered
  return redirect_excluded({'kind': kind, 'mod': mod, 'modclass': mclass, 'via': via, 'callsite': callsite, 'args': args,
                            'kwargs': kwargs, 'opts': opts, 'ctx': ctx, 'strict': strict, 'pre': pre, 'fault': fault,
                            'excluded': excluded})


def enumerated(tier, seed):
  """(convertible kind x stage) table, every pair with the default options; strict on alternate rows."""
  out = []
  i = 0
  for kind in _FAULT_TABLE_KINDS:
    if kind in EXCLUDED_KINDS:
      continue
    kd = KINDS[kind]
    a, k = ARGS[kd['sig']][0]
    for stage in sorted(STAGES):
      for strict in (None, '1'):
        i += 1
        # quick: a seed-rotated third of the table (a fifth for the special-method receivers, whose extra dimension is the
        # receiver, not the stage)
        if tier != 'thorough' and (i + seed) % (5 if kind in OP_KINDS else 3) != 0:
          continue
        feats = [STAGE_FEATURE[stage]] if stage in STAGE_FEATURE else None
        out.append({'kind': kind, 'mod': 'vfc13lib', 'modclass': 'plain', 'via': 'direct', 'callsite': None, 'args': a, 'kwargs': k,
                    'opts': {'recursive': True, 'user_requested': (i % 2 == 0), 'internal': True, 'features': feats},
                    'ctx': 'none' if i % 4 else 'ENABLED', 'strict': strict, 'pre': 'none',
                    'fault': {'stage': stage, 'nth': 1, 'exc': _EXC_NAMES[i % len(_EXC_NAMES)] if i % 2 else 'InjectedFault'}})
  return out


def policy_table(tier, seed):
  """Fault-free decision table: every kind x user_requested x defining-module class (x all option/context combinations
  at thorough), first argument shape, direct route."""
  out = []
  mods = [('plain', 'vfc13lib'), ('submodule', 'numpy.vfsub'), ('prefixlike', 'reporting'), ('convert_rule', MODNAMES['convert_rule'][0])]
  if tier == 'thorough':
    mods = [(c, n) for c in sorted(MODNAMES) for n in (MODNAMES[c] if c in ('exact', 'convert_rule') else MODNAMES[c][:3])]
  op_mods = mods[:2]
  if tier == 'thorough':
    op_mods = [(c, MODNAMES[c][0]) for c in sorted(MODNAMES)]
  flags = [(True, u, True) for u in (False, True)]
  ctxs = ['none']
  if tier == 'thorough':
    flags = list(itertools.product([False, True], repeat=3))
    ctxs = ['none', 'ENABLED', 'DISABLED']
  i = 0
  for kind in _ENUM_KINDS:
    kd = KINDS[kind]
    native = kind.startswith('native:')
    # module-name matching is orthogonal to the receiver's special methods: quick crosses those receivers with an ordinary and
    # an allow-listed defining module only, thorough with one module name of every class
    for mclass, mod in (mods[:1] if native else op_mods if kind in OP_KINDS else mods):
      for r, u, n in flags:
        for ctx in ctxs:
          i += 1
          shapes = ARGS[kd['sig']]
          a, k = shapes[(i + seed) % len(shapes)] if tier == 'thorough' else shapes[0]
          out.append({'kind': kind, 'mod': mod, 'modclass': mclass, 'via': 'direct' if i % 3 else 'scope' if r == n and not u else 'direct',
                      'callsite': None, 'args': a, 'kwargs': k,
                      'opts': {'recursive': r, 'user_requested': u, 'internal': n, 'features': None},
                      'ctx': ctx, 'strict': None, 'pre': 'none', 'fault': None})
  return out


def budget(tier):
  if tier == 'thorough':
    return {'cases': 40000, 'wall_cap': 1500}
  return {'cases': 2200, 'wall_cap': 300}


def case_key(case):
  return common.h8([case[k] for k in ('kind', 'modclass', 'via', 'callsite', 'args', 'kwargs', 'opts', 'ctx', 'strict', 'pre', 'fault')])


def _classes(case, info):
  f = case['fault']
  cl = ['kind=' + case['kind'], 'modclass=' + case['modclass'], 'via=' + case['via'], 'ctx=' + case['ctx'],
        'strict=%s' % case['strict'], 'pre=' + case['pre'], 'kwargs=' + ('None' if case['kwargs'] == 'None' else 'empty' if case['kwargs'] == '{}' else 'nonempty'),
        'policy_class=' + KINDS[case['kind']]['cls'],
        'opts=r%d_u%d_i%d' % (case['opts']['recursive'], case['opts']['user_requested'], case['opts']['internal'])]
  if case['callsite']:
    cl.append('callsite=' + case['callsite'])
  if case['kind'] in _NAMESAKE_KINDS:
    ns = case['kind'][len('native:'):]
    cl.append('native_namesake:control' if ns in NAMESAKE_CONTROLS else 'native_namesake')
    if ns not in NAMESAKE_CONTROLS and case['ctx'] != 'DISABLED':
      cl.append('native_namesake:reaches_overload_lookup')
  ex = KINDS[case['kind']]['extra']
  if ex.get('profile'):
    prof = ex['profile']
    cl += ['receiver_special_methods', 'receiver_profile=' + prof, 'receiver_form=' + ex['form'],
           'receiver_profile_x_form=%s/%s' % (prof, ex['form'])]
    if prof in OP_CONTROLS:
      cl.append('receiver_special_methods:control')
    # the call reaches the wrapper's classification of the receiver itself (identity / type tests on the object): not when the
    # context is disabled, and a bound method is classified through its function
    classified = case['ctx'] != 'DISABLED' and ex['form'] != 'bound_method'
    if prof in OP_EQ_NONSTANDARD:
      cl.append('receiver_eq_nonstandard')
      if classified:
        cl.append('receiver_eq_nonstandard:classified_by_wrapper')
        if 'target_ran_converted' in info['classes']:
          cl.append('receiver_eq_nonstandard:ran_converted')
    if prof in OP_TRUTH_NONSTANDARD:
      cl.append('receiver_truth_nonstandard')
      if case['ctx'] != 'DISABLED' and 'target_ran_converted' in info['classes']:
        cl.append('receiver_truth_nonstandard:ran_converted')
    if prof in OP_UNCACHEABLE and ex['form'] != 'bound_method':
      cl.append('receiver_uncacheable')
  if case.get('excluded'):
    cl.append('excluded:' + case['excluded'])
  if f:
    cl.append('fault_stage=' + f['stage'])
    cl.append('fault_exc=' + f['exc'])
  else:
    cl.append('fault=none')
  return cl + info['classes']


def _do(case, acc, origin):
  try:
    fails, info = run_case(case)
  except Exception as e:
    # an exception here is a crash of malt outside the guarded calls or of the check: attribute by frame
    import traceback
    if harness.malt_frame(e.__traceback__) and not _is_harness_error(e):
      acc.fail('crash:' + harness.exc_bucket(e), case, {'exc': repr(e)[:500], 'tb': traceback.format_exc()[-1500:]})
      acc.case(key=case_key(case), nontrivial=False, classes=['crashed'])
      return
    raise
  acc.case(key=case_key(case), nontrivial=info['nontrivial'], classes=_classes(case, info) + ['origin=' + origin],
           sample={k: case[k] for k in case}, size=(3 if case['fault'] else 0) + (2 if case['via'] == 'nested' else 0))
  seen = set()
  for b, d in fails:
    if b not in seen:
      seen.add(b)
      acc.fail(b, case, d)


def _is_harness_error(e):
  return isinstance(e, RuntimeError) and 'probe claims' in str(e)


def shard(ctx, acc):
  # enumerated part
  en = enumerated(ctx.tier, ctx.seed)
  for i, case in enumerate(en):
    if i % ctx.nshards == ctx.shard:
      _do(redirect_excluded(case), acc, 'enumerated')
  pt = policy_table(ctx.tier, ctx.seed)
  for i, case in enumerate(pt):
    if i % ctx.nshards == ctx.shard:
      _do(redirect_excluded(case), acc, 'policy_table')
  n = ctx.share('cases')

  def body(case):
    _do(case, acc, 'random')

  common.hyp_run(ctx, cases(), body, n)


def replay(case):
  case = dict(case)
  case.setdefault('modclass', 'plain')
  fails, info = run_case(case)
  out, seen = [], set()
  for b, d in fails:
    if b not in seen:
      seen.add(b)
      out.append({'bucket': b, 'detail': d})
  return out


_SIMPLE = [('fault', None), ('pre', 'none'), ('strict', None), ('ctx', 'none'), ('via', 'direct'), ('mod', 'vfc13lib'),
           ('kwargs', 'None'), ('kwargs', '{}')]


def shrink(case, bucket, deadline):
  """Field-wise simplification towards the default value of every dimension, keeping the bucket."""
  import time
  cur = dict(case)

  def still(c):
    try:
      if redirect_excluded(c) is not c:
        return False   # do not drift into an excluded shape
      return any(f['bucket'] == bucket for f in replay(c))
    except Exception:
      return False

  changed = True
  while changed and time.time() < deadline:
    changed = False
    for k, v in _SIMPLE:
      if cur.get(k) == v or time.time() > deadline:
        continue
      c = dict(cur)
      c[k] = v
      if k == 'via':
        c['callsite'] = None
      if k == 'mod':
        c['modclass'] = 'plain'
      if still(c):
        cur = c
        changed = True
    o = cur['opts']
    for k, v in (('features', None), ('internal', True), ('recursive', True), ('user_requested', False)):
      if o.get(k) != v and time.time() < deadline:
        c = dict(cur, opts=dict(o, **{k: v}))
        if still(c):
          cur = c
          o = c['opts']
          changed = True
    if cur.get('fault') and cur['fault'].get('exc') != 'InjectedFault' and time.time() < deadline:
      c = dict(cur, fault=dict(cur['fault'], exc='InjectedFault', nth=1))
      if still(c):
        cur = c
        changed = True
  return cur
