"""Dev tool: runs the repo's pinned suite (BASELINE.json cmd) in a repo root and reports pinned tests that no longer pass.
usage: python -m vf.baseline [repo_root]"""
import json, os, subprocess, sys, tempfile
import xml.etree.ElementTree as ET

def main(root='/repo'):
  base = json.load(open('/root/.vp/BASELINE.json'))
  fd, x = tempfile.mkstemp(suffix='.xml'); os.close(fd)
  env = dict(os.environ, PYTHONPATH=root, PYTHONDONTWRITEBYTECODE='1')
  env.pop('DIASTATIC_MALT_VERIF', None)
  subprocess.run(['/venv/bin/python', '-m', 'pytest', '-q', '-p', 'no:cacheprovider', '--timeout=900',
                  '--continue-on-collection-errors', '--junitxml=' + x], cwd=root, env=env,
                 stdout=subprocess.DEVNULL, stderr=subprocess.DEVNULL)
  passed = set()
  for tc in ET.parse(x).getroot().iter('testcase'):
    if not list(tc):
      passed.add('%s::%s' % (tc.get('classname'), tc.get('name')))
  os.unlink(x)
  missing = sorted(set(base['stable_pass']) - passed)
  newly = sorted(passed - set(base['stable_pass']))
  print('passed=%d pinned=%d pinned-now-failing=%d newly-passing=%d' % (len(passed), len(base['stable_pass']), len(missing), len(newly)))
  for m in missing: print('  LOST', m)
  for m in newly: print('  NEW ', m)
  return 1 if missing else 0

if __name__ == '__main__':
  sys.exit(main(*sys.argv[1:]))
