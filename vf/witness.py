"""Dev tool: turns a mutant / seeded change that a check detects into pinned *witness* replays.

  python -m vf.witness <ID> <patch> [--seeds 1,2,3] [--max 2] [--force]
  python -m vf.witness --all [ID ...]              every mutants/<ID>/*.patch and seeded change listed for <ID>

The check is run against a scratch copy of /repo with the patch applied (seeds in turn until it reports a
violation); every shrunk failing case it saves is then replayed against the unchanged /repo and, if it HOLDS there,
copied to replays/<ID>/W_<patch>_<n>.json. Witnesses carry no known-finding entry: the replay tier of every run
executes them as ordinary regression cases (they must hold), which makes the detection of that change - and of
changes that break the same input shape - independent of the random stream.
"""
import json
import os
import re
import shutil
import subprocess
import sys
import tempfile
from concurrent.futures import ThreadPoolExecutor

ROOT = os.path.dirname(os.path.dirname(os.path.abspath(__file__)))


def patch_name(patch):
  p = os.path.relpath(os.path.abspath(patch), ROOT)
  parts = p.split(os.sep)
  if parts[0] == 'seeded':
    return 'seeded_' + parts[1].replace('-', '')
  return os.path.splitext(parts[-1])[0]


def existing(pid, name):
  d = os.path.join(ROOT, 'replays', pid)
  if not os.path.isdir(d):
    return []
  return [f for f in os.listdir(d) if f.startswith('W_%s_' % name)]


def one(pid, patch, seeds=(1, 2, 3, 4), maxw=2, force=False):
  name = patch_name(patch)
  if existing(pid, name) and not force:
    return (pid, name, 'have', len(existing(pid, name)))
  d = tempfile.mkdtemp(prefix='vfwit_')
  try:
    repo = os.path.join(d, 'repo')
    os.makedirs(repo)
    shutil.copytree('/repo/malt', os.path.join(repo, 'malt'))
    r = subprocess.run(['patch', '-p1', '-s', '-i', os.path.abspath(patch)], cwd=repo, capture_output=True, text=True)
    if r.returncode != 0:
      return (pid, name, 'patch-failed', 0)
    kept = 0
    seen = set()
    for seed in seeds:
      out = os.path.join(d, 'out%d' % seed)
      env = dict(os.environ, VF_REPO=repo, VF_OUT=out, VERIF_SEED=str(seed))
      subprocess.run([os.path.join(ROOT, 'check'), pid, 'quick'], env=env, capture_output=True, text=True)
      fd = os.path.join(out, 'replays', 'found')
      if not os.path.isdir(fd):
        continue
      for f in sorted(os.listdir(fd)):
        path = os.path.join(fd, f)
        rec = json.load(open(path))
        key = json.dumps(rec['case'], sort_keys=True, default=repr)
        if key in seen:
          continue
        seen.add(key)
        # must hold on the unchanged tree
        env0 = dict(os.environ, VF_OUT=os.path.join(d, 'o0'))
        env0.pop('VF_REPO', None)
        r0 = subprocess.run([os.path.join(ROOT, 'check'), pid, '--replay', path], env=env0, capture_output=True, text=True)
        if r0.returncode != 0:
          continue
        # ... and fail on the changed one (shrinking may have drifted)
        r1 = subprocess.run([os.path.join(ROOT, 'check'), pid, '--replay', path], env=dict(env, VF_OUT=os.path.join(d, 'o1')), capture_output=True, text=True)
        if r1.returncode != 1:
          continue
        kept += 1
        dst = os.path.join(ROOT, 'replays', pid, 'W_%s_%d.json' % (name, kept))
        os.makedirs(os.path.dirname(dst), exist_ok=True)
        rec['witness_of'] = os.path.relpath(os.path.abspath(patch), ROOT)
        rec.pop('detail', None)
        json.dump(rec, open(dst, 'w'), indent=1, default=repr)
        if kept >= maxw:
          break
      if kept >= maxw or (kept and seed >= seeds[0]):
        break
    return (pid, name, 'witness' if kept else 'none', kept)
  finally:
    shutil.rmtree(d, ignore_errors=True)


def main(argv):
  seeds = (1, 2, 3, 4)
  maxw = 2
  force = '--force' in argv
  argv = [a for a in argv if a != '--force']
  if '--seeds' in argv:
    i = argv.index('--seeds')
    seeds = tuple(int(x) for x in argv[i + 1].split(','))
    del argv[i:i + 2]
  if '--max' in argv:
    i = argv.index('--max')
    maxw = int(argv[i + 1])
    del argv[i:i + 2]
  if argv and argv[0] == '--all':
    from vf import sens
    jobs = sens.collect(set(argv[1:]))
    with ThreadPoolExecutor(2) as ex:
      for r in ex.map(lambda j: one(j[0], j[1], seeds, maxw, force), jobs):
        print(*r, flush=True)
    return 0
  print(*one(argv[0], argv[1], seeds, maxw, force))
  return 0


if __name__ == '__main__':
  sys.exit(main(sys.argv[1:]))
