"""Test-side access to malt: private transpilers with replaced operators, module loading."""
import ast
import contextlib
import importlib.util
import itertools
import linecache
import os
import sys
import tempfile
import types

from malt.core import converter
from malt.impl import api

_counter = itertools.count()


def real_ag():
  """The ag__ module object used by the public entry points."""
  return api._TRANSPILER.get_extra_locals()['ag__']


def ag_copy(overrides=None):
  base = real_ag()
  m = types.ModuleType('malt')
  m.__dict__.update(base.__dict__)
  for k, v in (overrides or {}).items():
    setattr(m, k, v)
  return m


class PrivateTranspiler(api.PyToPy):
  """api.PyToPy with its own cache, optional operator overrides and tree capture."""

  def __init__(self, overrides=None, capture=False):
    super(PrivateTranspiler, self).__init__()
    self._overrides = overrides
    self._ag = None
    self.capture = capture
    self.trees = []          # transformed trees (when capture)
    self.transform_count = 0
    self.transform_log = []  # (code object name, options)

  def get_extra_locals(self):
    if self._ag is None:
      self._ag = ag_copy(self._overrides)
    return {'ag__': self._ag}

  def transform_ast(self, node, ctx):
    self.transform_count += 1
    node = super(PrivateTranspiler, self).transform_ast(node, ctx)
    if self.capture:
      self.trees.append(node)
    return node


def options(recursive=True, user_requested=True, features=None, internal=True):
  return converter.ConversionOptions(recursive=recursive, user_requested=user_requested,
                                     internal_convert_user_code=internal,
                                     optional_features=features)


def convert_private(tr, fn, opts):
  """Returns the converted function (like to_graph, but through transpiler `tr`)."""
  pctx = converter.ProgramContext(options=opts)
  new_fn, module, source_map = tr.transform(fn, pctx)
  new_fn.ag_module = module
  new_fn.ag_source_map = source_map
  return new_fn


@contextlib.contextmanager
def swapped_ag(**overrides):
  """Temporarily replaces attributes on the real ag__ module (public entry points see them)."""
  m = real_ag()
  saved = {}
  missing = object()
  for k, v in overrides.items():
    saved[k] = m.__dict__.get(k, missing)
    setattr(m, k, v)
  try:
    yield m
  finally:
    for k, v in saved.items():
      if v is missing:
        delattr(m, k)
      else:
        setattr(m, k, v)


def load_module(src, name=None, tmpdir=None):
  """Writes src to a real file and imports it, so inspect/linecache behave as in production."""
  n = next(_counter)
  name = name or ('vfgen_%d_%d' % (os.getpid(), n))
  d = tmpdir or tempfile.gettempdir()
  path = os.path.join(d, name + '.py')
  with open(path, 'w') as f:
    f.write(src)
  linecache.checkcache(path)
  spec = importlib.util.spec_from_file_location(name, path)
  mod = importlib.util.module_from_spec(spec)
  sys.modules[name] = mod
  try:
    spec.loader.exec_module(mod)
  except BaseException:
    sys.modules.pop(name, None)
    raise
  return mod


def unload_module(mod):
  sys.modules.pop(mod.__name__, None)
  p = getattr(mod, '__file__', None)
  if p:
    linecache.cache.pop(p, None)
    try:
      os.unlink(p)
    except OSError:
      pass


def malt_frame(tb):
  """Innermost frame inside /repo/malt of a traceback, as 'file.py:func' (bucketing key)."""
  import traceback as _tb
  key = None
  for fs in _tb.extract_tb(tb):
    if '/malt/' in fs.filename:
      key = '%s:%s' % (os.path.basename(fs.filename), fs.name)
  return key


def exc_bucket(e):
  return '%s@%s' % (type(e).__name__, malt_frame(e.__traceback__))


def forget_generated(mod):
  """Drops the public transpiler's cache entries for code objects compiled from `mod`'s file.

  malt's cache is keyed by code-object *equality* (file name excluded) through weak references:
  look-alike functions of an earlier generated module would otherwise hand their conversion to a
  later case (even with different source when the difference is dead code CPython eliminates),
  and letting an equal older code object die mid-conversion races the lookup. Both are C10
  matters; other checks isolate their cases with this helper.
  """
  path = getattr(mod, '__file__', None)
  try:
    c = api._TRANSPILER._cache._cache
    for k in list(c.keys()):
      if getattr(k, 'co_filename', None) == path:
        del c[k]
  except Exception:
    pass
  try:
    from malt.impl import conversion
    c2 = conversion._ALLOWLIST_CACHE._cache
    for k in list(c2.keys()):
      code = getattr(k, '__code__', None)
      if getattr(code, 'co_filename', None) == path:
        del c2[k]
  except Exception:
    pass
