"""C14 - builtin overloads behave like the builtins on ordinary Python values.

Two families of cases, both decided by a differential oracle against CPython itself:

* call cases: one call of a substituted builtin (abs, all, any, enumerate, filter, float, int, len,
  map, print, range, sorted, zip). Arguments are described by JSON value specs and built twice,
  independently, so reference and substitute never share an iterator. The substitute is reached by
  one of five routes (the overload function itself, api.converted_call, converted_call through a
  functools.partial, a converted user function containing the literal call, a converted user
  function doing f(*a, **k)). Observed: result value and type, for lazy results the item sequence
  AND how far each source iterator had been advanced after the call and after every next(), text
  written to stdout / file= sinks (write by write, flushes counted), the ordered log of user
  callbacks (__abs__, __len__, key functions, ...), the arguments afterwards, exception type.

* context cases: generated methods / classmethods / functions whose bodies nest if / for / while
  (plus continue / break / early return, which add more functionalised bodies) to depth <= 3 and
  call eval, locals, globals, zero-argument super at drawn places; original vs converted. Each
  call sits in a drawn syntactic position: directly in out.append(...), nested in the argument list
  of print(...) (positional, first, keyword value, starred, inside a further call; print is left
  un-overloaded unless BUILTIN_FUNCTIONS is requested - both settings are drawn), of a user / builtin
  call, in a display or f-string, in a lazily evaluated operand (conditional expression, and/or,
  while test), an if test, a for iterable, a with item or body, a try body. eval additionally gets
  drawn namespace arguments: globals omitted / None / empty dict (literal, dict(), dict subclass,
  a variable inspected afterwards) / non-empty / globals() / falsy and truthy non-dicts, locals
  omitted / None / empty dict / empty non-dict mapping / binding / shadowing / locals() / user
  mapping / falsy non-mapping, over expressions reading locals, module globals, builtins or names
  only the explicit namespace binds; NameError / TypeError outcomes are part of the observation,
  and so is the text the print(...) calls wrote.
"""
import functools
import io
import json
import operator
import re
import sys

import hypothesis.strategies as st

import malt
from malt.core import converter
from malt.impl import api
from malt.operators import py_builtins
from vf import common
from vf import diffobs
from vf import harness

ID = 'C14'
LEVEL = 'exploration'
TECHNIQUE = ('differential property-based testing against CPython: Hypothesis-drawn call shapes (each optional parameter '
             'absent / positional / keyword) x value families x 5 routes to the substitute, with a laziness trace oracle '
             '(counting source iterators) and captured output; plus a deterministic covering table of canonical calls; plus '
             'generated control-flow programs probing eval/locals/globals/super(), original vs converted')
RULE = ('call case = (builtin, positional value specs, keyword value specs, route, number of next() steps); one evaluation = one '
        'reference run + one substitute run on independently built equal arguments. Non-trivial = at least one optional '
        'parameter of the builtin is passed by keyword or omitted, or the reference result is lazy (enumerate/filter/map/zip), or '
        'the reference raises. Context case = (generated program, input); non-trivial = the original run executed at least one '
        'eval/locals/globals/super probe located inside an if/for/while body. Distinct by SHA1 of the JSON case.')
ASSUMPTIONS = [
    'CPython 3.12 running the same call is the reference; call shapes CPython rejects whatever the values (unknown keyword, positional-only passed by name, wrong arity, int(base=b) without x) are not generated',
    'when the reference raises, only the exception type and the output are compared (not which user callbacks ran before the rejection)',
    'no overrides registered in the py_builtins type registries (the property is about ordinary Python values)',
    'exception messages are not compared, only the exception type; conversion status is the default (UNSPECIFIED) context',
    'context programs read only definitely-bound names and keep every dynamically probed name also syntactically read in the same block - for operands the converter turns into functions of their own (conditional expression, and/or, while test) in that same operand (known finding F07 otherwise)',
    'eval is called positionally with 1-3 arguments (CPython 3.12 rejects eval keywords whatever the values); a namespace argument CPython rejects (non-dict globals, non-mapping locals) must be rejected with the same exception type',
    'zero-argument super() is not placed in the arguments of a with-item context-manager call inside a functionalised body (finding FC14c: those arguments are left unconverted); it is placed in the with body instead',
    'extra converter-generated names in locals() are tolerated; only the user names probed are compared',
]
LEVEL_TEXT = ('Randomised differential exploration of call shape x value family x route for the 13 substituted builtins and of '
              'program shape x input for the 4 context builtins; every explored case is executed both ways, so a divergence is a '
              'concrete counterexample. A deterministic covering table runs every parameter-presence combination through every '
              'route on each run. No claim beyond the cases counted.')
LEVEL_NOTE = ('Trusted: CPython as reference, the value-spec builder (both sides built from the same spec), PYTHONHASHSEED=0 for set '
              'order. Out of reach: values outside the listed families (numpy, tensors), registered type overrides, DISABLED '
              'conversion context, eval/locals inside comprehensions, user lambdas or nested defs, decorators and default values.')

_KEEP = []  # generated modules stay loaded (malt caches by code object through weak references)
BFEAT = converter.Feature.BUILTIN_FUNCTIONS

# exclusions by construction (known findings); each redirected draw is counted as excluded:<flag>
X_ENUM_KW = 'no_enumerate_iterable_keyword'          # F08
X_DYN_ONLY = 'no_dynamic_only_names'                 # F07
X_EVAL_G_ONLY = 'no_eval_globals_without_locals'     # F28
X_EVAL_NONE = 'no_eval_none_namespace'               # F29
X_DYN_ONLY_OPERAND = 'no_dynamic_only_names_in_lazy_operand'   # F07 again: operands turned into functions of their own
X_SUPER_WITH_ITEM = 'no_super_in_with_item'          # FC14c: arguments of a context-manager call stay unconverted
# F08, FC14a and FC14b were repaired in /repo (fix: commits); F07 (both spellings) and FC14c are excluded
ACTIVE_EXCL = {X_DYN_ONLY, X_DYN_ONLY_OPERAND}   # FC14c (X_SUPER_WITH_ITEM) is repaired in /repo and generated again

# eval namespace arguments (context cases): how the globals / locals argument is spelled
G_FORMS = ['omitted', 'none', 'none', 'empty_dict', 'empty_dict', 'empty_dict', 'empty_dict_call', 'empty_dict_subclass', 'empty_dict_var',
           'empty_dict_var', 'nonempty_other', 'nonempty_shadow', 'globals_call', 'globals_call', 'module_dict', 'falsy_nondict',
           'truthy_nondict']
L_FORMS = ['omitted', 'omitted', 'omitted', 'none', 'empty_dict', 'empty_dict', 'empty_mapping', 'bind_zz', 'bind_zz', 'shadow',
           'locals_call', 'locals_call', 'user_mapping', 'falsy_nonmapping']
L_FORMS_AFTER_NONE = ['none', 'empty_dict', 'empty_dict', 'empty_mapping', 'bind_zz', 'shadow', 'locals_call', 'user_mapping',
                      'falsy_nonmapping']
NS_BOUNDARY = [('empty_dict', 'omitted'), ('empty_dict_var', 'omitted'), ('empty_dict', 'none'), ('none', 'empty_dict'),
               ('none', 'empty_mapping'), ('none', 'none'), ('empty_dict', 'empty_dict'), ('empty_dict_subclass', 'locals_call'),
               ('globals_call', 'empty_dict'), ('nonempty_shadow', 'empty_mapping'), ('nonempty_shadow', 'falsy_nonmapping'),
               ('falsy_nondict', 'omitted'), ('falsy_nondict', 'bind_zz')]
# syntactic positions of a context-builtin call
WRAPS = (['plain'] * 8 + ['print_arg'] * 3 + ['print_first', 'print_kwvalue', 'print_star', 'print_nested', 'print_nested'] +
         ['call_user', 'call_builtin', 'display', 'ifexp', 'boolop', 'if_test', 'while_test', 'for_iter', 'with_item', 'with_body',
          'try_finally'])
# positions the converter moves into a function of their own (lambda / loop_test)
LAZY_WRAPS = ('ifexp', 'boolop', 'while_test')

BUILTINS = {'abs': abs, 'all': all, 'any': any, 'enumerate': enumerate, 'filter': filter, 'float': float, 'int': int,
            'len': len, 'map': map, 'print': print, 'range': range, 'sorted': sorted, 'zip': zip}
LAZY_TYPES = (enumerate, filter, map, zip)
OPTIONAL = {'enumerate': ['start'], 'float': ['x'], 'int': ['x', 'base'], 'print': ['sep', 'end', 'file', 'flush'],
            'range': ['stop', 'step'], 'sorted': ['key', 'reverse'], 'zip': ['strict'],
            'abs': [], 'all': [], 'any': [], 'filter': [], 'len': [], 'map': []}
EXCS = {'ValueError': ValueError, 'KeyError': KeyError, 'TypeError': TypeError, 'RuntimeError': RuntimeError,
        'StopIteration': StopIteration, 'ZeroDivisionError': ZeroDivisionError, 'IndexError': IndexError}


# ----------------------------------------------------------------------------------------------
# value specs -> values


class BuildError(Exception):
  pass


class Env(object):
  def __init__(self):
    self.counters = []
    self.log = []
    self.sinks = []


class CIter(object):
  """One-shot iterator counting how often it was advanced."""

  def __init__(self, env, items, raise_at, exc):
    self.c = [0]
    env.counters.append(self.c)
    self.items, self.raise_at, self.exc, self.i = items, raise_at, exc, 0

  def __iter__(self):
    return self

  def __next__(self):
    self.c[0] += 1
    if self.raise_at is not None and self.i == self.raise_at:
      self.i += 1
      raise EXCS[self.exc]('citer')
    if self.i >= len(self.items):
      raise StopIteration
    self.i += 1
    return self.items[self.i - 1]


def _gen(c, items):
  for x in items:
    c[0] += 1
    yield x


class Tagged(object):
  tag = None

  def __hash__(self):
    return hash(('tagged', self.tag))

  def __repr__(self):
    return '<obj %s>' % (self.tag,)


class Rec(Tagged):
  """Orders and compares by key only; the tag tells equal-keyed records apart (sort stability)."""

  def __init__(self, tag, key):
    self.tag, self.key = tag, key

  def __lt__(self, o):
    return self.key < o.key

  def __eq__(self, o):
    return isinstance(o, Rec) and self.key == o.key

  def __hash__(self):
    return hash(self.key)

  def __bool__(self):
    return bool(self.key)

  def __repr__(self):
    return '<rec %s %s>' % (self.tag, self.key)


_ADDR = re.compile(r'0x[0-9a-fA-F]+')


class Sink(object):
  def __init__(self, env):
    self.ev = []
    env.sinks.append(self)

  def write(self, s):
    self.ev.append(['w', _ADDR.sub('0x?', s) if isinstance(s, str) else describe(s)])
    return len(s) if isinstance(s, str) else 0

  def flush(self):
    self.ev.append(['flush'])


class SIO(io.StringIO):
  pass


def _mk_method(env, tag, name, ret):
  def run(*a):
    env.log.append([name, tag] + [describe(x) for x in a[1:]])
    if ret[0] == 'raise':
      raise EXCS[ret[1]](name)
    return build(ret, env)
  return run


def _mk_obj(env, tag, methods):
  ns = {}
  for name, ret in methods.items():
    if name == 'getitem':
      def gi(self, i, _ret=ret):
        env.log.append(['getitem', tag, describe(i)])
        if not isinstance(i, int) or i < 0 or i >= len(_ret):
          raise IndexError('getitem')
        return build(_ret[i], env)
      ns['__getitem__'] = gi
    elif name == 'lt':
      ns['__lt__'] = lambda self, o, _k=ret: _k < getattr(o, '_k', 0)
      ns['_k'] = ret
    else:
      ns['__%s__' % name] = _mk_method(env, tag, name, ret)
  ns['tag'] = tag
  return type('U%s' % tag, (Tagged,), ns)()


def _fn(env, name):
  def log(*a):
    env.log.append(['fn', name] + [describe(x) for x in a])
  if name == 'ident':
    def f(x): log(x); return x
  elif name == 'neg':
    def f(x): log(x); return -x
  elif name == 'str':
    def f(x): log(x); return str(x)
  elif name == 'first':
    def f(x): log(x); return x[0]
  elif name == 'mod2':
    def f(x): log(x); return x % 2
  elif name == 'is_pos':
    def f(x): log(x); return x > 0
  elif name == 'const0':
    def f(x): log(x); return 0
  elif name == 'none':
    def f(x): log(x); return None
  elif name == 'key':
    def f(x): log(x); return x.key
  elif name == 'raise_v':
    def f(x): log(x); raise ValueError('fn')
  elif name == 'raise_on_2':
    def f(x):
      log(x)
      if x == 2:
        raise KeyError('fn')
      return x
  elif name == 'stop_on_2':
    def f(x):
      log(x)
      if x == 2:
        raise StopIteration
      return x
  elif name == 'tuple_n':
    def f(*a): log(*a); return a
  elif name == 'add_n':
    def f(*a):
      log(*a)
      r = 0
      for x in a:
        r = r + x
      return r
  elif name == 'lambda_neg':
    f = lambda x: -x
  else:
    raise BuildError('fn ' + name)
  return f


_BI = {'len': len, 'str': str, 'abs': abs, 'int': int, 'float': float, 'bool': bool, 'repr': repr, 'neg': operator.neg}


def build(s, env):
  k = s[0]
  if k == 'int':
    return int(s[1])
  if k == 'float':
    return float(s[1])
  if k == 'bool':
    return bool(s[1])
  if k == 'str':
    return s[1]
  if k == 'bytes':
    return s[1].encode('latin-1')
  if k == 'none':
    return None
  if k == 'list':
    return [build(x, env) for x in s[1]]
  if k == 'tuple':
    return tuple(build(x, env) for x in s[1])
  if k == 'set':
    return set(build(x, env) for x in s[1])
  if k == 'frozenset':
    return frozenset(build(x, env) for x in s[1])
  if k == 'dict':
    return dict((build(a, env), build(b, env)) for a, b in s[1])
  if k == 'iter':
    return iter([build(x, env) for x in s[1]])
  if k == 'titer':
    return iter(tuple(build(x, env) for x in s[1]))
  if k == 'gen':
    c = [0]
    env.counters.append(c)
    return _gen(c, [build(x, env) for x in s[1]])
  if k == 'citer':
    return CIter(env, [build(x, env) for x in s[1]], s[2], s[3])
  if k == 'range':
    return range(*s[1:])
  if k == 'rec':
    return Rec(s[1], s[2])
  if k == 'obj':
    return _mk_obj(env, s[1], s[2])
  if k == 'fn':
    return _fn(env, s[1])
  if k == 'builtin':
    return _BI[s[1]]
  if k == 'sink':
    return Sink(env)
  if k == 'stringio':
    o = SIO()
    env.sinks.append(o)
    return o
  raise BuildError('spec ' + repr(s)[:80])


def describe(v, depth=0):
  """JSON-able, address-free description; distinguishes 1 / 1.0 / True and nan-aware via repr."""
  if v is None or type(v) in (bool, int, float, str, bytes, complex):
    return [type(v).__name__, repr(v)]
  t = type(v)
  if depth > 6:
    return [t.__name__, '...']
  if t in (list, tuple):
    return [t.__name__, [describe(x, depth + 1) for x in v]]
  if t in (set, frozenset):
    return [t.__name__, sorted(json.dumps(describe(x, depth + 1)) for x in v)]
  if t is dict:
    return ['dict', [[describe(a, depth + 1), describe(b, depth + 1)] for a, b in v.items()]]
  if t is range:
    # canonical for range equality (ranges are equal when they denote the same sequence)
    st_ = v.step
    n = max(0, (v.stop - v.start + (st_ - (1 if st_ > 0 else -1))) // st_)
    return ['range', repr(n), repr(v.start) if n else None, repr(st_) if n > 1 else None]
  if isinstance(v, Rec):
    return ['rec', v.tag, v.key]
  if isinstance(v, Tagged):
    return ['obj', getattr(v, 'tag', None)]
  if isinstance(v, Sink):
    return ['sink']
  if isinstance(v, BaseException):
    return ['exc', exc_name(v)]
  if isinstance(v, type):
    return ['type', v.__name__]
  return ['<%s.%s>' % (t.__module__, t.__qualname__)]


def exc_name(e):
  t = type(e)
  return t.__name__ if t.__module__ == 'builtins' else '%s.%s' % (t.__module__, t.__qualname__)


# ----------------------------------------------------------------------------------------------
# routes to the substitute


_E2E = {}
_E2E_STAR = []


def _argnames(npos, kwnames):
  return ['p%d' % i for i in range(npos)] + ['k_' + k for k in kwnames]


def e2e_pair(b, npos, kwnames):
  """(original, converted) user function containing the literal call b(p0, .., kw=k_kw, ..)."""
  key = (b, npos, tuple(kwnames))
  if key not in _E2E:
    names = _argnames(npos, kwnames)
    call = ', '.join(['p%d' % i for i in range(npos)] + ['%s=k_%s' % (k, k) for k in kwnames])
    src = 'def t(%s):\n  return %s(%s)\n' % (', '.join(names), b, call)
    mod = harness.load_module(src)
    _KEEP.append(mod)
    conv = malt.to_graph(mod.t, experimental_optional_features=BFEAT)
    _E2E[key] = (mod.t, conv, src)
  return _E2E[key]


def e2e_star_pair():
  if not _E2E_STAR:
    src = 'def ts(f, a, k):\n  return f(*a, **k)\n'
    mod = harness.load_module(src)
    _KEEP.append(mod)
    _E2E_STAR.append((mod.ts, malt.to_graph(mod.ts, experimental_optional_features=BFEAT)))
  return _E2E_STAR[0]


def _options(feat):
  return converter.ConversionOptions(recursive=True, user_requested=False, internal_convert_user_code=True,
                                     optional_features=(BFEAT,) if feat else ())


ROUTES = ('overload', 'converted_call', 'partial', 'e2e', 'e2e_star')


def invoke(case, side, args, kwargs, pargs, pkw):
  b = BUILTINS[case['b']]
  route = case['route']
  kw = dict(kwargs)
  if route == 'partial':
    part = functools.partial(b, *pargs, **dict(pkw))
    if side == 'ref':
      return part(*args, **kw)
    return api.converted_call(part, tuple(args), kw if kw else None, options=_options(case.get('feat', 0)))
  if side == 'ref' and route in ('overload', 'converted_call', 'e2e_star'):
    return b(*args, **kw)
  if route == 'overload':
    return py_builtins.overload_of(b)(*args, **kw)
  if route == 'converted_call':
    return api.converted_call(b, tuple(args), kw if kw else None, options=_options(case.get('feat', 0)))
  if route == 'e2e_star':
    return e2e_star_pair()[1](b, list(args), kw)
  if route == 'e2e':
    orig, conv, _ = e2e_pair(case['b'], len(args), [k for k, _ in kwargs])
    f = orig if side == 'ref' else conv
    return f(*(list(args) + [v for _, v in kwargs]))
  raise BuildError('route ' + route)


_NATIVE_ITERS = tuple(type(x) for x in (iter([]), iter(()), iter(range(0)), iter(set()), iter({}), iter(''), iter(b''),
                                        iter({}.items()), iter({}.values()), reversed([])))


def _snap(env, vals):
  s = [c[0] for c in env.counters]
  s.append(len(env.log))
  for v in vals:
    if type(v) in _NATIVE_ITERS:
      s.append(operator.length_hint(v, -1))
  return s


def exec_side(case, side):
  env = Env()
  try:
    args = [build(s, env) for s in case['args']]
    kwargs = [(k, build(s, env)) for k, s in case['kwargs']]
    pargs = [build(s, env) for s in case.get('pargs', [])]
    pkw = [(k, build(s, env)) for k, s in case.get('pkw', [])]
  except BuildError:
    raise
  except Exception as e:
    raise BuildError(repr(e))
  vals = pargs + args + [v for _, v in pkw] + [v for _, v in kwargs]
  cap = Sink(env)
  old = sys.stdout
  sys.stdout = cap
  obs = {}
  err = None
  try:
    try:
      r = invoke(case, side, args, kwargs, pargs, pkw)
    except BuildError:
      raise
    except Exception as e:
      obs['outcome'] = ['exc', exc_name(e)]
      err = e
    else:
      obs['rtype'] = '%s.%s' % (type(r).__module__, type(r).__qualname__)
      if hasattr(r, '__next__'):
        obs['outcome'] = ['lazy']
        tr = [['call', _snap(env, vals)]]
        steps = int(case.get('steps', 0))
        n = 0
        done = False
        while n < 64 and not done:
          try:
            x = next(r)
            ev = ['item', describe(x)]
          except StopIteration:
            ev = ['stop']
            done = True
          except Exception as e:
            ev = ['exc', exc_name(e)]
            done = True
            err = err or e
          # the first `steps` events are observed one by one with the consumption state; the
          # remainder is drained and only its items recorded
          if n < steps or done:
            ev.append(_snap(env, vals))
          tr.append(ev)
          n += 1
        if done:
          # an exhausted / failed lazy object stays that way identically
          try:
            next(r)
            tr.append(['after', 'item'])
          except StopIteration:
            tr.append(['after', 'stop'])
          except Exception as e:
            tr.append(['after', exc_name(e)])
        obs['trace'] = tr
      else:
        obs['outcome'] = ['ok']
        obs['value'] = describe(r)
  finally:
    sys.stdout = old
  obs['stdout'] = cap.ev
  obs['sinks'] = [(s.ev if isinstance(s, Sink) else ['sio', _ADDR.sub('0x?', s.getvalue())]) for s in env.sinks if s is not cap]
  obs['consumed'] = _snap(env, vals)
  obs['log'] = env.log
  obs['args_after'] = [describe(v) for v in vals]
  return obs, err


_CLAUSES = ('outcome', 'rtype', 'value', 'trace', 'stdout', 'sinks', 'consumed', 'log', 'args_after')


def compare_call(case, ref, sub, sub_err):
  """-> None or (bucket, detail)."""
  b = case['b']
  clauses = _CLAUSES
  if ref['outcome'][0] == 'exc':
    # calibration: when the builtin rejects the values the property demands the same exception type
    # (and the same output); which user callbacks ran before the rejection is not part of it
    clauses = ('outcome', 'stdout', 'sinks')
  for c in clauses:
    if ref.get(c) == sub.get(c):
      continue
    if c == 'outcome':
      r, s = ref['outcome'], sub['outcome']
      if s[0] == 'exc':
        where = harness.exc_bucket(sub_err) if sub_err is not None else s[1]
        bucket = 'call:%s:exc:%s->%s' % (b, r[1] if r[0] == 'exc' else r[0], where)
      else:
        bucket = 'call:%s:exc:%s->%s' % (b, r[1] if r[0] == 'exc' else r[0], s[0])
    elif c == 'trace':
      rt, stt = ref['trace'], sub['trace']
      i = 0
      while i < min(len(rt), len(stt)) and rt[i] == stt[i]:
        i += 1
      ra = rt[i] if i < len(rt) else ['end']
      sa = stt[i] if i < len(stt) else ['end']
      def payload(ev):
        return [x for x in ev if not (isinstance(x, list) and x and isinstance(x[0], int))] if ev[0] != 'call' else ['call']
      if payload(ra) == payload(sa):
        what = 'laziness-at-' + ra[0]
      else:
        what = 'items'
      bucket = 'call:%s:lazy:%s' % (b, what)
      return bucket, {'event': i, 'reference': ra, 'substitute': sa, 'route': case['route']}
    else:
      bucket = 'call:%s:%s' % (b, c)
    return bucket, {'clause': c, 'reference': ref.get(c), 'substitute': sub.get(c), 'route': case['route']}
  return None


def run_call(case):
  """-> (fails, info)."""
  info = {}
  try:
    # conversions needed by the route happen outside the observed call
    if case['route'] == 'e2e':
      e2e_pair(case['b'], len(case['args']), [k for k, _ in case['kwargs']])
    elif case['route'] == 'e2e_star':
      e2e_star_pair()
  except Exception as e:
    return [('call:%s:route-failed:%s' % (case['b'], harness.exc_bucket(e)), {'exc': repr(e)[:400], 'route': case['route']})], info
  try:
    ref, _ = exec_side(case, 'ref')
  except BuildError as e:
    return [], {'slip': repr(e)}
  try:
    sub, sub_err = exec_side(case, 'sub')
  except BuildError as e:
    return [], {'slip': repr(e)}
  info['lazy'] = ref['outcome'][0] == 'lazy'
  info['error'] = ref['outcome'][1] if ref['outcome'][0] == 'exc' else None
  if info['lazy']:
    for ev in ref['trace']:
      if ev[0] == 'exc':
        info['error'] = ev[1]
  info['rtype'] = ref.get('rtype')
  r = compare_call(case, ref, sub, sub_err)
  return ([r] if r else []), info


# ----------------------------------------------------------------------------------------------
# call-case generator


def I(n):
  return ['int', n]


def F(t):
  return ['float', t]


def B(b):
  return ['bool', b]


def S(s):
  return ['str', s]


NONE = ['none']

SMALLNUM = st.one_of(st.integers(-2, 3).map(I), st.integers(0, 2).map(I),
                     st.sampled_from(['0.0', '1.0', '2.0', '-1.0', '1.5', '3.0']).map(F), st.booleans().map(B))
INTS = st.one_of(st.integers(-3, 5), st.sampled_from([0, 1, 2, 10, 16, 255, -17, 10 ** 20, 2 ** 63, -2 ** 63 - 1, 10 ** 400])).map(I)
FLOATS = st.sampled_from(['nan', 'inf', '-inf', '0.0', '-0.0', '1.5', '-2.5', '1.0', '2.0', '1e300', '2.5e-3', '7.0']).map(F)
NUMTEXT = st.sampled_from(['12', ' 7 ', '-3', '+5', '0x1f', '1f', '101', '1e3', 'nan', 'inf', '-inf', '1_000', '0b11', '0o7',
                           '1.5', ' 2.5\n', 'z', '', '  ', '٣', '12abc', 'Infinity', '1__0', '0', '00', '-0'])
TEXT = st.one_of(NUMTEXT, st.sampled_from(['a', 'abc', 'b', 'ab\ncd', 'é', 'B', ' '])).map(S)
SCALAR = st.one_of(INTS, FLOATS, st.booleans().map(B), TEXT, st.just(NONE), SMALLNUM)
EXCN = st.sampled_from(['ValueError', 'KeyError', 'TypeError', 'RuntimeError', 'ZeroDivisionError'])
RET = st.one_of(SCALAR, EXCN.map(lambda e: ['raise', e]))


def objs(method, ret=RET):
  return st.tuples(st.integers(0, 9), ret).map(lambda t: ['obj', t[0], {method: t[1]}])


def _recs(ks):
  return [['rec', i, k] for i, k in enumerate(ks)]


def _pairs(ks):
  return [['tuple', [I(k), S('t%d' % i)]] for i, k in enumerate(ks)]


ITEMS = st.one_of(
    st.lists(SMALLNUM, max_size=6),
    st.lists(SMALLNUM, max_size=6),
    st.lists(st.sampled_from(['a', 'b', 'ab', '', 'B', '10', '9']).map(S), max_size=5),
    st.lists(st.integers(0, 2), max_size=6).map(_recs),
    st.lists(st.integers(0, 2), max_size=6).map(_pairs),
    st.lists(SCALAR, max_size=5),
    st.lists(st.one_of(SMALLNUM, objs('bool', st.one_of(st.booleans().map(B), st.just(I(1)), st.just(['raise', 'ValueError'])))), max_size=4),
)
NESTED = st.lists(st.lists(st.integers(0, 3).map(I), max_size=3).map(lambda l: ['list', l]), max_size=4)


@st.composite
def iterables(draw, items=ITEMS, junk=True):
  """An iterable argument: items in a drawn wrapper (containers, one-shot iterators, generators,
  counting iterators that may raise midway, user objects with __iter__ / __getitem__)."""
  if junk and draw(st.integers(0, 19)) == 0:
    return draw(st.one_of(INTS, FLOATS, st.just(NONE), objs('len', INTS)))
  if draw(st.integers(0, 11)) == 0:
    return ['list', draw(NESTED)]
  it = draw(items)
  w = draw(st.sampled_from(['list', 'list', 'tuple', 'set', 'frozenset', 'dict', 'iter', 'titer', 'gen', 'gen', 'citer', 'citer',
                            'citer_raise', 'obj_iter', 'obj_getitem', 'range', 'str']))
  if w in ('set', 'frozenset', 'dict') and 'nan' in json.dumps(it):
    w = 'list'  # nan hashes by identity: set order would differ between the two independent builds
  if w == 'dict':
    return ['dict', [[x, I(i)] for i, x in enumerate(it)]]
  if w == 'citer':
    return ['citer', it, None, 'ValueError']
  if w == 'citer_raise':
    return ['citer', it, draw(st.integers(0, max(0, len(it)))), draw(EXCN)]
  if w == 'obj_iter':
    return ['obj', draw(st.integers(0, 9)), {'iter': ['citer', it, None, 'ValueError']}]
  if w == 'obj_getitem':
    return ['obj', draw(st.integers(0, 9)), {'getitem': it}]
  if w == 'range':
    return ['range', draw(st.integers(-2, 2)), draw(st.integers(-2, 5)), draw(st.sampled_from([1, 1, 2, -1]))]
  if w == 'str':
    return S(draw(st.sampled_from(['', 'a', 'abc', 'ba', '0120'])))
  return [w, it]


UNARY_FN = st.one_of(st.sampled_from(['ident', 'neg', 'str', 'first', 'mod2', 'is_pos', 'const0', 'none', 'key', 'raise_v',
                                      'raise_on_2', 'stop_on_2', 'lambda_neg']).map(lambda n: ['fn', n]),
                     st.sampled_from(['len', 'str', 'abs', 'int', 'float', 'bool', 'repr', 'neg']).map(lambda n: ['builtin', n]))
NARY_FN = st.sampled_from(['tuple_n', 'add_n']).map(lambda n: ['fn', n])
INDEXLIKE = st.one_of(INTS, INTS, st.booleans().map(B), objs('index', st.one_of(INTS, FLOATS, st.just(['raise', 'ValueError']))))
JUNK = st.one_of(FLOATS, TEXT, st.just(NONE), st.just(['list', []]))


@st.composite
def call_cases(draw, excl=True):
  b = draw(st.sampled_from(sorted(BUILTINS)))
  args, kwargs, meta = [], [], []

  def opt(name, strat, allow_pos=True, allow_kw=True):
    ch = ['absent']
    if allow_kw:
      ch += ['kw', 'kw']
    if allow_pos:
      ch += ['pos']
    how = draw(st.sampled_from(ch))
    meta.append('p:%s.%s=%s' % (b, name, how))
    if how == 'pos':
      args.append(draw(strat))
    elif how == 'kw':
      kwargs.append([name, draw(strat)])
    return how

  if b == 'abs':
    args.append(draw(st.one_of(INTS, FLOATS, SMALLNUM, st.booleans().map(B), objs('abs'), objs('abs'), TEXT, st.just(NONE),
                               st.just(['list', [I(1)]]))))
  elif b == 'len':
    args.append(draw(st.one_of(iterables(), iterables(), objs('len', st.one_of(INTS, st.sampled_from([-1, 0, 3, 2 ** 70]).map(I), RET)),
                               st.just(['bytes', 'abc']), SCALAR)))
  elif b in ('all', 'any'):
    args.append(draw(iterables()))
  elif b == 'enumerate':
    it = draw(iterables())
    how_it = draw(st.sampled_from(['pos', 'pos', 'pos', 'kw']))
    if how_it == 'kw' and excl and X_ENUM_KW in ACTIVE_EXCL:
      meta.append('excluded:' + X_ENUM_KW)
      how_it = 'pos'
    meta.append('p:enumerate.iterable=' + how_it)
    startv = st.one_of(INDEXLIKE, INDEXLIKE, JUNK)
    if how_it == 'pos':
      args.append(it)
      opt('start', startv)
    else:
      how = draw(st.sampled_from(['absent', 'kw']))
      meta.append('p:enumerate.start=' + how)
      kws = [['iterable', it]]
      if how == 'kw':
        kws.append(['start', draw(startv)])
        if draw(st.booleans()):
          kws.reverse()
      kwargs.extend(kws)
  elif b == 'filter':
    args.append(draw(st.one_of(UNARY_FN, UNARY_FN, st.just(NONE), st.just(NONE), INTS)))
    args.append(draw(iterables()))
  elif b == 'float':
    opt('x', st.one_of(INTS, FLOATS, st.booleans().map(B), TEXT, TEXT, NUMTEXT.map(lambda s: ['bytes', s.encode('ascii', 'replace').decode('ascii')]),
                       objs('float', st.one_of(FLOATS, INTS, EXCN.map(lambda e: ['raise', e]))), objs('index', INTS),
                       st.just(NONE), st.just(['list', []])), allow_kw=False)
  elif b == 'int':
    xs = st.one_of(TEXT, TEXT, TEXT, INTS, FLOATS, st.booleans().map(B),
                   NUMTEXT.map(lambda s: ['bytes', s.encode('ascii', 'replace').decode('ascii')]),
                   objs('int', st.one_of(INTS, FLOATS, EXCN.map(lambda e: ['raise', e]))), objs('index', INTS), st.just(NONE))
    bases = st.one_of(st.sampled_from([0, 2, 8, 10, 16, 36, 1, 37, -1, 3]).map(I), st.sampled_from([0, 2, 10, 16]).map(I),
                      st.booleans().map(B), objs('index', st.sampled_from([2, 16, 99]).map(I)), FLOATS, TEXT, st.just(NONE))
    hx = draw(st.sampled_from(['absent', 'pos', 'pos', 'pos', 'pos']))
    meta.append('p:int.x=' + hx)
    if hx == 'pos':
      args.append(draw(xs))
      opt('base', bases)
    else:
      # calibration: int(base=...) without x is rejected by CPython whatever the value (signature-level
      # rejection), so it is outside "every way of calling it that Python accepts"
      meta.append('p:int.base=absent')
  elif b == 'map':
    n = draw(st.sampled_from([0, 1, 1, 1, 2, 2, 3]))
    meta.append('n_iterables=%d' % n)
    args.append(draw(st.one_of(UNARY_FN if n <= 1 else NARY_FN, NARY_FN, st.just(NONE) if draw(st.integers(0, 9)) == 0 else NARY_FN)))
    for _ in range(n):
      args.append(draw(iterables()))
  elif b == 'print':
    n = draw(st.integers(0, 3))
    meta.append('n_objects=%d' % n)
    for _ in range(n):
      args.append(draw(st.one_of(SCALAR, SCALAR, iterables(junk=False), objs('str', st.one_of(TEXT, st.just(I(3)), st.just(['raise', 'ValueError']))))))
    opt('sep', st.one_of(TEXT, TEXT, st.just(NONE), INTS), allow_pos=False)
    opt('end', st.one_of(TEXT, TEXT, st.just(S('')), st.just(NONE), INTS), allow_pos=False)
    opt('file', st.one_of(st.just(['sink']), st.just(['sink']), st.just(['stringio']), st.just(NONE), INTS), allow_pos=False)
    opt('flush', st.one_of(st.booleans().map(B), st.booleans().map(B), INTS, st.just(NONE), objs('bool', st.one_of(st.booleans().map(B), st.just(['raise', 'ValueError'])))),
        allow_pos=False)
  elif b == 'range':
    n = draw(st.sampled_from([1, 2, 2, 3, 3, 3]))
    meta.append('p:range.stop=' + ('pos' if n >= 2 else 'absent'))
    meta.append('p:range.step=' + ('pos' if n >= 3 else 'absent'))
    rv = st.one_of(st.integers(-4, 7).map(I), st.integers(-4, 7).map(I), INDEXLIKE, JUNK if draw(st.integers(0, 7)) == 0 else INTS)
    for i in range(n):
      if i == 2:
        args.append(draw(st.one_of(st.sampled_from([1, 2, 3, -1, -2, 0]).map(I), rv)))
      else:
        args.append(draw(rv))
  elif b == 'sorted':
    args.append(draw(iterables()))
    opt('key', st.one_of(UNARY_FN, UNARY_FN, st.just(NONE), INTS), allow_pos=False)
    opt('reverse', st.one_of(st.booleans().map(B), st.just(B(True)), st.sampled_from([0, 1, 2, -1]).map(I), st.just(NONE), FLOATS, TEXT,
                             objs('bool', st.booleans().map(B))), allow_pos=False)
  elif b == 'zip':
    n = draw(st.sampled_from([0, 1, 2, 2, 2, 3]))
    meta.append('n_iterables=%d' % n)
    for _ in range(n):
      args.append(draw(iterables()))
    opt('strict', st.one_of(st.booleans().map(B), st.just(B(True)), st.just(B(True)), st.sampled_from([0, 1]).map(I), st.just(NONE), TEXT,
                            objs('bool', st.one_of(st.booleans().map(B), st.just(['raise', 'ValueError'])))), allow_pos=False)

  route = draw(st.sampled_from(['overload', 'converted_call', 'converted_call', 'partial', 'e2e', 'e2e', 'e2e_star']))
  case = {'kind': 'call', 'b': b, 'args': args, 'kwargs': kwargs, 'route': route, 'steps': draw(st.integers(0, 3)),
          'feat': draw(st.integers(0, 1))}
  if route == 'partial':
    k = draw(st.integers(0, len(args)))
    case['pargs'], case['args'] = args[:k], args[k:]
    pkw, ckw = [], []
    for name, v in kwargs:
      where = draw(st.sampled_from(['partial', 'call', 'both']))
      if where in ('partial', 'both'):
        pkw.append([name, v if where == 'partial' else draw(st.one_of(SCALAR, st.just(v)))])
      if where in ('call', 'both'):
        ckw.append([name, v])
    case['pkw'], case['kwargs'] = pkw, ckw
  return case, meta


def _shape(spec):
  k = spec[0]
  if k == 'obj':
    return 'obj:' + '+'.join(sorted(spec[2]))
  if k == 'citer' and spec[2] is not None:
    return 'citer_raising'
  if k == 'fn' or k == 'builtin':
    return 'fn'
  return k


def call_classes(case, meta, info):
  b = case['b']
  cls = ['call', 'b=' + b, 'route=' + case['route']] + list(meta)
  for s in case['args'] + case.get('pargs', []):
    cls.append('arg:' + _shape(s))
  for k, s in case['kwargs'] + case.get('pkw', []):
    cls.append('arg:' + _shape(s))
  if info.get('lazy'):
    cls.append('lazy_result')
    cls.append('steps=%d' % case.get('steps', 0))
  if info.get('error'):
    cls.append('error_path')
    cls.append('error:' + info['error'])
  else:
    cls.append('ok_path')
  return cls


def call_nontrivial(case, meta, info):
  if info.get('lazy') or info.get('error'):
    return True
  for m in meta:
    if m.startswith('p:') and (m.endswith('=absent') or m.endswith('=kw')):
      name = m[2:].split('=')[0].split('.')[1]
      if name in OPTIONAL[case['b']]:
        return True
  return False


# ---- deterministic covering table --------------------------------------------------------------

_L = ['list', [I(3), I(1), F('1.0'), B(True), I(2), I(1)]]
_RECS = ['list', _recs([1, 0, 1, 2, 0, 1])]
_CI = ['citer', [I(1), I(0), I(2), I(3)], None, 'ValueError']
_CI2 = ['citer', [I(5), I(6)], None, 'ValueError']
_GEN = ['gen', [I(1), I(2), I(3)]]


def covering_cases():
  base = []

  def add(b, args, kwargs=()):
    base.append((b, list(args), [list(k) for k in kwargs]))

  add('abs', [I(-3)]); add('abs', [F('-0.0')]); add('abs', [['obj', 1, {'abs': S('x')}]]); add('abs', [S('a')])
  add('len', [_L]); add('len', [['obj', 1, {'len': I(4)}]]); add('len', [['obj', 1, {'len': I(-1)}]]); add('len', [I(3)])
  for b in ('all', 'any'):
    add(b, [_CI]); add(b, [['list', []]]); add(b, [_GEN]); add(b, [I(1)])
  add('enumerate', [_CI]); add('enumerate', [_CI, I(5)]); add('enumerate', [_GEN], [['start', I(2)]])
  add('enumerate', [_L], [['start', ['obj', 1, {'index': I(7)}]]]); add('enumerate', [_L], [['start', F('1.5')]])
  add('filter', [NONE, _CI]); add('filter', [['fn', 'is_pos'], _GEN]); add('filter', [I(1), _L])
  add('float', []); add('float', [S(' 2.5\n')]); add('float', [S('nan')]); add('float', [S('z')]); add('float', [['obj', 1, {'float': F('2.0')}]])
  add('int', []); add('int', [S('12')]); add('int', [S('11'), I(2)]); add('int', [S('1f')], [['base', I(16)]])
  add('int', [S('0x1f')], [['base', I(0)]]); add('int', [F('2.5')]); add('int', [S('12')], [['base', I(1)]])
  add('int', [I(3), I(10)]); add('int', [F('nan')])
  add('map', [['fn', 'neg'], _CI]); add('map', [['fn', 'tuple_n'], _CI, _CI2]); add('map', [['fn', 'add_n'], _GEN, _CI2, _L]); add('map', [['fn', 'neg']])
  add('map', [['fn', 'raise_on_2'], _CI])
  for sep in (None, S('-'), NONE):
    for end in (None, S('!'), S('')):
      for fil in (None, ['sink'], ['stringio']):
        for fl in (None, B(True)):
          kw = [[n, v] for n, v in (('sep', sep), ('end', end), ('file', fil), ('flush', fl)) if v is not None]
          add('print', [I(1), S('a'), F('1.5')], kw)
  add('print', []); add('print', [I(1)], [['sep', I(3)]]); add('print', [I(1)], [['file', I(3)]])
  add('range', [I(4)]); add('range', [I(1), I(6)]); add('range', [I(1), I(9), I(3)]); add('range', [I(9), I(1), I(-2)])
  add('range', [I(1), I(9), I(0)]); add('range', [F('1.5')]); add('range', [I(0), ['obj', 1, {'index': I(5)}], I(2)])
  for it in (_L, _RECS):
    for key in (None, NONE, ['fn', 'neg'] if it is _L else ['fn', 'key'], ['fn', 'const0']):
      for rev in (None, B(True), B(False), I(1), I(0)):
        kw = [[n, v] for n, v in (('key', key), ('reverse', rev)) if v is not None]
        add('sorted', [it], kw)
        add('sorted', [it], list(reversed(kw)))
  add('sorted', [['list', [I(1), S('a')]]]); add('sorted', [_GEN], [['reverse', NONE]])
  for strict in (None, B(True), B(False), I(1)):
    kw = [['strict', strict]] if strict is not None else []
    add('zip', [_CI, _CI2], kw); add('zip', [_CI2, _CI], kw); add('zip', [_CI2, ['citer', [I(7), I(8)], None, 'ValueError']], kw)
    add('zip', [], kw); add('zip', [_GEN], kw); add('zip', [_L, _CI, _GEN], kw)
  out = []
  for b, args, kwargs in base:
    for route in ROUTES:
      for steps in (0, 2):
        c = {'kind': 'call', 'b': b, 'args': args, 'kwargs': kwargs, 'route': route, 'steps': steps, 'feat': 1}
        if route == 'partial':
          k = len(args) // 2 + len(args) % 2
          c = dict(c, pargs=args[:k], args=args[k:], pkw=kwargs[:1], kwargs=kwargs[1:])
        out.append(c)
  return out


def cover_meta(case):
  b = case['b']
  meta = []
  present = dict((k, 'kw') for k, _ in case['kwargs'] + case.get('pkw', []))
  npos = len(case['args']) + len(case.get('pargs', []))
  order = {'enumerate': ['iterable', 'start'], 'float': ['x'], 'int': ['x', 'base'], 'range': ['start', 'stop', 'step'],
           'sorted': ['iterable']}.get(b, [])
  for i, n in enumerate(order):
    if i < npos:
      present[n] = 'pos'
  for n in OPTIONAL[b]:
    meta.append('p:%s.%s=%s' % (b, n, present.get(n, 'absent')))
  return meta


# ----------------------------------------------------------------------------------------------
# context builtins: generated programs


_CTX_PRELUDE = '''import collections.abc
import contextlib
import sys
G1 = 11
G2 = 'g'
_THIS = globals()
MISSING = '<missing>'


def use(*a):
  return None


def sel(d, names):
  return [(n, d.get(n, MISSING)) for n in names]


def is_mod(d):
  return d is _THIS


def ident(x):
  return x


def first(*a):
  return a[0]


def rec(out, k, L, v):
  out.append((k, L, v))
  return True


@contextlib.contextmanager
def cm(v):
  yield v


class NS(dict):
  pass


class EM(collections.abc.Mapping):
  # an empty (hence falsy) mapping that is not a dict

  def __getitem__(self, k):
    raise KeyError(k)

  def __len__(self):
    return 0

  def __iter__(self):
    return iter(())


class UM(collections.abc.Mapping):
  # a non-empty mapping that is not a dict

  def __init__(self, d):
    self.d = d

  def __getitem__(self, k):
    return self.d[k]

  def __len__(self):
    return len(self.d)

  def __iter__(self):
    return iter(self.d)


def sup(s):
  o = s.__self__
  return (s.__thisclass__.__name__, ('cls:' + o.__name__) if isinstance(o, type) else type(o).__name__, s.__self_class__.__name__)


class Base(object):

  def w(self, i):
    return ('Base.w', type(self).__name__, i)

  @classmethod
  def c(cls, i):
    return ('Base.c', cls.__name__, i)


class Mid(Base):

  def w(self, i):
    r = ('Mid.w',)
    if i >= 0:
      r = r + (super().w(i),)
    return r

  @classmethod
  def c(cls, i):
    r = ('Mid.c',)
    for _ in range(1):
      r = r + (super().c(i),)
    return r


class Other(Base):

  def w(self, i):
    raise AssertionError('Other.w reached through super()')

  def k(self, v):
    r = []
    q = v + 100
    for j in range(2):
      if j >= 0:
        r.append(super().w(v + j))
        r.append(eval('q + j'))
        use(q, j)
    return r

'''


class _PB(object):
  """Builds one function body; every random choice is a Hypothesis draw."""

  def __init__(self, draw, kind, max_depth, excl):
    self.draw, self.kind, self.max_depth, self.excl = draw, kind, max_depth, excl
    self.lines = []
    self.ntmp = 0
    self.nsite = 0
    self.sites = {}
    self.meta = []
    self.budget = draw(st.integers(6, 16))
    self.excluded = {}

  def emit(self, ind, text):
    self.lines.append('  ' * ind + text)

  def pick(self, seq):
    return self.draw(st.sampled_from(sorted(seq)))

  def intexpr(self, bound_ints):
    a = self.pick(bound_ints)
    f = self.draw(st.integers(0, 4))
    if f == 0:
      return '%s + %d' % (a, self.draw(st.integers(1, 3)))
    if f == 1:
      return '%s * 2 + %s' % (a, self.pick(bound_ints))
    if f == 2:
      return '%s - %s' % (a, self.pick(bound_ints))
    if f == 3:
      return '%d' % self.draw(st.integers(0, 9))
    return a

  def cond(self, bound_ints):
    a = self.pick(bound_ints)
    f = self.draw(st.integers(0, 4))
    if f == 0:
      return 'p'
    if f == 1:
      return '%s %% 2 == 0' % a
    if f == 2:
      return '%s > %d' % (a, self.draw(st.integers(-1, 3)))
    if f == 3:
      return 'not p'
    return '%s >= 0' % a

  def site(self, depth, kind, tags=()):
    self.nsite += 1
    self.sites[str(self.nsite)] = [depth, kind, list(tags)]
    self.meta.append('probe:%s@depth%d' % (kind, depth))
    return self.nsite

  def evalns(self, ints, others, inames):
    """eval with drawn namespace arguments: (value expr, names that must stay syntactically read,
    lines before, lines after (format with the site number), class tags)."""
    reads = self.draw(st.sampled_from(['local', 'local', 'local+global', 'global', 'builtin', 'zz', 'zz+global']))
    expr = {'local': ' + '.join(inames), 'local+global': inames[0] + ' + G1', 'global': 'G1 + 1',
            'builtin': 'len("abcd") + max(1, 2)', 'zz': 'zz + 1', 'zz+global': 'zz + G1'}[reads]
    gform = self.draw(st.sampled_from(G_FORMS))
    if self.draw(st.integers(0, 3)) == 0:
      # the omitted / None / empty / falsy boundary of both arguments, drawn as pairs
      gform, lform = self.draw(st.sampled_from(NS_BOUNDARY))
    elif gform == 'omitted':
      lform = 'omitted'   # locals can only follow an explicit globals argument (spelled None: form 'none')
    elif gform == 'none':
      # None globals + explicit locals: the caller's globals with exactly the given locals
      lform = self.draw(st.sampled_from(L_FORMS_AFTER_NONE))
    else:
      lform = self.draw(st.sampled_from(L_FORMS))
    pre, post, use = [], [], []
    if reads in ('local', 'local+global'):
      use = list(inames) if reads == 'local' else inames[:1]
    nm = inames[0]
    if gform == 'empty_dict_var':
      self.ntmp += 1
      v = 'ns%d' % self.ntmp
      pre.append('%s = {}' % v)
      post.append("out.append(('eval', %%d, 'keys', sorted(%s)))" % v)
      g = v
    elif gform == 'falsy_nondict':
      g = self.draw(st.sampled_from(['[]', '0', "''", '()', 'EM()', 'False']))
    elif gform == 'truthy_nondict':
      g = self.draw(st.sampled_from(['[1]', "UM({'G1': 2})", '1']))
    else:
      g = {'omitted': None, 'none': 'None', 'empty_dict': '{}', 'empty_dict_call': 'dict()', 'empty_dict_subclass': 'NS()',
           'nonempty_other': "{'G1': 2}", 'nonempty_shadow': "{%r: -5, 'G1': 2}" % nm, 'globals_call': 'globals()',
           'module_dict': '_THIS'}[gform]
    if lform == 'falsy_nonmapping':
      l = self.draw(st.sampled_from(['0', '[]', "''", 'False']))
    else:
      l = {'omitted': None, 'none': 'None', 'empty_dict': '{}', 'empty_mapping': 'EM()', 'bind_zz': "{'zz': %s}" % nm,
           'shadow': "{%r: 40, 'zz': 1}" % nm, 'locals_call': 'locals()', 'user_mapping': "UM({'zz': %s, %r: 41})" % (nm, nm)}[lform]
    if lform == 'locals_call' and not use:
      use = inames[:1]
    args = [repr(expr)] + ([g] if g is not None else ['None'] if l is not None else []) + ([l] if l is not None else [])
    tags = ['evalns', 'evalns:g=' + gform, 'evalns:l=' + lform, 'evalns:reads=' + reads]
    if gform.startswith('empty_dict') and lform in ('omitted', 'none'):
      tags.append('evalns:empty_globals_only')
    if gform.startswith('empty_dict') and lform not in ('omitted', 'none'):
      tags.append('evalns:empty_globals+locals')
    if gform in ('omitted', 'none') and lform in ('empty_dict', 'empty_mapping'):
      tags.append('evalns:empty_locals_only')
    return 'eval(%s)' % ', '.join(args), use, pre, post, tags

  def probe(self, ind, depth, ints, others):
    """ints: definitely-bound int-valued user names; others: other definitely-bound user names.

    A probe is one context-builtin call (the value expression) placed in a drawn syntactic position
    (the wrapper): directly in out.append(...), nested in the argument list of print(...) / another
    call / a display / an f-string, in a lazily evaluated operand, in an if / while test, a for
    iterable, a with item."""
    kinds = ['eval', 'eval', 'eval', 'locals', 'locals', 'globals', 'eval3', 'evalcode', 'other']
    if self.kind in ('method', 'classmethod'):
      kinds += ['super', 'super', 'super', 'supinfo']
    kinds += ['eval_g', 'eval_none', 'evalns', 'evalns', 'evalns', 'evalns']
    k = self.pick(set(kinds)) if self.draw(st.integers(0, 3)) == 0 else self.draw(st.sampled_from(kinds))
    if self.excl and k in ('eval_g', 'eval_none') and (X_EVAL_G_ONLY if k == 'eval_g' else X_EVAL_NONE) in ACTIVE_EXCL:
      # known findings F28 / F29: redirected to the three-argument form
      flag = X_EVAL_G_ONLY if k == 'eval_g' else X_EVAL_NONE
      self.excluded[flag] = self.excluded.get(flag, 0) + 1
      k = 'eval3'
    names = sorted(set([self.pick(ints)] + [self.pick(ints | others) for _ in range(self.draw(st.integers(0, 2)))]))
    inames = [n for n in names if n in ints]
    use = None
    pre, post, handlers, tags = [], [], (), []
    sk = 'eval'
    if k == 'eval':
      f = self.draw(st.integers(0, 3))
      if f == 0:
        expr = ' + '.join(inames)
      elif f == 1:
        expr = '[%s]' % ', '.join(names)
      elif f == 2:
        expr = '%s + G1' % inames[0]
      else:
        expr = 'len(str(%s)) + max(%s, 0)' % (inames[0], inames[-1])
      val = 'eval(%r)' % expr
      use = names
    elif k == 'evalcode':
      val = "eval(compile(%r, '<c14>', 'eval'))" % ('(%s, G2)' % inames[0])
      use = inames[:1]
    elif k == 'eval3':
      val = "eval('G1 + zz + %s', {'G1': 2, '%s': -5}, {'zz': %s})" % (inames[0], inames[0], inames[0])
    elif k == 'eval_g':
      val = "eval(%r, {%r: -7, 'G1': 1})" % (inames[0] + ' + G1', inames[0])
    elif k == 'eval_none':
      val = 'eval(%r, None, None)' % (inames[0] + ' + G1')
      use = inames[:1]
    elif k == 'evalns':
      val, use, pre, post, tags = self.evalns(ints, others, inames)
      handlers = ('NameError', 'TypeError')
    elif k == 'locals':
      sk = 'locals'
      val = 'sel(locals(), %r)' % (tuple(names),)
      use = names
    elif k == 'globals':
      sk = 'globals'
      val = "(is_mod(globals()), globals()['G1'], 'sel' in globals())"
    elif k == 'super':
      sk = 'super'
      meth = 'w' if self.kind == 'method' else 'c'
      val = 'super().%s(%s)' % (meth, inames[0])
    elif k == 'supinfo':
      sk = 'super'
      val = 'sup(super())'
    else:
      sk = 'other'
      val = 'Other().k(%s)' % inames[0]
    wrap = self.draw(st.sampled_from(WRAPS))
    if wrap == 'with_item' and sk == 'super' and self.excl and X_SUPER_WITH_ITEM in ACTIVE_EXCL:
      # finding FC14c: the arguments of a context-manager call are left unconverted
      self.excluded[X_SUPER_WITH_ITEM] = self.excluded.get(X_SUPER_WITH_ITEM, 0) + 1
      wrap = 'with_body'
    L = self.nsite + 1
    wg = 'print' if wrap.startswith('print') else wrap
    self.site(depth, sk, ['%s@%s' % (sk, wg)] + tags + ([k] if k != sk and k != 'evalns' else []))
    self.meta.append('wrap:' + wrap)
    for t in tags:
      self.meta.append(t)
    lazy = wrap in LAZY_WRAPS
    if use and self.excl:
      # known finding F07: a name reached only through eval()/locals() is invisible to the
      # converter's static analyses, so every probed name is also read syntactically in the same
      # generated function: right here in the block, or - for operands the converter turns into
      # functions of their own (conditional expressions, and/or, while tests) - in that operand
      self.excluded[X_DYN_ONLY] = self.excluded.get(X_DYN_ONLY, 0) + 1
      if lazy:
        val = 'first(%s, %s)' % (val, ', '.join(use))
        self.excluded[X_DYN_ONLY_OPERAND] = self.excluded.get(X_DYN_ONLY_OPERAND, 0) + 1
    elif use:
      self.meta.append('dynamic_only_names')
    body = self.wrapped(wrap, sk, L, val, ints)
    for ln in pre:
      self.emit(ind, ln)
    if handlers:
      self.emit(ind, 'try:')
      for rel, ln in body:
        self.emit(ind + 1 + rel, ln)
      for h in handlers:
        self.emit(ind, 'except %s:' % h)
        self.emit(ind + 1, "out.append((%r, %d, 'raised', %r))" % (sk, L, h))
    else:
      for rel, ln in body:
        self.emit(ind + rel, ln)
    for ln in post:
      self.emit(ind, ln % L)
    if use and self.excl and not lazy:
      self.emit(ind, 'use(%s)' % ', '.join(use))

  def wrapped(self, wrap, sk, L, val, ints):
    """-> [(relative indent, line)] placing the value expression `val` in position `wrap`."""
    d = self.draw
    done = "out.append((%r, %d, 'printed'))" % (sk, L)
    if wrap == 'plain':
      return [(0, 'out.append((%r, %d, %s))' % (sk, L, val))]
    if wrap == 'print_arg':
      kw = d(st.sampled_from(['', '', ", sep='|'", ", end=';\\n'", ", sep='', end='\\n'", ', file=sys.stdout', ', flush=True']))
      return [(0, "print('P', %d, %s%s)" % (L, val, kw)), (0, done)]
    if wrap == 'print_first':
      return [(0, "print(%s, 'P', %d)" % (val, L)), (0, done)]
    if wrap == 'print_kwvalue':
      f = d(st.sampled_from(["print('P', %d, end=str(%s) + '\\n')", "print('P', %d, 'q', sep=str(%s))", "print('P', %d, 'q', sep=str(%s), end='.\\n')"]))
      return [(0, f % (L, val)), (0, done)]
    if wrap == 'print_star':
      f = d(st.sampled_from(["print('P', %d, *[%s])", "print(*('P', %d, %s), sep='/')", "print('P', %d, **{'end': str(%s) + '\\n'})"]))
      return [(0, f % (L, val)), (0, done)]
    if wrap == 'print_nested':
      f = d(st.sampled_from(["print('P', %d, str(%s))", "print('P', %d, ident(%s))", "print('P', %d, [%s], {1: 2})", "print('P', %d, print(%s))",
                             "print('P', %d, len(repr(%s)))", "print('P', %d, f'{%s}')"]))
      return [(0, f % (L, val)), (0, done)]
    if wrap == 'call_user':
      f = d(st.sampled_from(['ident(%s)', 'first(%s, 0)', 'ident(x=%s)', 'first(*[%s])']))
      return [(0, 'out.append((%r, %d, %s))' % (sk, L, f % val))]
    if wrap == 'call_builtin':
      f = d(st.sampled_from(['repr(%s)', 'len([%s])', 'sorted([%s])', 'list(map(repr, [%s]))', 'str(%s).upper()']))
      return [(0, 'out.append((%r, %d, %s))' % (sk, L, f % val))]
    if wrap == 'display':
      f = d(st.sampled_from(['[%s]', '{1: %s}', '(%s, 0)', "f'{%s}'", '[%s][0]', '[0, *[%s]]']))
      return [(0, 'out.append((%r, %d, %s))' % (sk, L, f % val))]
    if wrap == 'ifexp':
      f = d(st.sampled_from(["%s if %s else 'no'", "'no' if not (%s) else %s"]))
      c = self.cond(ints)
      e = f % ((val, c) if f.startswith('%s if') else (c, val))
      return [(0, 'out.append((%r, %d, %s))' % (sk, L, e))]
    if wrap == 'boolop':
      f = d(st.sampled_from(['(%s) and [%s]', '(not (%s)) or [%s]', '(%s) and [%s] or 0']))
      return [(0, 'out.append((%r, %d, %s))' % (sk, L, f % (self.cond(ints), val)))]
    if wrap == 'if_test':
      return [(0, 'if rec(out, %r, %d, %s):' % (sk, L, val)), (1, "out.append((%r, %d, 'taken'))" % (sk, L))]
    if wrap == 'while_test':
      self.ntmp += 1
      v = 'j%d' % self.ntmp
      return [(0, '%s = 0' % v), (0, 'while %s < 1 and rec(out, %r, %d, %s):' % (v, sk, L, val)), (1, '%s = %s + 1' % (v, v))]
    if wrap == 'for_iter':
      self.ntmp += 1
      v = 'q%d' % self.ntmp
      return [(0, 'for %s in [%s]:' % (v, val)), (1, 'out.append((%r, %d, %s))' % (sk, L, v))]
    if wrap == 'with_item':
      self.ntmp += 1
      v = 'z%d' % self.ntmp
      return [(0, 'with cm(%s) as %s:' % (val, v)), (1, 'out.append((%r, %d, %s))' % (sk, L, v))]
    if wrap == 'with_body':
      return [(0, 'with cm(0):'), (1, 'out.append((%r, %d, %s))' % (sk, L, val))]
    if wrap == 'try_finally':
      return [(0, 'try:'), (1, 'out.append((%r, %d, %s))' % (sk, L, val)), (0, 'finally:'), (1, 'use()')]
    raise BuildError('wrap ' + wrap)

  def block(self, ind, depth, ints, others, in_loop):
    """Emits 1..4 statements; returns nothing (names bound inside do not escape: conservative)."""
    ints, others = set(ints), set(others)
    n = self.draw(st.integers(1, 4))
    emitted = 0
    for _ in range(n):
      if self.budget <= 0 and emitted:
        break
      self.budget -= 1
      emitted += 1
      r = self.draw(st.integers(0, 99))
      if r < 22:
        # assignment: an outer variable or a fresh block-local temporary
        fresh = self.draw(st.booleans())
        if fresh:
          self.ntmp += 1
          v = 't%d' % self.ntmp
        else:
          v = self.pick({'a', 'b'})
        if fresh and self.draw(st.integers(0, 3)) == 0:
          # non-int values only in fresh temporaries, so a / b stay ints on every path
          self.emit(ind, '%s = [%s, %r]' % (v, self.pick(ints), 's'))
          others.add(v)
        else:
          self.emit(ind, '%s = %s' % (v, self.intexpr(ints)))
          others.discard(v)
          ints.add(v)
      elif r < 62 or depth >= self.max_depth:
        self.probe(ind, depth, ints, others)
      elif r < 76:
        self.emit(ind, 'if %s:' % self.cond(ints))
        self.block(ind + 1, depth + 1, ints, others, in_loop)
        if self.draw(st.booleans()):
          self.emit(ind, 'else:')
          self.block(ind + 1, depth + 1, ints, others, in_loop)
        self.meta.append('stmt:if')
      elif r < 86:
        self.ntmp += 1
        v = 'i%d' % self.ntmp
        it = self.draw(st.sampled_from(['range(2)', 'range(n)', 'range(3)', '[%s, 7]' % self.pick(ints), '(5,)']))
        self.emit(ind, 'for %s in %s:' % (v, it))
        self.block(ind + 1, depth + 1, ints | {v}, others, True)
        self.meta.append('stmt:for')
      elif r < 93:
        self.ntmp += 1
        v = 'j%d' % self.ntmp
        self.emit(ind, '%s = 0' % v)
        self.emit(ind, 'while %s < %s:' % (v, self.draw(st.sampled_from(['2', 'n', '1', '3']))))
        self.emit(ind + 1, '%s = %s + 1' % (v, v))
        self.block(ind + 1, depth + 1, ints | {v}, others, True)
        ints.add(v)
        self.meta.append('stmt:while')
      elif r < 97 and in_loop:
        self.emit(ind, 'if %s:' % self.cond(ints))
        self.emit(ind + 1, self.draw(st.sampled_from(['continue', 'continue', 'break'])))
        self.meta.append('stmt:jump_in_loop')
      elif depth >= 1:
        self.emit(ind, 'if %s:' % self.cond(ints))
        self.emit(ind + 1, 'return out')
        self.meta.append('stmt:early_return')
      else:
        self.probe(ind, depth, ints, others)


@st.composite
def ctx_programs(draw, max_depth=3, excl=True):
  kind = draw(st.sampled_from(['method', 'method', 'classmethod', 'function']))
  pb = _PB(draw, kind, max_depth, excl)
  pb.emit(2 if kind != 'function' else 1, 'a = n + 1')
  pb.emit(2 if kind != 'function' else 1, 'b = 2')
  ind = 2 if kind != 'function' else 1
  pb.block(ind, 0, {'a', 'b', 'n'}, set(), False)
  # make sure something is probed inside a functionalised body
  if not any(v[0] >= 1 for v in pb.sites.values()):
    pb.emit(ind, 'for i0 in range(2):')
    pb.emit(ind + 1, 'if i0 + n > 0:')
    pb.probe(ind + 2, 2, {'a', 'b', 'n', 'i0'}, set())
  pb.emit(ind, 'return out')
  body = '\n'.join(pb.lines)
  if kind == 'method':
    src = _CTX_PRELUDE + 'class Sub(Mid):\n\n  def w(self, i):\n    raise AssertionError("Sub.w")\n\n  def m(self, n, p, out):\n' + body + '\n'
  elif kind == 'classmethod':
    src = (_CTX_PRELUDE + 'class Sub(Mid):\n\n  @classmethod\n  def c(cls, i):\n    raise AssertionError("Sub.c")\n\n'
           '  @classmethod\n  def m(cls, n, p, out):\n' + body + '\n')
  else:
    src = _CTX_PRELUDE + 'def m(n, p, out):\n' + body + '\n'
  inputs = draw(st.lists(st.tuples(st.integers(0, 3), st.booleans()), min_size=2, max_size=3, unique=True))
  route = draw(st.sampled_from(['to_graph', 'to_graph', 'converted_call', 'convert']))
  # print(...) is only substituted when the BUILTIN_FUNCTIONS feature is requested; otherwise the call is
  # left as written and only its arguments are converted
  feat = draw(st.integers(0, 1))
  case = {'kind': 'ctx', 'entry': kind, 'src': src, 'inputs': [list(i) for i in inputs], 'sites': pb.sites, 'route': route,
          'feat': feat}
  return case, sorted(set(pb.meta)) + ['nstmts=%d' % min(20, len(pb.lines) // 4 * 4)], pb.excluded


def _ctx_entry(mod, case, converted):
  kind = case['entry']
  if kind == 'function':
    f, pre = mod.m, ()
  elif kind == 'method':
    f, pre = mod.Sub.m, (mod.Sub(),)
  else:
    f, pre = mod.Sub.m.__func__, (mod.Sub,)
  if not converted:
    return lambda n, p, out: f(*(pre + (n, p, out)))
  route = case.get('route', 'to_graph')
  feat = case.get('feat', 0)
  if route == 'to_graph':
    g = malt.to_graph(f, experimental_optional_features=BFEAT if feat else None)
    return lambda n, p, out: g(*(pre + (n, p, out)))
  if route == 'convert':
    g = malt.convert(recursive=True, optional_features=BFEAT if feat else None)(f)
    return lambda n, p, out: g(*(pre + (n, p, out)))
  opts = converter.ConversionOptions(recursive=True, user_requested=True, internal_convert_user_code=True,
                                     optional_features=(BFEAT,) if feat else ())
  if kind == 'method':
    bound = pre[0].m
    return lambda n, p, out: api.converted_call(bound, (n, p, out), None, options=opts)
  return lambda n, p, out: api.converted_call(f, pre + (n, p, out), None, options=opts)


class _Timeout(Exception):
  malt_frame = 'timeout'


def _run_entry(fn, n, p, limit=None):
  out = []
  cap = io.StringIO()
  old = sys.stdout
  sys.stdout = cap
  try:
    if limit:
      # safety net only: the original terminates by construction, a converted run that does not
      # (seen with a frame-search mutant: unbounded mutual recursion) becomes a failure, not a hang
      with diffobs.time_limit(limit):
        r = fn(n, p, out)
    else:
      r = fn(n, p, out)
    oc = ['ok', describe(r is out)]
  except diffobs.Timeout:
    oc = ['exc', 'Timeout', _Timeout('converted run exceeded %ss' % limit)]
  except Exception as e:
    oc = ['exc', exc_name(e), e]
  finally:
    sys.stdout = old
  return oc, [describe(x) for x in out], cap.getvalue()


def run_ctx(case):
  fails, info = [], {'runs': 0, 'deep_probes': 0, 'kinds': set()}
  try:
    mod = harness.load_module(case['src'])
  except Exception as e:
    return [], {'slip': repr(e), 'runs': 0, 'deep_probes': 0, 'kinds': set()}
  _KEEP.append(mod)
  sites = case.get('sites', {})
  try:
    orig = _ctx_entry(mod, case, False)
    try:
      conv = _ctx_entry(mod, case, True)
    except Exception as e:
      return [('ctx:convert:' + harness.exc_bucket(e), {'exc': repr(e)[:400]})], info
    for n, p in case['inputs']:
      oo, olog, otext = _run_entry(orig, n, p)
      if oo[0] == 'exc':
        info['slip'] = 'original raised %s' % oo[1]
        break
      co, clog, ctext = _run_entry(conv, n, p, limit=120)
      info['runs'] += 1
      for ent in olog:
        L = str(ent[1][1][1])
        d = sites.get(L, [0, '?'])
        if d[0] >= 1:
          info['deep_probes'] += 1
          info['kinds'].add(d[1])
          for t in (d[2] if len(d) > 2 else ()):
            info['kinds'].add(t + ('' if '@print' not in t else ':feat=%d' % case.get('feat', 0)))
          if len(ent[1]) > 2 and ent[1][2] == ['str', "'raised'"]:
            info['kinds'].add('%s:raised:%s' % (d[1], ent[1][3][1].strip("'")))
      if olog == clog and co[0] == 'ok' and co[1:] == oo[1:]:
        if otext != ctext:
          # same probe log, different text written by the print(...) calls around the probes
          ol, cl = otext.splitlines(), ctext.splitlines()
          i = 0
          while i < min(len(ol), len(cl)) and ol[i] == cl[i]:
            i += 1
          fails.append(('ctx:print:stdout', {'input': [n, p], 'line': i, 'original': ol[i] if i < len(ol) else None,
                                             'converted': cl[i] if i < len(cl) else None}))
          break
        continue
      i = 0
      while i < min(len(olog), len(clog)) and olog[i] == clog[i]:
        i += 1
      if i < len(olog):
        ent = olog[i]
        kind = ent[1][0][1].strip("'")
        L = str(ent[1][1][1])
        depth = sites.get(L, [0, '?'])[0]
      else:
        kind, L, depth = 'extra', '-', 0
      if co[0] == 'exc' and i == len(clog):
        clause = 'exc:ok->' + harness.exc_bucket(co[2])
      elif i < len(clog) or co[0] == 'ok':
        clause = 'value'
      else:
        clause = 'exc:ok->' + harness.exc_bucket(co[2])
      fails.append(('ctx:%s:%s' % (kind, clause),
                    {'input': [n, p], 'site': L, 'depth': depth, 'index': i, 'original': olog[i] if i < len(olog) else None,
                     'converted': clog[i] if i < len(clog) else None, 'converted_outcome': co[:2]}))
      break
  finally:
    pass
  return fails, info


# ----------------------------------------------------------------------------------------------
# module API


def budget(tier):
  if tier == 'thorough':
    return {'cases': 300000, 'ctx_programs': 6400, 'max_depth': 4, 'wall_cap': 1150}
  return {'cases': 20000, 'ctx_programs': 560, 'max_depth': 3, 'wall_cap': 600}


def _do_call(acc, case, meta):
  fails, info = run_call(case)
  if info.get('slip'):
    acc.count('generator_slip')
    acc.notes.append(info['slip'][:200])
    return
  nt = call_nontrivial(case, meta, info)
  sample = None
  if nt and len(acc.samples) < acc.MAX_SAMPLES:
    sample = case
  acc.case(key=common.h8(case), nontrivial=nt, classes=call_classes(case, meta, info), sample=sample,
           size=len(json.dumps(case)))
  for b, d in fails:
    acc.fail(b, case, d)


def _do_ctx(acc, case, meta):
  fails, info = run_ctx(case)
  if info.get('slip'):
    acc.count('generator_slip')
    acc.notes.append(info['slip'][:200])
    if not info['runs']:
      return
  nt = info['deep_probes'] >= 1
  cls = ['ctx', 'ctx_entry=' + case['entry'], 'ctx_route=' + case.get('route', 'to_graph'), 'ctx_feat=%d' % case.get('feat', 0)] + list(meta)
  cls += ['ctx_executed_deep:' + k for k in sorted(info['kinds'])]
  sample = None
  if nt and acc.classes.get('ctx_samples', 0) < 2:
    acc.count('ctx_samples')
    sample = {'src': case['src'][len(_CTX_PRELUDE):], 'inputs': case['inputs'], 'entry': case['entry']}
    acc.samples.append(sample)
    sample = None
  acc.case(key=common.h8([case['src'], case['inputs'], case.get('route'), case.get('feat', 0)]), nontrivial=nt, classes=cls, sample=sample,
           n=max(1, info['runs']))
  acc.count('ctx_programs')
  for b, d in fails:
    acc.fail(b, case, d)


def shard(ctx, acc):
  # 1. deterministic covering table
  for idx, case in enumerate(covering_cases()):
    if idx % ctx.nshards != ctx.shard:
      continue
    _do_call(acc, case, cover_meta(case) + ['covering_table'])
  # 2. random call cases
  n = ctx.share('cases')

  def body(cm):
    case, meta = cm
    _do_call(acc, case, meta)

  common.hyp_run(ctx, call_cases(), body, n)
  # 3. context programs
  m = ctx.share('ctx_programs')
  md = ctx.budget.get('max_depth', 3)

  def body2(cm):
    case, meta, excluded = cm
    _do_ctx(acc, case, meta)
    for flag, k in sorted(excluded.items()):
      acc.count('excluded:' + flag, k)

  common.hyp_run(ctx, ctx_programs(max_depth=md), body2, m, extra_seed=1)


def replay(case):
  if case.get('kind') == 'ctx':
    fails, info = run_ctx(case)
  else:
    fails, info = run_call(case)
  return [{'bucket': b, 'detail': d} for b, d in fails]


def _smaller_specs(s):
  """Candidate simplifications of one value spec."""
  k = s[0]
  if k in ('list', 'tuple', 'set', 'frozenset', 'iter', 'titer', 'gen', 'citer'):
    items = s[1]
    for i in range(len(items)):
      yield [k, items[:i] + items[i + 1:]] + s[2:]
    if k != 'list':
      yield ['list', items]
  if k == 'int' and s[1] not in (0, 1):
    yield I(1)


def shrink(case, bucket, deadline):
  """Greedy spec-level shrinking for call cases (drop keywords / arguments' items, plain route)."""
  import time
  if case.get('kind') == 'ctx':
    return None

  def fails(c):
    try:
      return any(f['bucket'] == bucket for f in replay(c))
    except Exception:
      return False

  cur = json.loads(json.dumps(case))
  changed = True
  while changed and time.time() < deadline:
    changed = False
    cands = []
    if cur['route'] != 'overload':
      c = dict(cur, route='overload', args=cur.get('pargs', []) + cur['args'], kwargs=cur.get('pkw', []) + cur['kwargs'])
      c.pop('pargs', None)
      c.pop('pkw', None)
      cands.append(c)
    if cur.get('steps'):
      cands.append(dict(cur, steps=0))
    for i in range(len(cur['kwargs'])):
      cands.append(dict(cur, kwargs=cur['kwargs'][:i] + cur['kwargs'][i + 1:]))
    for i, a in enumerate(cur['args']):
      for s2 in _smaller_specs(a):
        cands.append(dict(cur, args=cur['args'][:i] + [s2] + cur['args'][i + 1:]))
    for i, (kname, a) in enumerate(cur['kwargs']):
      for s2 in _smaller_specs(a):
        cands.append(dict(cur, kwargs=cur['kwargs'][:i] + [[kname, s2]] + cur['kwargs'][i + 1:]))
    for c in cands:
      if time.time() >= deadline:
        break
      if fails(c):
        cur = c
        changed = True
        break
  return cur
