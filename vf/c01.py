"""C01 - conversion preserves Python semantics under the default operators.

Differential testing: generated programs (vf.progen) x inputs x configurations; the original
function and the converted one (malt.to_graph / malt.convert) are run on fresh, identically
constructed arguments and their observations (outcome, ordered effect log, post-state) compared
under the exemptions written into the property.
"""
import time

import hypothesis.strategies as st

from vf import common
from vf import diffobs
from vf import harness
from vf import progen
from vf import shrink as shrinker
from vf import c01_lists

ID = 'C01'
LEVEL = 'exploration'
TECHNIQUE = ('differential property-based testing: Hypothesis-generated programs x inputs x option sets x entry points x '
             'PYTHONHASHSEED, original vs converted function compared on ordered effect log, result, post-state and exception type; '
             'collect-then-shrink with an own statement-level ddmin')
RULE = ('programs drawn from the constructive grammar vf.progen (assignments, if/elif/else, while, for over range/list/tuple/'
        'unpacking/iterators, break/continue/return at any depth, try/except/finally with explicit raise, with, nested defs and '
        'lambdas with closures, nonlocal/global, comprehensions, conditional expressions, and/or/not with tracer operands, '
        'comparisons and chains, calls to helpers/builtins/methods/partials, attribute/subscript mutation, del), each run on 3-6 '
        'input pairs under a drawn configuration (entry point, recursive, features subset of {BUILTIN_FUNCTIONS, EQUALITY_OPERATORS}, '
        'spelling). One evaluation = one (program, config, input) differential run. Non-trivial = the function under test has a '
        'jump that is not the tail return or control nesting >= 2, AND the operator spy counted >= 1 if_stmt/while_stmt/for_stmt '
        'call while the converted function ran; distinct by SHA1 of (source, config). A LISTS sub-tier (vf/c01_lists.py, classes prefixed '
        '"lists:") adds programs with list literals / append / pop / item and slice reads and writes on locals and parameters under '
        'Feature.LISTS, same oracle.')
ASSUMPTIONS = [
    'observable behaviour = return value, ordered log of tracer/method/context-manager calls, post-state of o/d/l/module globals/closure cells, exception type',
    'values are ints/bools and containers of them; no user types with exotic __eq__/__bool__; exception messages not compared',
    'a finally/__exit__ that runs while an exception propagates ends the comparison of that run (property exemption)',
    'shapes of listed known findings are excluded by construction (see coverage.classes excluded:*)',
]
LEVEL_TEXT = ('Randomised differential exploration of the program x input x configuration space; every generated program is executed '
              'both ways, so any divergence on an explored case is a concrete counterexample. No claim beyond the cases counted.')
LEVEL_NOTE = ('Trusted: CPython as the reference semantics, the observation runtime vf/rt.py, the constructive generator keeping '
              'programs total/terminating. Out of reach: programs > ~40 statements, non-int data, exception messages.')

_KEEP = []
EXCL = ('no_for_target_rebind', 'no_lambda_capture_across_rebind', 'no_impure_chain_middle')


def HASHSEEDS(tier, seed):
  return ['0', '1', str((seed * 7919 + 13) % 4294967295)]


def budget(tier):
  if tier == 'thorough':
    return {'programs': 16000, 'max_depth': 4, 'budget': 40, 'shrink_s': 90, 'wall_cap': 3400,
            'list_programs': c01_lists.budget_share(tier)}
  return {'programs': 1100, 'max_depth': 3, 'budget': 26, 'shrink_s': 25, 'wall_cap': 900,
          'list_programs': c01_lists.budget_share(tier)}


CONFIGS = st.fixed_dictionaries({
    'entry': st.sampled_from(['to_graph', 'to_graph', 'convert']),
    'recursive': st.booleans(),
    'features': st.sampled_from([[], [], ['BUILTIN_FUNCTIONS'], ['EQUALITY_OPERATORS'],
                                 ['BUILTIN_FUNCTIONS', 'EQUALITY_OPERATORS'], ['EQUALITY_OPERATORS', 'BUILTIN_FUNCTIONS']]),
    'spelling': st.sampled_from(['tuple', 'single', 'list']),
})


def gen_cfg(b):
  return {'max_depth': b.get('max_depth', 3), 'budget': b.get('budget', 26), 'excl': EXCL}


def run_case(case, limit=10.0):
  """Executes the oracle. Returns (failures, info). failures: list of (bucket, detail)."""
  fails = []
  info = {'runs': 0, 'exempt': 0, 'spy': 0, 'helper_converted': False, 'outcomes': []}
  src, config = case['src'], case['config']
  try:
    mod = harness.load_module(src)
  except Exception as e:
    info['generator_slip'] = repr(e)
    return fails, info
  try:
    diffobs.SPY.install()
    for inp in case['inputs']:
      prog, cells = mod.make()
      o = diffobs.observe(prog, inp, mod, cells, limit)
      prog2, cells2 = mod.make()
      diffobs.SPY.reset()
      try:
        with diffobs.time_limit(30):
          conv = diffobs.convert_entry(prog2, config)
      except diffobs.Timeout:
        fails.append(('convert:timeout', {'input': inp}))
        break
      except Exception as e:
        fails.append(('convert:' + harness.exc_bucket(e), {'exc': repr(e)[:600]}))
        break
      c = diffobs.observe(conv, inp, mod, cells2, limit)
      info['runs'] += 1
      info['spy'] += sum(diffobs.SPY.counts.values())
      if any(n.startswith('ag__h') for n in diffobs.SPY.callers):
        info['helper_converted'] = True
      info['outcomes'].append(o['outcome'][0] if o['outcome'][0] != 'exc' else 'exc:' + o['outcome'][1])
      if o['prop'] is not None:
        info['exempt'] += 1
      r = diffobs.compare(o, c)
      if r is not None:
        b, d = r
        d = dict(d) if isinstance(d, dict) else {'detail': d}
        d['input'] = inp
        fails.append((b, d))
        break
  finally:
    # modules stay loaded for the life of the worker: malt's cache is keyed by code-object
    # *equality* through weak references, so letting an equal older code object die while a newer
    # equal one is being converted races the cache (finding F27, a C10 matter, not C01's)
    _KEEP.append(mod)
    harness.forget_generated(mod)
  return fails, info


def shard(ctx, acc):
  b = ctx.budget
  n = ctx.share('programs')
  strat = st.tuples(progen.programs(gen_cfg(b)), CONFIGS)

  def body(pc):
    prog, config = pc
    case = {'src': prog['src'], 'inputs': prog['inputs'], 'config': config, 'hashseed': ctx.hashseed}
    fails, info = run_case(case)
    nest, jump, ncomp = diffobs.structure(case['src'])
    nontriv = (jump or nest >= 2) and info['spy'] >= 1
    classes = ['entry=' + config['entry'], 'recursive=%s' % config['recursive'],
               'features=' + '+'.join(config['features']), 'hashseed=' + ctx.hashseed]
    classes += ['has:' + k for k in prog['meta'] if not k.startswith(('stmt:', 'helper:'))]
    classes += [k for k in prog['meta'] if k.startswith('excluded:')]
    if info.get('generator_slip'):
      classes.append('generator_slip')
      acc.notes.append(info['generator_slip'])
    if info['exempt']:
      classes.append('run_with_exempt_finally_propagation')
    if info['helper_converted']:
      classes.append('helper_converted_recursively')
    for oc in set(info['outcomes']):
      classes.append('orig_outcome=' + oc)
    if jump:
      classes.append('nontail_jump')
    if nest >= 2:
      classes.append('nesting>=2')
    sample = None
    if nontriv and (len(acc.samples) < acc.MAX_SAMPLES or ncomp > (acc.biggest[0] if acc.biggest else 0)):
      sample = {'src': case['src'], 'inputs': case['inputs'], 'config': config}
    acc.case(key=common.h8([case['src'], config]), nontrivial=nontriv, classes=classes, sample=sample, size=ncomp,
             n=max(1, info['runs']))
    acc.count('programs')
    for bkt, d in fails:
      acc.fail(bkt, case, d)

  common.hyp_run(ctx, strat, body, n)
  # LISTS sub-tier: list operations on locals/parameters under Feature.LISTS (vf/c01_lists.py)
  c01_lists.run_shard(ctx, acc)


def replay(case):
  if case.get('kind') == 'lists':
    return c01_lists.replay(case)
  fails, info = run_case(case)
  return [{'bucket': b, 'detail': d} for b, d in fails]


def shrink(case, bucket, deadline):
  if case.get('kind') == 'lists':
    return c01_lists.shrink(case, bucket, deadline)
  return shrinker.shrink_case(case, bucket, replay, deadline)
