"""Dev-only sensitivity runner (not a registered check).

  python -m vf.sens <ID> <patch> [quick|thorough]      one mutant
  python -m vf.sens --all [ID ...]                     every mutants/<ID>/*.patch and seeded/*/patch.diff

Each mutant is applied to a scratch copy of /repo under a temp dir (outside /repo and /verif), the
check is run against it with VF_REPO / VF_OUT redirected, and the copy is removed.
"""
import json
import os
import shutil
import subprocess
import sys
import tempfile
import time
from concurrent.futures import ThreadPoolExecutor

ROOT = os.path.dirname(os.path.dirname(os.path.abspath(__file__)))


def run_one(pid, patch, tier='quick', seed='1', keep_out=False):
  d = tempfile.mkdtemp(prefix='vfmut_')
  try:
    repo = os.path.join(d, 'repo')
    os.makedirs(repo)
    shutil.copytree('/repo/malt', os.path.join(repo, 'malt'))
    r = subprocess.run(['patch', '-p1', '-s', '-i', os.path.abspath(patch)], cwd=repo, capture_output=True, text=True)
    if r.returncode != 0:
      return {'pid': pid, 'patch': patch, 'rc': 'patch-failed', 'tail': r.stdout + r.stderr}
    env = dict(os.environ, VF_REPO=repo, VF_OUT=os.path.join(d, 'out'), VERIF_SEED=seed)
    t0 = time.time()
    r = subprocess.run([os.path.join(ROOT, 'check'), pid, tier], env=env, capture_output=True, text=True)
    out = r.stdout + r.stderr
    lines = [l for l in out.splitlines() if l.startswith(('VIOLATION', 'FAIL', 'HARNESS'))]
    return {'pid': pid, 'patch': os.path.relpath(patch, ROOT), 'rc': r.returncode, 'wall': round(time.time() - t0, 1),
            'tail': '\n'.join(lines[:6]) if lines else out[-600:]}
  finally:
    shutil.rmtree(d, ignore_errors=True)


def collect(ids):
  jobs = []
  md = os.path.join(ROOT, 'mutants')
  if os.path.isdir(md):
    for pid in sorted(os.listdir(md)):
      if ids and pid not in ids:
        continue
      for n in sorted(os.listdir(os.path.join(md, pid))):
        if n.endswith(('.patch', '.diff')):
          jobs.append((pid, os.path.join(md, pid, n)))
  sd = os.path.join(ROOT, 'seeded')
  if os.path.isdir(sd):
    for n in sorted(os.listdir(sd)):
      meta = os.path.join(sd, n, 'meta.json')
      pf = os.path.join(sd, n, 'patch.diff')
      if os.path.exists(meta) and os.path.exists(pf):
        with open(meta) as f:
          m = json.load(f)
        if m.get('obsolete'):
          print('OBSOLETE %-4s %-55s %s' % (m['property'], os.path.relpath(pf, ROOT), m['obsolete'][:110]))
          continue
        for pid in m.get('checks', [m['property']]):
          if ids and pid not in ids:
            continue
          jobs.append((pid, pf))
  return jobs


def main(argv):
  if argv and argv[0] == '--all':
    tier = 'quick'
    ids = [a for a in argv[1:] if a not in ('quick', 'thorough')]
    if 'thorough' in argv:
      tier = 'thorough'
    jobs = collect(set(ids))
    with ThreadPoolExecutor(3) as ex:
      res = list(ex.map(lambda j: run_one(j[0], j[1], tier), jobs))
    missed = 0
    for r in res:
      status = 'KILLED' if r['rc'] == 1 else ('MISSED' if r['rc'] == 0 else 'ERROR rc=%s' % r['rc'])
      if r['rc'] != 1:
        missed += 1
      first = r['tail'].splitlines()[0][:150] if r['tail'] else ''
      print('%-8s %-4s %-55s %6ss  %s' % (status, r['pid'], r['patch'], r.get('wall', '-'), first))
    print('%d mutants, %d not killed' % (len(res), missed))
    return 0
  pid, patch = argv[0], argv[1]
  tier = argv[2] if len(argv) > 2 else 'quick'
  r = run_one(pid, patch, tier)
  print(json.dumps(r, indent=1))
  return 0


if __name__ == '__main__':
  sys.exit(main(sys.argv[1:]))
