"""C17 - generated code is a well-formed tree that loads as what to_code shows.

Every conversion of a generated program is intercepted at malt.pyct.loader.load_ast: the node list
handed to the loader must be a proper tree (no node object twice), must compile, and re-parsing
its unparsed text must give a structurally identical tree; to_code must be the text of the module
that to_graph actually loaded, and the loaded code object must equal a fresh compile of that file.
"""
import ast
import copy
import inspect
import textwrap

import hypothesis.strategies as st

import malt
from malt.pyct import loader
from malt.pyct import parser
from vf import common
from vf import diffobs
from vf import harness
from vf import progen
from vf import shrink as shrinker

ID = 'C17'
LEVEL = 'exploration'
TECHNIQUE = ('property-based testing with round-trip oracles: generated programs (incl. an unusual-literal expression grammar) x option sets are '
             'converted while loader.load_ast is intercepted; tree-ness by identity walk, CPython compile as context validator, '
             'unparse->parse structural round trip, to_code text vs loaded module text, loaded code object vs fresh compile')
RULE = ('programs from vf.progen with unusual literal forms enabled (negative numbers, nested f-strings with format specs and conversions, '
        'tuples/slices/starred in subscripts, starred displays and calls, walrus, chained comparisons, lambdas in defaults, Ellipsis, bytes, '
        'complex, numeric spellings, quote/escape mixes, negative-index stores, subscript deletion) x option sets incl. LISTS and '
        'ASSERT_STATEMENTS x recursive. One evaluation = one conversion checked (all five clauses). Non-trivial = the function under test '
        'uses >= 2 unusual-literal forms and contains control flow; distinct by SHA1 of (source, options).')
ASSUMPTIONS = [
    'ast.dump equality (attributes excluded) is the notion of structural identity; expr_context / operator singletons may be shared between positions',
    'only the structural clauses are checked here (behaviour is C01); programs are not executed, so option sets that change semantics (LISTS) are included',
]
LEVEL_TEXT = 'Randomised exploration; each conversion is checked by exact structural oracles, so any inconsistency between tree and text is a concrete counterexample.'
LEVEL_NOTE = 'Trusted: CPython ast.parse / compile / ast.dump as reference; interception of loader.load_ast.'

GEN = {'unusual': 7, 'def_extras': 50, 'bare_defs': 25, 'excl': ()}
_KEEP = []
SHARED_OK = (ast.expr_context, ast.operator, ast.unaryop, ast.cmpop, ast.boolop)
FEATURE_SETS = [[], [], ['BUILTIN_FUNCTIONS'], ['EQUALITY_OPERATORS'], ['LISTS'], ['ASSERT_STATEMENTS'],
                ['LISTS', 'EQUALITY_OPERATORS', 'BUILTIN_FUNCTIONS'], ['LISTS', 'ASSERT_STATEMENTS']]


def budget(tier):
  if tier == 'thorough':
    return {'programs': 12000, 'max_depth': 4, 'budget': 36, 'shrink_s': 60, 'wall_cap': 3000}
  return {'programs': 900, 'max_depth': 3, 'budget': 26, 'shrink_s': 20, 'wall_cap': 600}


class _Capture(object):
  def __init__(self):
    self.calls = []

  def __enter__(self):
    self.orig = loader.load_ast
    cap = self

    def wrapped(nodes, *a, **k):
      res = cap.orig(nodes, *a, **k)
      cap.calls.append((nodes if isinstance(nodes, (list, tuple)) else (nodes,), res))
      return res
    loader.load_ast = wrapped
    return self

  def __exit__(self, *a):
    loader.load_ast = self.orig
    return False


def tree_checks(nodes, source, fails):
  # (1) proper tree
  seen = {}
  for root in nodes:
    for n in ast.walk(root):
      if isinstance(n, SHARED_OK):
        continue
      if id(n) in seen:
        fails.append(('tree:node-occurs-twice', {'node': type(n).__name__, 'text': _safe_unparse(n)[:120]}))
        return
      seen[id(n)] = n
  mod = ast.Module(body=list(nodes), type_ignores=[])
  # (2) compiles (context validator)
  try:
    m2 = copy.deepcopy(mod)
    ast.fix_missing_locations(m2)
    compile(m2, '<c17-tree>', 'exec')
  except Exception as e:
    fails.append(('tree:does-not-compile:' + type(e).__name__, {'exc': repr(e)[:300]}))
    return
  # (3) unparse -> parse round trip
  try:
    text = parser.unparse(list(nodes))
    reparsed = ast.parse(text)
  except Exception as e:
    fails.append(('roundtrip:unparse-or-parse-fails:' + type(e).__name__, {'exc': repr(e)[:300]}))
    return
  a, b = _dump(mod), _dump(reparsed)
  if a != b:
    i = 0
    while i < min(len(a), len(b)) and a[i] == b[i]:
      i += 1
    fails.append(('roundtrip:tree-differs-from-reparsed-text', {'tree': a[max(0, i - 80):i + 120], 'reparsed': b[max(0, i - 80):i + 120]}))
  if source is not None and text != source:
    fails.append(('roundtrip:loader-source-differs-from-unparse', {}))


def _dump(n):
  """Structural dump that ignores malt's annotation pseudo-field (___pyct_anno) and attributes."""
  if isinstance(n, ast.AST):
    parts = []
    for f in n._fields:
      if f.startswith('___'):
        continue
      parts.append('%s=%s' % (f, _dump(getattr(n, f, None))))
    return '%s(%s)' % (type(n).__name__, ', '.join(parts))
  if isinstance(n, (list, tuple)):
    return '[%s]' % ', '.join(_dump(x) for x in n)
  return repr(n)


def _safe_unparse(n):
  try:
    return ast.unparse(n)
  except Exception:
    return type(n).__name__


def _code_skeleton(code):
  consts = []
  for c in code.co_consts:
    if hasattr(c, 'co_code'):
      consts.append(_code_skeleton(c))
    else:
      consts.append(repr(c))
  return (code.co_name, code.co_code, code.co_names, code.co_varnames, code.co_freevars, code.co_cellvars, tuple(consts))


def _find_code(code, name):
  if code.co_name == name:
    return code
  for c in code.co_consts:
    if hasattr(c, 'co_code'):
      r = _find_code(c, name)
      if r is not None:
        return r
  return None


def run_case(case):
  fails = []
  info = {'conversions': 0}
  src, config = case['src'], case['config']
  try:
    mod = harness.load_module(src)
  except Exception as e:
    info['generator_slip'] = repr(e)
    return fails, info
  _KEEP.append(mod)
  feats = diffobs.features_arg(config['features'], 'tuple')
  try:
    prog, cells = mod.make()
    with _Capture() as cap:
      try:
        with diffobs.time_limit(60):
          conv = malt.to_graph(prog, recursive=config['recursive'], experimental_optional_features=feats)
      except Exception as e:
        msg = str(e)
        kind = 'inconsistent-asts' if 'Inconsistent ASTs' in msg else harness.exc_bucket(e)
        fails.append(('convert:' + kind, {'exc': msg[:500]}))
        # still check the tree that was handed to the loader, if any
        conv = None
    for nodes, res in cap.calls:
      info['conversions'] += 1
      source = res[1] if isinstance(res, tuple) and len(res) > 1 else None
      tree_checks(nodes, source, fails)
    if conv is not None:
      # (4) to_code is the text of the loaded module
      try:
        text = malt.to_code(prog, recursive=config['recursive'], experimental_optional_features=feats)
        path = conv.ag_module.__file__
        file_text = open(path, encoding='utf-8').read()
        ftree = ast.parse(file_text)
        seg = None
        for n in ast.walk(ftree):
          if isinstance(n, ast.FunctionDef) and n.name == conv.__name__:
            seg = ast.get_source_segment(file_text, n, padded=True)
            break
        if seg is None:
          fails.append(('to_code:function-not-in-loaded-module', {'name': conv.__name__}))
        elif textwrap.dedent(seg).strip() != textwrap.dedent(text).strip():
          fails.append(('to_code:differs-from-loaded-module-text', {'to_code': text[:300], 'module': textwrap.dedent(seg)[:300]}))
        fresh = _find_code(compile(file_text, path, 'exec'), conv.__name__)
        if fresh is None or _code_skeleton(fresh) != _code_skeleton(conv.__code__):
          fails.append(('loaded:code-differs-from-compile-of-module-file', {'name': conv.__name__}))
      except Exception as e:
        fails.append(('to_code:' + harness.exc_bucket(e), {'exc': repr(e)[:300]}))
  finally:
    harness.forget_generated(mod)
  out, seen = [], set()
  for b, d in fails:
    if b not in seen:
      seen.add(b)
      out.append((b, d))
  return out, info


CONFIGS = st.fixed_dictionaries({'recursive': st.booleans(), 'features': st.sampled_from(FEATURE_SETS)})


def shard(ctx, acc):
  b = ctx.budget
  cfg = dict(GEN, max_depth=b['max_depth'], budget=b['budget'])

  def body(pc):
    prog, config = pc
    case = {'src': prog['src'], 'config': config}
    fails, info = run_case(case)
    nu = prog['meta'].get('unusual_literal', 0)
    try:
      nest, jump, ncomp = diffobs.structure(case['src'])
    except SyntaxError:
      nest, jump, ncomp = 0, False, 0
    nt = nu >= 2 and ncomp >= 1
    cls = ['features=' + '+'.join(config['features']), 'unusual_forms=%d' % min(nu, 6)]
    cls += [k for k in prog['meta'] if k.startswith('excluded:')]
    for k in ('subscript_delete', 'def_with_default_and_decorator', 'chained_compare', 'lambda_def', 'comprehension', 'print_call'):
      if k in prog['meta']:
        cls.append('has:' + k)
    cls += ['has:' + k for k in prog['meta'] if k.startswith(('bare_def:', 'def_signature:', 'for_starred_target'))]
    if info.get('generator_slip'):
      cls.append('generator_slip')
      acc.notes.append(info['generator_slip'])
    sample = {'src': case['src'], 'config': config} if nt and len(acc.samples) < acc.MAX_SAMPLES else None
    acc.case(key=common.h8([case['src'], config]), nontrivial=nt, classes=cls, sample=sample, n=max(1, info['conversions']))
    for bkt, d in fails:
      acc.fail(bkt, case, d)

  common.hyp_run(ctx, st.tuples(progen.programs(cfg), CONFIGS), body, ctx.share('programs'))


def replay(case):
  fails, _ = run_case(case)
  return [{'bucket': b, 'detail': d} for b, d in fails]


def shrink(case, bucket, deadline):
  def still(src):
    return any(f['bucket'] == bucket for f in replay(dict(case, src=src)))
  return dict(case, src=shrinker.shrink_src(case['src'], still, deadline))
