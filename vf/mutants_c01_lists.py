"""Hand-written sensitivity mutants of the LISTS machinery (C01, LISTS sub-tier; vf/c01_lists.py).

All are invisible to the default C01 grammar (nothing there goes through the list operators); each must be
killed by the LISTS sub-tier at the quick budget."""
MUTANTS = {
 'C01': [
  ('l1_list_pop_returns_first_element', 'malt/operators/data_structures.py',
   "    x = list_.pop()\n", "    x = list_.pop(0)\n"),
  ('l2_list_append_drops_first_item', 'malt/operators/data_structures.py',
   "  list_.append(x)\n  return list_", "  if list_:\n    list_.append(x)\n  return list_"),
  ('l3_set_item_ignores_negative_index', 'malt/operators/slices.py',
   "  target[i] = x\n  return target", "  if not (isinstance(i, int) and i < 0):\n    target[i] = x\n  return target"),
  ('l4_pop_var_name_collision', 'malt/converters/lists.py',
   "    pop_var_name = self.ctx.namer.new_symbol(target_name, scope.referenced)",
   "    pop_var_name = self.ctx.namer.new_symbol(target_name, scope.referenced) if not self.state[_Statement].pop_uses else self.state[_Statement].pop_uses[0][1]"),
  ('l5_pop_index_argument_dropped', 'malt/converters/lists.py',
   "      pop_element = original_call_node.args[0]", "      pop_element = parser.parse_expression('None')"),
  ('l6_get_item_negative_index_shifted', 'malt/operators/slices.py',
   "  return target[i]", "  return target[i + 1] if isinstance(i, int) and i < -1 else target[i]"),
  ('l7_pop_operations_emitted_in_reverse_order', 'malt/converters/lists.py',
   "      for original_call_node, pop_var_name in pop_uses:", "      for original_call_node, pop_var_name in reversed(pop_uses):"),
  ('l8_slice_store_loses_upper_bound', 'malt/converters/slices.py',
   '      upper_str = "upper" if s.upper is not None else "None"\n      step_str = "step" if s.step is not None else "None"\n      template = template.replace("key"',
   '      upper_str = "None"\n      step_str = "step" if s.step is not None else "None"\n      template = template.replace("key"'),
 ],
}
