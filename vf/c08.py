"""C08 - scope (activity) analysis matches Python's own binding rules.

Generator: an own *binding grammar* (not vf.progen): one top-level function `root` holding a tree of
nested defs / lambdas / classes / comprehensions (scope depth <= 4-5) over a five-name pool. Every
scope first draws a role per pool name (param / local / declared global / declared nonlocal / free /
absent) and then emits statements consistent with the roles, so the module compiles by construction
(nonlocal only where an enclosing function binding exists, declarations before use, no walrus on an
iteration variable, ...). All values are instances of one universal class `V` (callable, iterable,
subscriptable, context manager, arithmetic, formattable, mapping-like for `**`), so programs are total
apart from unbound-variable reads.
Expressions also place reads (and walruses, lambdas, comprehensions) in the "out of the way" fields of
expression nodes: f-string replacement fields with conversions, debug specifiers, constant and *nested*
format specs (`f"{v!r:>{w}.{p}}"`, two levels deep, also inside lambdas / comprehensions / class bodies /
other f-strings; a nested field prefers a name the scope has not read yet, so that this read alone decides
the name's free/global classification), slice bounds and tuple indices (also on bases without a qualified
name), list/tuple/set/dict displays with `*` / `**` items, `*` / `**` call arguments, chained comparisons,
unary minus, calls on call results (classes has:fstring*, has:slice, has:subscript_*, has:display_*,
has:call_*). CPython 3.12.1 cannot compile a debug specifier inside a nested field (f"{w:{w=}}" raises
ValueError from the compiler): that shape is never written.

Static oracle: `symtable.symtable(source)` is CPython's answer. The vocabulary mapping is

    params(F)            == keys of Static.SCOPE(F.args).params                      (simple names)
    declared_global(F)   == ARGS_AND_BODY_SCOPE(F).globals == BODY_SCOPE(F).globals
    declared_nonlocal(F) == ARGS_AND_BODY_SCOPE(F).nonlocals == BODY_SCOPE(F).nonlocals
    locals(F)            == bound - globals - nonlocals - params          where CPython's side is
                            {is_local and not is_parameter}; names bound *only* as comprehension
                            target or `except ... as` name may be missing (property exemption)
    free(F)              == read - (bound - globals - nonlocals)          where CPython's side is
                            needF(F) | needG(F): names F or a scope below references and that resolve
                            outside F (needF: through closures, needG: to module globals/builtins).
                            Names a *descendant* declares `global` are don't-care (CPython assigns
                            nothing to F for them and malt reports them only when the descendant does
                            not also assign them).
    no statement scope of F may report a parameter (Scope.params) that is not a parameter of F.
    a def/lambda the analysis left without scope annotations is reported (static:no_scope): it reports nothing for it.

Dynamic oracle: the original module is executed under sys.settrace with f_trace_opcodes; every
LOAD_/STORE_/DELETE_ {FAST,DEREF,NAME,GLOBAL,ATTR,SUBSCR} instruction is mapped through its exact
co_positions span to the AST node it implements (Name / Attribute / Subscript / def / class / import)
and that node to the innermost statement (or lambda) whose activity scope must list it:
loads -> read, stores -> modified, deletes -> deleted. Compiler-synthesised accesses (comprehension
save/restore, except-name cleanup, __class__ cells) have no AST node at their span and are skipped;
reads/writes of comprehension iteration variables and `except ... as` names are exempt by the property.

Oracle calibrations (each was a false alarm on the unchanged tree, triaged as over-reach):
  * the analysed function must not be called `top`: symtable names the module block "top" and
    Symbol.is_global()/is_local() treat every block of that name as the module block;
  * a scope's own declared globals/nonlocals count as resolving outside it (malt keeps them in `bound`);
  * names a descendant declares `global`: don't-care in the free sets above it;
  * a def/lambda written inside a comprehension: the iteration variables are don't-care in its free set
    and in those of the functions around it (property exemption; what CPython reports depends on inlining);
  * CPython 3.12 artefact: the variable of an inlined comprehension becomes a local of the function and
    captures same-named references of that function / of nested scopes (3.11 and the language resolve
    them further out, and so does malt): such names are don't-care in the free sets of that function and above;
  * bindings of an except-clause name inside its own handler share the except-name exemption;
  * compiler-synthesised stores/deletes carry the span of a neighbouring node: an access is only demanded
    when the AST node at its span has the matching context (Store/Del/Load);
  * a walrus in the iterable of a `for` statement is demanded from the iterable's scope only.
Degenerate shapes the generator never writes (they are unbound reads by construction): a comprehension
clause reading the variable of a later generator, a later iterable reading its own generator's variable.
CPython 3.12.1 delivers no opcode events in the first tracing session of a process: a throw-away session
runs first (see _warm_session).
"""
import ast
import collections
import os
import symtable
import sys

import hypothesis.strategies as st

from malt.pyct import anno
from malt.pyct import naming
from malt.pyct import qual_names
from malt.pyct import transformer
from malt.pyct.static_analysis import activity
from malt.pyct.static_analysis.annos import NodeAnno

from vf import common
from vf import harness
from vf import shrink as shrinker

ID = 'C08'
LEVEL = 'exploration'
TECHNIQUE = ('property-based testing with two independent oracles: (static) Hypothesis-generated binding trees (nested defs, lambdas, '
             'classes, comprehensions, global/nonlocal, all parameter kinds, annotations, decorators, defaults, imports, with/except/for '
             'targets, attribute and subscript targets, walrus, del, f-strings with nested format specs, slices, displays and calls with unpacking) analysed by malt and compared per function with CPython\'s own symbol '
             'table (stdlib symtable); (dynamic) the same program executed under sys.settrace with opcode events, every executed name '
             'load/store/delete mapped by co_positions to its AST node and checked against the read/modified/deleted set of the statement '
             '(or lambda) that contains it')
RULE = ('one evaluation = one generated module (static clauses on every function and lambda below `root`; dynamic clauses on one traced call '
        'of `root` with a drawn truth-value sequence). Non-trivial = the tree has >= 2 function scopes nested in each other (def or lambda '
        'below `root`) AND some pool name is classified differently (parameter / local / declared global / declared nonlocal / free / implicit '
        'global) in two function scopes of the tree, both facts read off CPython\'s symbol table; distinct by SHA1 of the source.')
ASSUMPTIONS = [
    'CPython 3.12 symtable is the reference; comprehension iteration variables (inlined into the enclosing table by 3.12) and except-clause names may be missing from malt\'s bound set (property exemption) but only when they have no other binding occurrence in the function',
    'malt vocabulary: params live on the scope of the `arguments` node; bound includes params and declared nonlocals by design, so locals = bound - globals - nonlocals - params and free = read - (bound - globals - nonlocals)',
    'names that a nested scope declares `global` are don\'t-care in the enclosing function\'s free set (CPython assigns them to the nested scope only)',
    'iteration variables of comprehensions are don\'t-care in the free sets of defs/lambdas written inside the comprehension and of the functions around them; names that CPython 3.12 resolves to an inlined comprehension variable (3.11 and malt resolve them further out) are don\'t-care in the free sets of that function and above',
    'dynamic clause: only accesses that have an AST node at their exact source span are demanded; accesses to comprehension iteration variables and except-clause names are exempt; a lambda\'s accesses are matched against the lambda\'s own scope; the header of an except clause is matched against the enclosing function body scope (it has no scope of its own)',
    'a run that ends in an exception (unbound variable) is checked up to that point',
    'shapes of listed findings are excluded by construction (coverage.classes excluded:*)',
]
LEVEL_TEXT = ('Randomised exploration of the space of binding trees; each generated function is compared with the interpreter\'s own symbol table '
              'and each executed access with the interpreter\'s own instruction stream. No claim beyond the cases counted.')
LEVEL_NOTE = ('Trusted: stdlib symtable and CPython 3.12 co_positions; the parallel walk that pairs symtable blocks with AST nodes (checked on every '
              'case: parameter lists, child counts, identifier containment; unpaired cases are counted, never reported); the universal value class '
              'that keeps programs total. Outside: async constructs, match statements, type-parameter scopes, star-imports, name mangling.')

# Exclusion flags (DESIGN 1.5): shapes of reported findings, removed from the generator by construction.
#   F09_nested_param_leak        parameters of a def/lambda leak into the defining scope's bound/params
#   FC08a_param_annotation_reads  names read by parameter annotations are missing from the def statement's read set
#   FC08b_walrus_in_comprehension a walrus target inside a comprehension is treated as an iteration variable
#   FC08c_nonlocal_passthrough    `nonlocal n` in H resolving above the directly enclosing function F: n missing from free(F)
#   FC08d_class_binding_captures  a class-level binding hides reads of the same name made by methods/lambdas/comprehension bodies
#   FC08e_lambda_in_first_iterable a lambda in the first iterable of a comprehension that reads a name also used as iteration variable
#                               loses that read (the iterable is visited twice, the second visit overwrites the lambda's scopes)
# F09, FC08a, FC08b, FC08c and FC08e were repaired in /repo (fix: commits): their shapes are generated again
EXCL = ('FC08d_class_binding_captures',)
if os.environ.get('VF_C08_EXCL') is not None:   # dev only: comma list overriding the exclusions
  EXCL = tuple(x for x in os.environ['VF_C08_EXCL'].split(',') if x)

POOL = ('x', 'y', 'z', 'w', 'v')
FILENAME = '<c08>'


def budget(tier):
  if tier == 'thorough':
    return {'programs': 50000, 'stmts': 34, 'max_scope_depth': 5, 'shrink_s': 60, 'wall_cap': 1150}
  return {'programs': 5000, 'stmts': 22, 'max_scope_depth': 4, 'shrink_s': 15, 'wall_cap': 300}


# ================================================================================================
# generated module prelude

PRELUDE = '''\
import sys as _sys
_BITS = [1]
_POS = [0]
def _bit():
  b = _BITS[_POS[0] % len(_BITS)]
  _POS[0] += 1
  return b
class V(object):
  def __init__(self, fn=None):
    object.__setattr__(self, '_fn', fn)
  def __getattr__(self, n):
    if n.startswith('_'):
      raise AttributeError(n)
    return V()
  def __setattr__(self, n, v):
    pass
  def __delattr__(self, n):
    pass
  def __getitem__(self, k):
    return V()
  def __setitem__(self, k, v):
    pass
  def __delitem__(self, k):
    pass
  def __iter__(self):
    return iter((V(), V()))
  def __bool__(self):
    return bool(_bit())
  def __call__(self, *a, **k):
    fn = self._fn
    if fn is None:
      return V()
    c = fn.__code__
    nd = len(fn.__defaults__ or ())
    kd = fn.__kwdefaults__ or {}
    names = c.co_varnames[c.co_argcount:c.co_argcount + c.co_kwonlyargcount]
    return fn(*[V() for _ in range(c.co_argcount - nd)], **dict((n, V()) for n in names if n not in kd))
  def __enter__(self):
    return V()
  def __exit__(self, *a):
    return False
  def __add__(self, o):
    return V()
  __radd__ = __sub__ = __rsub__ = __mul__ = __rmul__ = __add__
  def __lt__(self, o):
    return V()
  __gt__ = __le__ = __ge__ = __lt__
  def __eq__(self, o):
    return self is o
  def __hash__(self):
    return 1
  def __neg__(self):
    return V()
  def __format__(self, spec):
    return '1'
  def keys(self):
    return ()
def fv(f):
  return V(f)
def deco(f):
  return f
def deco2(*a, **k):
  return deco
def tot(*a, **k):
  for q in a:
    if not isinstance(q, V):
      try:
        it = iter(q)
      except TypeError:
        continue
      for _ in it:
        pass
  return V()
class E1(Exception):
  pass
_sys.modules['vfm08'] = V()
x = V(); y = V(); z = V(); w = V(); v = V()
'''


# ================================================================================================
# generator

_INTS = {}


def _ints(n):
  s = _INTS.get(n)
  if s is None:
    s = _INTS[n] = st.integers(0, n - 1)
  return s


class Sc(object):
  """One Python scope of the generated tree."""

  def __init__(self, kind, parent):
    self.kind = kind            # 'func' | 'lambda' | 'class'
    self.parent = parent
    self.roles = {}             # pool name -> param|local|global|nonlocal|free|none
    self.params = []
    self.bound_now = set()      # names certainly bound at the current program point
    self.pending = []           # [(keyword, name)] declarations still to be placed inside a block
    self.oblig = set()          # local-role names that have no binding occurrence yet
    self.comp = []              # stack of active comprehension target sets
    self.in_iter = 0            # > 0 while generating a comprehension iterable
    self.no_walrus = False
    self.depth = 0 if parent is None else parent.depth + 1
    self.loops = []             # 'for' | 'while'
    self.in_class_comp = 0
    self.inherited = set()      # iteration variables of comprehensions enclosing this lambda
    self.within_comp = False    # lambda written inside a comprehension
    self.starnames = set()      # *args / **kwargs parameter names (hold a tuple / dict, not a V)
    self.in_handler = 0
    self.avoid = set()          # iteration variables of the generator whose iterable is being written
    self.nest = 0               # block nesting inside this scope
    self.seen_reads = set()     # pool names rname() has handed out in this scope so far

  def pending_names(self):
    return set(n for _, n in self.pending)


class Gen(object):

  def __init__(self, draw, cfg):
    self.draw = draw
    self.cfg = cfg
    self.excl = set(cfg.get('excl', EXCL))
    self.lines = []
    self.budget = cfg.get('stmts', 22)
    self.maxd = cfg.get('max_scope_depth', 4)
    self.nf = 0
    self.nc = 0
    self.meta = collections.Counter()
    self.iter_lams = []
    self.fnest = 0
    self.module_sc = Sc('func', None)
    for n in POOL:
      self.module_sc.roles[n] = 'global'

  # ---- draws
  def i(self, n):
    return self.draw(_ints(n)) if n > 1 else 0

  def chance(self, pct):
    return self.i(100) < pct

  def pick(self, seq):
    seq = list(seq)
    return seq[self.i(len(seq))]

  def emit(self, ind, text):
    self.lines.append('  ' * ind + text)

  def note(self, k):
    self.meta[k] += 1

  # ---- name classes
  def role(self, sc, n):
    return sc.roles.get(n, 'none')

  def active_targets(self, sc):
    out = set(sc.inherited)
    for s in sc.comp:
      out |= s
    return out

  def readable(self, sc, n):
    r = self.role(sc, n)
    if r == 'none' or n in sc.pending_names() or n in sc.avoid:
      return False
    if sc.kind == 'class' and sc.in_class_comp and r in ('local', 'global', 'nonlocal') \
        and 'FC08d_class_binding_captures' in self.excl:
      self.note('excluded:FC08d_class_binding_captures')
      return False
    return True

  def safe(self, sc, n):
    """n can be read here without an unbound-variable error and holds a V (best effort)."""
    r = self.role(sc, n)
    if n in sc.starnames:
      return False
    if r in ('free', 'nonlocal'):
      p = sc.parent
      while p is not None:
        if p.kind != 'class':
          rp = self.role(p, n)
          if rp == 'param':
            return n not in p.starnames
          if rp == 'local':
            return n in p.bound_now
          if rp == 'global':
            return True
        p = p.parent
      return True
    return r in ('param', 'global') or n in sc.bound_now

  def bindable(self, sc, n):
    return self.role(sc, n) in ('param', 'local', 'global', 'nonlocal') and n not in sc.pending_names()

  def rname(self, sc):
    n = self._rname(sc)
    sc.seen_reads.add(n)
    return n

  def _rname(self, sc):
    t = sorted(self.active_targets(sc) - sc.avoid)
    if t and self.chance(55):
      return self.pick(t)
    cand = [n for n in POOL if self.readable(sc, n)]
    if not cand:
      return self.pick(('tot', '1', 'deco'))
    safe = [n for n in cand if self.safe(sc, n)]
    if safe and self.chance(95):
      return self.pick(safe)
    return self.pick(cand)

  def fresh_rname(self, sc):
    """A readable pool name this scope has not read yet (None when there is none): a read placed in an
    out-of-the-way sub-expression is then likely the only one that makes the name free/global here."""
    act = self.active_targets(sc)
    cand = [n for n in POOL if n not in sc.seen_reads and n not in act and self.readable(sc, n) and self.safe(sc, n)
            and self.role(sc, n) in ('free', 'global', 'nonlocal', 'param')]
    if not cand:
      return None
    n = self.pick(cand)
    sc.seen_reads.add(n)
    return n

  def bname(self, sc):
    """A simple name that may be bound in sc at this point (None when there is none)."""
    ob = sorted(n for n in sc.oblig if self.bindable(sc, n))
    if ob and self.chance(60):
      return self.pick(ob)
    cand = [n for n in POOL if self.bindable(sc, n)]
    if not cand:
      return None
    return self.pick(cand)

  def did_bind(self, sc, n, really=True):
    sc.oblig.discard(n)
    if really:
      sc.bound_now.add(n)

  # ---- expressions
  def composite(self, sc):
    n = self.rname(sc)
    if not n.isidentifier() or n in ('tot', 'deco'):
      n = 'tot()'
    k = self.i(7)
    if k == 0:
      return n + '.a'
    if k == 1:
      return n + '.b'
    if k == 2:
      return n + '[0]'
    if k == 3:
      return n + "['k']"
    if k == 4:
      return '%s[%s]' % (n, self.rname(sc))
    if k == 5:
      return n + '.a.b'
    return n + '.a[0]'

  def atom(self, sc):
    k = self.i(10)
    if k < 6:
      return self.rname(sc)
    if k < 9:
      return self.composite(sc)
    return 'V()'

  def expr(self, sc, d=2):
    if d <= 0:
      return self.atom(sc)
    k = self.i(28)
    if k >= 24:
      if k < 26:
        return self.fstring(sc, d)
      if k == 26:
        return self.slicing(sc, d) if self.chance(50) else self.display(sc, d)
      return self.unpack_call_or_operator(sc, d)
    if k < 7:
      return self.atom(sc)
    if k < 9:
      return '(%s + %s)' % (self.expr(sc, d - 1), self.expr(sc, d - 1))
    if k == 9:
      return '(%s < %s)' % (self.expr(sc, d - 1), self.expr(sc, d - 1))
    if k == 10:
      return '(%s %s %s)' % (self.expr(sc, d - 1), self.pick(('and', 'or')), self.expr(sc, d - 1))
    if k == 11:
      return 'tot(not %s)' % self.expr(sc, d - 1)
    if k == 12:
      return '(%s if %s else %s)' % (self.expr(sc, d - 1), self.expr(sc, d - 1), self.expr(sc, d - 1))
    if k == 13:
      j = self.i(3)
      if j == 0:
        return 'tot(%s, %s)' % (self.expr(sc, d - 1), self.expr(sc, d - 1))
      if j == 1:
        return 'tot(k=%s)' % self.expr(sc, d - 1)
      return '%s(%s)' % (self.rname(sc), self.expr(sc, d - 1))
    if k in (14, 15):
      return self.lam(sc, d)
    if k in (16, 17, 18):
      return self.comprehension(sc, d)
    if k in (19, 20):
      return self.walrus(sc, d)
    if k == 21:
      return 'tot(%s).a' % self.expr(sc, d - 1)
    if k == 22:
      return '%s[%s + 1]' % (self.rname(sc), self.atom(sc))
    return 'tot((%s, %s))' % (self.expr(sc, d - 1), self.expr(sc, d - 1))

  # ---- expression containers whose sub-expressions sit in "out of the way" fields of the node
  # (format specs, conversions, slice bounds, starred / double-starred items): every name read there is an
  # ordinary read of the enclosing scope for CPython
  def where(self, sc):
    if sc.comp or sc.within_comp:
      return 'comprehension'
    return {'func': 'def', 'lambda': 'lambda', 'class': 'class_body'}[sc.kind]

  def sub(self, sc, d, simple_pct=55):
    return self.atom(sc) if d <= 1 or self.chance(simple_pct) else self.expr(sc, d - 1)

  def fstring(self, sc, d, bare=False):
    """f-string with 1-3 replacement fields; literal text (also escaped braces) in between; sometimes
    implicitly concatenated with a plain literal. Wrapped in tot() so that the value is a V like every
    other value of the program (bare: the caller discards the value)."""
    self.fnest += 1
    if self.fnest > 1:
      self.note('has:fstring_inside_fstring')
    out = []
    for _ in range((1, 1, 1, 1, 2, 3)[self.i(6)]):
      if self.chance(35):
        out.append(self.pick(('a', ' ', 'k=', '{{', '}}', "it's", '{{}}', ': ', '!r')))
      out.append(self.field(sc, d, 0, False))
    if self.chance(25):
      out.append(self.pick(('b', ' ', '}}', '{{', '.')))
    self.fnest -= 1
    self.note('has:fstring')
    self.note('has:fstring_in_' + self.where(sc))
    text = 'f"%s"' % ''.join(out)
    if self.chance(10):
      text = ("'p' %s" % text) if self.chance(50) else ('%s "q"' % text)
      self.note('has:fstring_implicit_concatenation')
    return text if bare else 'tot(%s)' % text

  def field(self, sc, d, level, str_spec):
    """One replacement field. level 0: field of the string itself, 1: field inside a format spec,
    2: field inside the spec of a level-1 field (the deepest CPython accepts). str_spec: the text this field
    expands to is part of a format spec applied to a str (keep it a valid one: V formats as '1')."""
    fresh = None
    if level > 0 and self.chance(45):
      fresh = self.fresh_rname(sc)
    if fresh is not None:
      val = fresh
      self.note('has:fstring_spec_name_first_read_of_scope')
    else:
      val = self.sub(sc, d, 45 if level == 0 else 65)
    if level > 0 and not val.isidentifier():
      self.note('has:fstring_nested_spec_with_complex_expression')
    debug = ''
    # (CPython 3.12.1 cannot compile a debug specifier inside a nested field: f"{w:{w=}}" -> ValueError)
    if level == 0 and self.chance(10):
      debug = self.pick(('=', ' = ', '= '))
      self.note('has:fstring_debug_specifier')
    conv = ''
    if not str_spec and self.chance(30):
      conv = self.pick(('!r', '!s', '!a'))
      self.note('has:fstring_conversion')
    spec = ''
    j = self.i(20)
    lim = 9 if level == 0 else (5 if level == 1 else 0)    # chance of a nested spec falls with the level
    if j < lim:
      # nested spec: [align] {width} [ . {precision} ]
      inner_str = bool(conv) or str_spec
      spec = ':' + self.pick(('', '', '>', '^', '<'))
      spec += self.field(sc, d, level + 1, inner_str)
      two = self.chance(35)
      if two:
        spec += '.' + self.field(sc, d, level + 1, inner_str)
      self.note('has:fstring_nested_spec')
      self.note('has:fstring_nested_spec_in_' + self.where(sc))
      if two:
        self.note('has:fstring_nested_spec_two_fields')
      if level > 0:
        self.note('has:fstring_nested_spec_level2')
      if conv:
        self.note('has:fstring_nested_spec_after_conversion')
    elif j < 13:
      spec = ':' + self.pick(('>8', '^4', '<3', '5', '', '>2.1'))
      self.note('has:fstring_constant_spec')
    if val.startswith('{'):
      val = ' ' + val
    return '{%s%s%s%s}' % (val, debug, conv, spec)

  def slicing(self, sc, d):
    """Subscripts with slice / tuple indices, also on bases that have no qualified name."""
    j = self.i(10)
    if j < 6:
      base = self.rname(sc)
      if not base.isidentifier() or base in ('tot', 'deco'):
        base = 'tot()'
    elif j < 8:
      base = 'tot(%s)' % self.sub(sc, d)
    elif j == 8:
      base = '(%s + %s)' % (self.atom(sc), self.atom(sc))
    else:
      base = self.composite(sc)
    if j >= 6:
      self.note('has:subscript_on_unnameable_base')
    # (every drawn sub-expression is used: a dropped walrus would leave a local without binding occurrence)
    a = lambda: self.sub(sc, d)
    b = lambda: self.sub(sc, d, 75)
    k = self.i(9)
    if k == 0:
      idx = '%s:%s' % (a(), b())
    elif k == 1:
      idx = '%s:' % a()
    elif k == 2:
      idx = ':%s' % a()
    elif k == 3:
      idx = '%s:%s:%s' % (a(), b(), b())
    elif k == 4:
      idx = '::%s' % a()
    elif k == 5:
      idx = '%s, %s' % (a(), b())
      self.note('has:subscript_tuple_index')
    elif k == 6:
      idx = '%s:%s, %s' % (a(), b(), b())
      self.note('has:subscript_tuple_index')
    elif k == 7:
      idx = '%s' % a()        # an arbitrary expression as index
    else:
      idx = '%s + 1:' % a()
    if ':' in idx:
      self.note('has:slice')
    return '%s[%s]' % (base, idx)

  def display(self, sc, d):
    """List / tuple / set / dict displays, with starred and double-starred items."""
    a, b = self.sub(sc, d), self.sub(sc, d, 70)
    k = self.i(8)
    if k == 0:
      t = '[%s, %s]' % (a, b)
    elif k == 1:
      t = '[%s, *%s]' % (a, b)
    elif k == 2:
      t = '(*%s, %s)' % (a, b)
    elif k == 3:
      t = '{%s, %s}' % (a, b)
    elif k == 4:
      t = '{*%s, %s}' % (a, b)
    elif k == 5:
      t = '{%s: %s}' % (a, b)
    elif k == 6:
      t = '{%s: %s, **%s}' % (a, b, self.atom(sc))
    else:
      t = '{**%s, %s: %s}' % (a, b, self.atom(sc))
    self.note('has:display_' + ('list', 'list', 'tuple', 'set', 'set', 'dict', 'dict', 'dict')[k])
    if k in (1, 2, 4, 6, 7):
      self.note('has:display_with_unpacking')
    return 'tot(%s)' % t

  def unpack_call_or_operator(self, sc, d):
    a = lambda: self.sub(sc, d)
    b = lambda: self.sub(sc, d, 70)
    k = self.i(8)
    if k == 0:
      self.note('has:call_starred_argument')
      return 'tot(*%s)' % a()
    if k == 1:
      self.note('has:call_double_starred_argument')
      return 'tot(**%s)' % a()
    if k == 2:
      self.note('has:call_starred_argument')
      self.note('has:call_double_starred_argument')
      return 'tot(%s, *%s, k=%s, **%s)' % (self.atom(sc), a(), b(), self.atom(sc))
    if k == 3:
      self.note('has:call_starred_argument')
      return '%s(*%s)' % (self.rname(sc), a())
    if k == 4:
      self.note('has:chained_comparison')
      return '(%s < %s <= %s)' % (a(), b(), self.atom(sc))
    if k == 5:
      self.note('has:unary_minus')
      return '(-%s)' % a()
    if k == 6:
      self.note('has:call_on_call_result')
      return 'tot(%s)(%s)' % (a(), b())
    self.note('has:conditional_in_subscript')
    return '%s[%s if %s else %s]' % (self.rname(sc) if self.chance(50) else 'tot()', a(), b(), self.atom(sc))

  def walrus(self, sc, d):
    if sc.no_walrus or sc.in_iter:
      return self.atom(sc)
    act = self.active_targets(sc)
    if sc.comp or sc.within_comp:
      if sc.kind == 'class':
        return self.atom(sc)
      if 'FC08b_walrus_in_comprehension' in self.excl:
        self.note('excluded:FC08b_walrus_in_comprehension')
        return self.atom(sc)
    cand = [n for n in POOL if self.bindable(sc, n) and n not in act and not (sc.comp and n in sc.avoid)]
    if not cand:
      return self.atom(sc)
    ob = [n for n in cand if n in sc.oblig]
    n = self.pick(ob) if ob and self.chance(60) else self.pick(cand)
    val = self.expr(sc, d - 1)
    self.note('has:walrus_in_comprehension' if (sc.comp or sc.within_comp) else ('has:walrus_in_lambda' if sc.kind == 'lambda' else 'has:walrus'))
    # inside a comprehension / boolean operator the binding may not execute
    self.did_bind(sc, n, really=False)
    return '(%s := %s)' % (n, val)

  def allowed_params(self, sc):
    """Pool names a def/lambda evaluated in scope sc may use as parameter names."""
    if 'F09_nested_param_leak' not in self.excl:
      return list(POOL)
    if sc.kind == 'class':
      return [n for n in POOL if sc.roles.get(n) == 'local']
    return [n for n in sc.params if n in POOL]

  def signature(self, sc, child, ann=True, first=None, minp=0):
    """Draws a parameter list for `child`, evaluated (defaults, annotations) in scope sc.
    Returns (text, callspec)."""
    allowed = self.allowed_params(sc)
    want = max(minp, self.i(5))
    if want > len(allowed):
      if 'F09_nested_param_leak' in self.excl:
        self.note('excluded:F09_nested_param_leak', )
      want = len(allowed)
    pool = list(allowed)
    names = []
    for _ in range(want):
      names.append(pool.pop(self.i(len(pool))))
    kinds = sorted((0, 0, 1, 1, 1, 1, 2, 3, 3, 4)[self.i(10)] for _ in names)   # 0 posonly 1 regular 2 vararg 3 kwonly 4 kwarg
    seen2 = seen4 = False
    for j, k in enumerate(kinds):
      if k == 2:
        if seen2:
          kinds[j] = 3
        seen2 = True
      if k == 4:
        if seen4:
          kinds[j] = 3
        seen4 = True
    kinds.sort()
    if first is not None:
      names.insert(0, first)
      kinds.insert(0, 1 if 0 not in kinds else 0)
    ann = ann and 'FC08a_param_annotation_reads' not in self.excl
    pos = [n for n, k in zip(names, kinds) if k in (0, 1)]
    first_default = self.i(len(pos) + 1) if pos and self.chance(50) else len(pos)
    if first is not None:
      first_default = max(first_default, 1)
    parts, spec = [], {'req': 0, 'opt': 0, 'kwreq': [], 'kwopt': [], 'star': False, 'dstar': False}
    npos = 0
    did_slash = False
    nposonly = kinds.count(0)

    def one(n, default):
      t = n
      if ann and n != first and self.chance(22):
        t += ': ' + self.ann_expr(sc)
        self.note('has:param_annotation')
      if default:
        t += ('=' if ':' not in t else ' = ') + self.expr(sc, 1)
        self.note('has:param_default')
      return t

    for n, k in zip(names, kinds):
      if k in (0, 1):
        if k == 1 and nposonly and not did_slash:
          parts.append('/')
          did_slash = True
        dflt = npos >= first_default
        parts.append(one(n, dflt))
        spec['opt' if dflt else 'req'] += 1
        npos += 1
      elif k == 2:
        if nposonly and not did_slash:
          parts.append('/')
          did_slash = True
        parts.append('*' + one(n, False))
        child.starnames.add(n)
        spec['star'] = True
        self.note('has:vararg')
      elif k == 3:
        if nposonly and not did_slash:
          parts.append('/')
          did_slash = True
        if not spec['star'] and '*' not in parts:
          parts.append('*')
        dflt = self.chance(50)
        parts.append(one(n, dflt))
        (spec['kwopt'] if dflt else spec['kwreq']).append(n)
        self.note('has:kwonly')
      else:
        if nposonly and not did_slash:
          parts.append('/')
          did_slash = True
        parts.append('**' + one(n, False))
        child.starnames.add(n)
        spec['dstar'] = True
        self.note('has:kwarg')
    if nposonly and not did_slash:
      parts.append('/')
      self.note('has:posonly')
    elif nposonly:
      self.note('has:posonly')
    child.params = list(names)
    for n in names:
      child.roles[n] = 'param'
    child.bound_now = set(names)
    return ', '.join(parts), spec

  def ann_expr(self, sc):
    return self.atom(sc)

  def call_args(self, sc, spec, skip_first=False):
    if getattr(self, 'plain_args', False):
      return ', '.join(['V()'] * spec['req'] + ['%s=V()' % n for n in spec['kwreq']])
    args = []
    req = spec['req'] - (1 if skip_first and spec['req'] else 0)
    opt = spec['opt'] - (1 if skip_first and not spec['req'] and spec['opt'] else 0)
    for _ in range(req):
      args.append(self.expr(sc, 1))
    for _ in range(opt):
      if self.chance(40):
        args.append(self.expr(sc, 1))
      else:
        break
    if spec['star'] and self.chance(30) and len(args) == req + opt:
      args.append(self.expr(sc, 1))
    for n in spec['kwreq']:
      args.append('%s=%s' % (n, self.expr(sc, 1)))
    for n in spec['kwopt']:
      if self.chance(30):
        args.append('%s=%s' % (n, self.expr(sc, 1)))
    if spec['dstar'] and self.chance(20):
      args.append('kq=%s' % self.expr(sc, 1))
    return ', '.join(args)

  def class_shadow(self, sc, n):
    """True when a class between sc and the scope that would resolve a free `n` binds n itself."""
    p = sc.parent
    while p is not None:
      r = p.roles.get(n, 'none')
      if p.kind == 'class':
        # (a class-level global/nonlocal declaration does not reach nested scopes either, but malt's class
        # scope hides the name as soon as the class also assigns it)
        if r in ('local', 'global', 'nonlocal'):
          return True
      elif r in ('param', 'local', 'global', 'nonlocal'):
        return False
      p = p.parent
    return False

  def nonlocal_ok(self, sc, n):
    """(valid for CPython, directly bound by the nearest enclosing function)."""
    p = sc.parent
    first = True
    while p is not None:
      if p.kind != 'class':
        r = p.roles.get(n, 'none')
        if r in ('param', 'local'):
          return True, first
        if r == 'nonlocal':
          return True, first
        if r == 'global':
          return False, False
        first = False
      p = p.parent
    return False, False

  def decide_roles(self, sc, weights):
    """weights: list of (role, weight). Parameters are already in sc.roles."""
    total = sum(w for _, w in weights)
    for n in POOL:
      if n in sc.roles:
        continue
      k = self.i(total)
      r = None
      for rr, w in weights:
        if k < w:
          r = rr
          break
        k -= w
      if r == 'nonlocal':
        ok, direct = self.nonlocal_ok(sc, n)
        if not ok:
          r = 'free'
        elif not direct and 'FC08c_nonlocal_passthrough' in self.excl:
          self.note('excluded:FC08c_nonlocal_passthrough')
          r = 'free'
      if r in ('free', 'nonlocal') and 'FC08d_class_binding_captures' in self.excl and self.class_shadow(sc, n):
        self.note('excluded:FC08d_class_binding_captures')
        r = 'local' if sc.kind in ('func', 'class') else 'none'
      sc.roles[n] = r
      if r == 'local':
        sc.oblig.add(n)
      if r in ('global', 'nonlocal'):
        self.note('has:' + r)
        if self.chance(40):
          sc.pending.append((r, n))

  def lam(self, sc, d):
    if sc.depth + 1 > self.maxd:
      return self.atom(sc)
    child = Sc('lambda', sc)
    child.no_walrus = sc.no_walrus or sc.in_iter > 0
    child.within_comp = sc.within_comp or bool(sc.comp)
    child.avoid = set(sc.avoid)
    if child.within_comp and 'FC08b_walrus_in_comprehension' in self.excl:
      child.no_walrus = True
    # a lambda written inside a comprehension sees the iteration variables as free names
    sig, spec = self.signature(sc, child, ann=False)
    w = [('free', 55), ('none', 33)]
    if not child.no_walrus:
      w.append(('local', 12))
    self.decide_roles(child, w)
    act = self.active_targets(sc)
    child.inherited = set(n for n in act if n not in child.params)
    body = self.expr(child, d - 1)
    extra = []
    for n in sorted(child.oblig):
      if n in act:
        child.roles[n] = 'free'
        continue
      extra.append('(%s := %s)' % (n, self.atom(child)))
      self.note('has:walrus_in_lambda')
    if extra:
      body = 'tot(%s, %s)' % (body, ', '.join(extra))
    self.note('has:lambda')
    used = set(n for n in POOL if child.roles.get(n, 'none') != 'none')
    for fr in self.iter_lams:
      fr |= used
    if child.params:
      self.note('has:lambda_with_params')
    text = 'lambda %s: %s' % (sig, body) if sig else 'lambda: %s' % body
    if self.chance(65):
      return '(%s)(%s)' % (text, self.call_args(sc, spec))
    return 'fv(%s)' % text

  def comp_target(self, sc, avoid=()):
    if avoid:
      self.note('excluded:FC08e_lambda_in_first_iterable')
    n1 = self.pick([n for n in POOL if n not in avoid])
    if self.chance(25):
      n2 = self.pick([n for n in POOL if n != n1 and n not in avoid])
      return '%s, %s' % (n1, n2), {n1, n2}
    return n1, {n1}

  def comprehension(self, sc, d):
    kind = self.i(4)
    sc.in_iter += 1
    self.iter_lams.append(set())
    it0 = self.expr(sc, d - 1)
    avoid = self.iter_lams.pop()
    sc.in_iter -= 1
    if 'FC08e_lambda_in_first_iterable' not in self.excl:
      avoid = set()
    elif len(avoid) > len(POOL) - 2:
      self.note('excluded:FC08e_lambda_in_first_iterable')
      it0, avoid = self.atom(sc), set()
    t0, names = self.comp_target(sc, avoid)
    two = self.chance(25)
    if two:
      t1, names1 = self.comp_target(sc, avoid)
    else:
      t1, names1 = None, set()
    if any(n in it0.replace('.', ' ').replace('[', ' ').replace(']', ' ').replace('(', ' ').replace(')', ' ').split() for n in names):
      self.note('has:comp_target_named_in_own_iterable')
    sc.comp.append(set(names))
    if sc.kind == 'class':
      sc.in_class_comp += 1
    # a clause that reads the variable of a *later* generator (or a later iterable reading its own generator's
    # variable) is an unbound read by construction, and malt books it as a read of the enclosing variable:
    # all variables are drawn first and the later ones are kept out of the earlier clauses
    saved_avoid = set(sc.avoid)
    sc.avoid |= (names1 - names)
    clauses = ['for %s in %s' % (t0, it0)]
    if self.chance(35):
      clauses.append('if %s' % self.expr(sc, d - 1))
    if two:
      sc.avoid = saved_avoid | (names1 - names)
      sc.in_iter += 1
      it1 = self.expr(sc, d - 1)
      sc.in_iter -= 1
      sc.avoid = saved_avoid
      sc.comp[-1] |= names1
      clauses.append('for %s in %s' % (t1, it1))
      if self.chance(30):
        clauses.append('if %s' % self.expr(sc, d - 1))
      self.note('has:comp_two_generators')
    sc.avoid = saved_avoid
    elt = self.expr(sc, d - 1)
    if kind == 2:
      elt = '%s: %s' % (elt, self.expr(sc, d - 1))
    sc.comp.pop()
    if sc.kind == 'class':
      sc.in_class_comp -= 1
    body = '%s %s' % (elt, ' '.join(clauses))
    self.note('has:comprehension_' + ('list', 'set', 'dict', 'gen')[kind])
    if kind == 0:
      return 'tot([%s])' % body
    if kind in (1, 2):
      return 'tot({%s})' % body
    return 'tot(%s)' % body

  # ---- statements
  def target(self, sc, simple_only=False):
    """An assignment target (text, name bound or None)."""
    if simple_only or self.chance(68):
      n = self.bname(sc)
      if n is not None:
        return n, n
      if simple_only:
        return 'u', None
    c = self.composite(sc)
    if c.startswith('tot()'):
      return 'u', None
    self.note('has:composite_target')
    return c, None

  def simple_stmt(self, sc, ind):
    k = self.i(20)
    if k < 6:
      t, n = self.target(sc)
      val = self.expr(sc)
      if self.chance(12):
        t2, n2 = self.target(sc)
        self.emit(ind, '%s = %s = %s' % (t, t2, val))
        if n2:
          self.did_bind(sc, n2)
      else:
        self.emit(ind, '%s = %s' % (t, val))
      if n:
        self.did_bind(sc, n)
    elif k < 8:
      t1, n1 = self.target(sc)
      t2, n2 = self.target(sc)
      star = '*' if self.chance(20) else ''
      self.emit(ind, '%s, %s%s = %s' % (t1, star, t2, self.expr(sc)))
      self.note('has:tuple_target')
      for n in (n1, n2):
        if n:
          self.did_bind(sc, n)
    elif k < 11:
      t, n = self.target(sc)
      if n is not None and not self.safe(sc, n) and self.chance(85):
        self.emit(ind, '%s = %s' % (t, self.expr(sc)))
      else:
        self.emit(ind, '%s += %s' % (t, self.expr(sc)))
        self.note('has:augassign')
      if n:
        self.did_bind(sc, n)
    elif k == 11:
      # annotated assignment: simple targets must not be declared global/nonlocal
      cand = [n for n in POOL if self.role(sc, n) in ('local', 'param') and self.bindable(sc, n)]
      if cand and self.chance(70):
        n = self.pick(cand)
        if self.chance(35):
          self.emit(ind, '%s: %s' % (n, self.ann_expr(sc)))
          self.note('has:annotation_only_declaration')
          self.did_bind(sc, n, really=False)
        else:
          self.emit(ind, '%s: %s = %s' % (n, self.ann_expr(sc), self.expr(sc)))
          self.did_bind(sc, n)
        self.note('has:annassign')
      else:
        c = self.composite(sc)
        if c.startswith('tot()'):
          self.emit(ind, 'pass')
        else:
          self.emit(ind, '%s: %s = %s' % (c, self.ann_expr(sc), self.expr(sc)))
          self.note('has:annassign')
    elif k == 12:
      t, n = self.target(sc)
      if n is not None and not self.safe(sc, n) and self.chance(80):
        self.emit(ind, '%s = %s' % (t, self.expr(sc)))
        self.did_bind(sc, n)
      elif t == 'u':
        self.emit(ind, 'pass')
      else:
        self.emit(ind, 'del %s' % t)
        self.note('has:del')
        if n:
          sc.oblig.discard(n)
          sc.bound_now.discard(n)
    elif k == 13:
      n = self.bname(sc)
      j = self.i(5)
      if n is None:
        self.emit(ind, 'import vfm08')
      elif j == 0:
        self.emit(ind, 'import vfm08 as %s' % n)
      elif j == 1:
        self.emit(ind, 'from vfm08 import a as %s' % n)
      elif j == 2:
        self.emit(ind, 'from vfm08 import a as %s, b' % n)
      elif j == 3:
        self.emit(ind, 'import os.path, vfm08 as %s' % n)
      else:
        self.emit(ind, 'from vfm08 import a, b as %s' % n)
      if n:
        self.did_bind(sc, n)
      self.note('has:import')
    elif k == 14:
      self.emit(ind, 'assert %s or 1' % self.expr(sc))
    elif k == 15 and sc.kind == 'func' and sc.nest > 0 and self.chance(60):
      self.emit(ind, 'return %s' % self.expr(sc))
      self.note('has:early_return')
    elif k == 16 and sc.loops and self.chance(70):
      if sc.loops[-1] == 'for' and self.chance(50):
        self.emit(ind, 'continue')
      else:
        self.emit(ind, 'break')
    elif k == 17 and self.chance(50):
      # an f-string that is the statement's value itself (its str value goes nowhere near the pool names)
      self.emit(ind, self.pick(('%s', 'u = %s', 'assert %s', 'u: %s', 'u = tot()[%s]')) % self.fstring(sc, 2, bare=True))
      self.note('has:fstring_as_statement_value')
    else:
      self.emit(ind, self.expr(sc))

  def place_pending(self, sc, ind, force=False):
    keep = []
    for kw, n in sc.pending:
      if force or self.chance(50):
        self.emit(ind, '%s %s' % (kw, n))
        self.note('has:%s_declared_inside_block' % kw if not force else 'has:%s_declared_late' % kw)
      else:
        keep.append((kw, n))
    sc.pending = keep

  def block(self, sc, ind, d, n, nested=True, where='body'):
    saved = set(sc.bound_now)
    start = len(self.lines)
    # (no declaration inside an except handler: symtable visits try/else before the handlers, so a use in
    # the else block would precede it)
    if where == 'handler':
      sc.in_handler += 1
    if nested and sc.pending and not sc.in_handler:
      if where == 'body' or self.chance(40):
        self.place_pending(sc, ind)
    sc.nest += 1
    for _ in range(n):
      self.stmt(sc, ind, d)
    sc.nest -= 1
    if where == 'handler':
      sc.in_handler -= 1
    if len(self.lines) == start:
      self.emit(ind, 'pass')
    if nested:
      sc.bound_now = saved & sc.bound_now

  def nstmts(self):
    return 1 + self.i(3)

  def stmt(self, sc, ind, d):
    self.budget -= 1
    if self.budget <= 0 or d <= 0:
      return self.simple_stmt(sc, ind)
    k = self.i(30)
    if k < 12:
      return self.simple_stmt(sc, ind)
    if k < 15:
      self.emit(ind, 'if %s:' % self.expr(sc))
      self.block(sc, ind + 1, d - 1, self.nstmts())
      if self.chance(30):
        self.emit(ind, 'elif %s:' % self.expr(sc))
        self.block(sc, ind + 1, d - 1, self.nstmts())
      if self.chance(45):
        self.emit(ind, 'else:')
        self.block(sc, ind + 1, d - 1, self.nstmts(), where='orelse')
      self.note('has:if')
    elif k < 18:
      if self.chance(70):
        t, n = self.target(sc)
        names = [n] if n else []
      else:
        t1, n1 = self.target(sc)
        t2, n2 = self.target(sc)
        t = '%s, %s' % (t1, t2)
        names = [q for q in (n1, n2) if q]
      self.emit(ind, 'for %s in %s:' % (t, self.expr(sc)))
      saved = set(sc.bound_now)
      for q in names:
        self.did_bind(sc, q)
      sc.loops.append('for')
      self.block(sc, ind + 1, d - 1, self.nstmts())
      sc.loops.pop()
      sc.bound_now = saved & sc.bound_now
      if self.chance(12):
        self.emit(ind, 'else:')
        self.block(sc, ind + 1, d - 1, 1, where='orelse')
      self.note('has:for')
    elif k < 20:
      self.emit(ind, 'while %s:' % self.expr(sc))
      sc.loops.append('while')
      self.block(sc, ind + 1, d - 1, self.nstmts())
      sc.loops.pop()
      self.emit(ind + 1, 'break')
      if self.chance(12):
        self.emit(ind, 'else:')
        self.block(sc, ind + 1, d - 1, 1, where='orelse')
      self.note('has:while')
    elif k < 22:
      items, names = [], []
      for _ in range(1 + (1 if self.chance(25) else 0)):
        e = self.expr(sc, 1)
        j = self.i(4)
        if j == 0:
          items.append(e)
        elif j == 3:
          t1, n1 = self.target(sc, simple_only=True)
          t2, n2 = self.target(sc, simple_only=True)
          items.append('%s as (%s, %s)' % (e, t1, t2))
          names += [q for q in (n1, n2) if q]
        else:
          t, n = self.target(sc)
          items.append('%s as %s' % (e, t))
          if n:
            names.append(n)
      self.emit(ind, 'with %s:' % ', '.join(items))
      for q in names:
        self.did_bind(sc, q)
      self.block(sc, ind + 1, d - 1, self.nstmts(), nested=False)
      self.note('has:with')
    elif k < 24:
      self.emit(ind, 'try:')
      raising = self.chance(45)
      self.block(sc, ind + 1, d - 1, self.nstmts())
      if raising:
        self.emit(ind + 1, 'raise E1()')
      fin = self.chance(30)
      if not fin or self.chance(80):
        n = self.bname(sc) if self.chance(65) else None
        if n:
          self.emit(ind, 'except E1 as %s:' % n)
          self.note('has:except_as')
          sc.oblig.discard(n)
          saved = set(sc.bound_now)
          sc.bound_now.add(n)
          self.block(sc, ind + 1, d - 1, self.nstmts(), where='handler')
          sc.bound_now = (saved & sc.bound_now) - {n}
        else:
          self.emit(ind, 'except %s:' % self.pick(('E1', 'Exception', '(E1, KeyError)')))
          self.block(sc, ind + 1, d - 1, self.nstmts(), where='handler')
        if not raising and self.chance(25):
          self.emit(ind, 'else:')
          self.block(sc, ind + 1, d - 1, 1, where='orelse')
      if fin:
        self.emit(ind, 'finally:')
        self.block(sc, ind + 1, d - 1, 1, where='orelse')
      self.note('has:try')
    elif k < 28:
      self.fundef(sc, ind, d)
    else:
      self.classdef(sc, ind, d)

  def fundef(self, sc, ind, d, method=False):
    if sc.depth + 1 > self.maxd:
      return self.simple_stmt(sc, ind)
    self.nf += 1
    name = 'f%d' % self.nf
    pooled = False
    if not method and self.chance(8):
      n = self.bname(sc)
      if n is not None:
        name, pooled = n, True
        self.note('has:def_named_from_pool')
    for _ in range(self.pick((0, 0, 0, 1, 1, 2))):
      self.emit(ind, '@deco' if self.chance(40) else '@deco2(%s)' % self.expr(sc, 1))
      self.note('has:decorator')
    if pooled:
      self.emit(ind, '@fv')
    child = Sc('func', sc)
    first = 'self' if method and self.chance(85) else None
    sig, spec = self.signature(sc, child, first=first)
    ret = ''
    if self.chance(15):
      ret = ' -> ' + self.ann_expr(sc)
      self.note('has:return_annotation')
    self.emit(ind, 'def %s(%s)%s:' % (name, sig, ret))
    self.decide_roles(child, [('local', 30), ('free', 25), ('none', 10), ('global', 12), ('nonlocal', 23)])
    self.body(child, ind + 1, d - 1)
    self.note('has:nested_def')
    if pooled:
      self.did_bind(sc, name)
    if not method and self.chance(75):
      if pooled:
        call = '%s()' % name
      else:
        call = '%s(%s)' % (name, self.call_args(sc, spec))
      if self.chance(50):
        t, n = self.target(sc)
        self.emit(ind, '%s = %s' % (t, call))
        if n:
          self.did_bind(sc, n)
      else:
        self.emit(ind, call)
    return name, spec, first

  def body(self, sc, ind, d):
    """Body of a function: top declarations, statements, obligations, return."""
    top = [(kw, n) for kw, n in [(r, n) for n, r in sorted(sc.roles.items()) if r in ('global', 'nonlocal')]
           if n not in sc.pending_names()]
    for kw, n in top:
      self.emit(ind, '%s %s' % (kw, n))
    start = len(self.lines)
    for _ in range(1 + self.i(4)):
      self.stmt(sc, ind, d)
    if sc.parent is None and self.nf == 0:
      self.fundef(sc, ind, d)    # the tree always has a nested function
    self.flush(sc, ind)
    if sc.kind == 'func' and self.chance(70):
      self.emit(ind, 'return %s' % self.expr(sc))
    if len(self.lines) == start:
      self.emit(ind, 'pass')

  def flush(self, sc, ind):
    if sc.pending:
      if self.chance(50):
        self.emit(ind, 'if %s:' % self.expr(sc, 1))
        self.place_pending(sc, ind + 1, force=True)
        self.emit(ind + 1, 'pass')
      else:
        self.place_pending(sc, ind, force=True)
    for n in sorted(sc.oblig):
      k = self.i(20)
      if k < 12:
        self.emit(ind, '%s = %s' % (n, self.expr(sc, 1)))
      elif k < 14:
        self.emit(ind, '%s: %s' % (n, self.ann_expr(sc)))
        self.note('has:annotation_only_declaration')
      elif k < 16:
        self.emit(ind, 'for %s in %s:' % (n, self.expr(sc, 1)))
        self.emit(ind + 1, 'pass')
      elif k < 18:
        self.emit(ind, 'import vfm08 as %s' % n)
      elif k < 19:
        self.emit(ind, 'with %s as %s:' % (self.expr(sc, 1), n))
        self.emit(ind + 1, 'pass')
      else:
        self.emit(ind, 'tot((%s := %s))' % (n, self.expr(sc, 1)))
      if k not in (12, 13):
        sc.bound_now.add(n)
    sc.oblig.clear()

  def classdef(self, sc, ind, d):
    if sc.depth + 1 > self.maxd:
      return self.simple_stmt(sc, ind)
    self.nc += 1
    name = 'C%d' % self.nc
    if self.chance(25):
      self.emit(ind, '@deco' if self.chance(50) else '@deco2(%s)' % self.expr(sc, 1))
      self.note('has:decorator')
    bases = ''
    if self.chance(30):
      bases = '(object if %s else object)' % self.expr(sc, 1)
    self.emit(ind, 'class %s%s:' % (name, bases))
    child = Sc('class', sc)
    w = [('local', 38), ('free', 30), ('none', 14), ('global', 8), ('nonlocal', 10)]
    self.decide_roles(child, w)
    top = [(r, n) for n, r in sorted(child.roles.items()) if r in ('global', 'nonlocal') and n not in child.pending_names()]
    for kw, n in top:
      self.emit(ind + 1, '%s %s' % (kw, n))
    start = len(self.lines)
    methods = []
    for _ in range(1 + self.i(3)):
      if self.budget > 0 and d > 1 and self.chance(45):
        self.budget -= 1
        m = self.fundef(child, ind + 1, d - 1, method=True)
        if isinstance(m, tuple):
          methods.append(m)
      else:
        self.stmt(child, ind + 1, d - 1)
    self.flush(child, ind + 1)
    if len(self.lines) == start:
      self.emit(ind + 1, 'pass')
    self.note('has:class')
    if methods and self.chance(70):
      mname, spec, first = self.pick(methods)
      if first is not None:
        self.emit(ind, '%s().%s(%s)' % (name, mname, self.call_args(sc, spec, skip_first=True)))
        self.note('has:method_called')

  def program(self):
    top = Sc('func', None)
    self.excl_saved = set(self.excl)
    # the root function's parameters leak nowhere: all kinds and names are allowed
    self.excl.discard('F09_nested_param_leak')
    sig, spec = self.signature(self.module_sc, top, minp=2)
    self.excl = self.excl_saved
    self.decide_roles(top, [('local', 40), ('free', 25), ('none', 10), ('global', 25)])
    self.lines = []
    self.emit(0, 'def root(%s):' % sig)
    self.body(top, 1, 3)
    self.emit(0, 'def drive():')
    self.plain_args = True
    self.emit(1, 'return root(%s)' % self.call_args(self.module_sc, spec))
    return PRELUDE + '\n'.join(self.lines) + '\n'


@st.composite
def programs(draw, cfg):
  g = Gen(draw, cfg)
  src = g.program()
  bits = [draw(_ints(2)) for _ in range(6)]
  return {'src': src, 'bits': bits, 'meta': dict(g.meta)}


# ================================================================================================
# analysis + AST helpers

SCOPE_NODES = (ast.FunctionDef, ast.Lambda, ast.ClassDef)
COMPS = (ast.ListComp, ast.SetComp, ast.DictComp, ast.GeneratorExp)


def analyse(src):
  tree = ast.parse(src)
  top = [n for n in tree.body if isinstance(n, ast.FunctionDef) and n.name == 'root'][-1]
  info = transformer.EntityInfo(name='root', source_code=src, source_file=None, future_features=(), namespace={})
  ctx = transformer.Context(info, naming.Namer({}), None)
  node = qual_names.resolve(top)
  node = activity.resolve(node, ctx)
  for p in ast.walk(top):
    for c in ast.iter_child_nodes(p):
      c._parent = p
  top._parent = None
  return tree, top


def simple(qns):
  return set(str(q) for q in qns if q.is_simple() and q.is_symbol())


def arg_names(fn):
  """Parameter names in the order symtable lists them (positional, keyword-only, *args, **kwargs)."""
  a = fn.args
  out = [x.arg for x in a.posonlyargs + a.args]
  out += [x.arg for x in a.kwonlyargs]
  if a.vararg:
    out.append(a.vararg.arg)
  if a.kwarg:
    out.append(a.kwarg.arg)
  return out


def _exprs_in_order(node):
  """Children of a non-scope node in the order CPython's symtable pass visits them."""
  if isinstance(node, ast.Try):
    return list(node.body) + list(node.orelse) + list(node.handlers) + list(node.finalbody)
  if isinstance(node, ast.NamedExpr):
    return [node.value, node.target]
  return list(ast.iter_child_nodes(node))


def _header_children(node):
  """Sub-expressions of a def / lambda / class evaluated in the *defining* scope, in symtable order."""
  if isinstance(node, ast.ClassDef):
    return list(node.decorator_list) + list(node.bases) + list(node.keywords)
  a = node.args
  out = list(a.defaults) + [d for d in a.kw_defaults if d is not None]
  if isinstance(node, ast.FunctionDef):
    out += list(node.decorator_list)
    for x in a.posonlyargs + a.args:
      if x.annotation is not None:
        out.append(x.annotation)
    if a.vararg is not None and a.vararg.annotation is not None:
      out.append(a.vararg.annotation)
    if a.kwarg is not None and a.kwarg.annotation is not None:
      out.append(a.kwarg.annotation)
    for x in a.kwonlyargs:
      if x.annotation is not None:
        out.append(x.annotation)
    if node.returns is not None:
      out.append(node.returns)
  return out


def _own_children(node):
  """Nodes that belong to the scope opened by `node`, in symtable order."""
  if isinstance(node, ast.Lambda):
    return [node.body]
  if isinstance(node, (ast.FunctionDef, ast.ClassDef)):
    return list(node.body)
  # comprehension
  g0 = node.generators[0]
  out = [g0.target] + list(g0.ifs)
  for g in node.generators[1:]:
    out += [g.target, g.iter] + list(g.ifs)
  if isinstance(node, ast.DictComp):
    out += [node.value, node.key]
  else:
    out.append(node.elt)
  return out


def _collect(nodes, out):
  for n in nodes:
    if isinstance(n, SCOPE_NODES):
      _collect(_header_children(n), out)
      out.append(n)
    elif isinstance(n, COMPS):
      _collect([n.generators[0].iter], out)
      out.append(n)
    else:
      _collect(_exprs_in_order(n), out)


def scope_children(node):
  out = []
  _collect(_own_children(node), out)
  return out


class Unmatched(Exception):
  pass


_COMP_NAMES = {ast.ListComp: 'listcomp', ast.SetComp: 'setcomp', ast.DictComp: 'dictcomp', ast.GeneratorExp: 'genexpr'}


def _tname(node):
  if isinstance(node, ast.Lambda):
    return 'lambda'
  if isinstance(node, COMPS):
    return _COMP_NAMES[type(node)]
  return node.name


def pair_tables(node, table, out):
  """Pairs AST scope nodes with symtable blocks (parallel walk); inlined comprehensions are spliced."""
  kids = scope_children(node)
  tabs = list(table.get_children())
  i = 0
  work = list(kids)
  while work:
    k = work.pop(0)
    t = tabs[i] if i < len(tabs) else None
    if isinstance(k, COMPS) and (t is None or t.get_name() != _tname(k) or t.get_lineno() != k.lineno):
      # inlined by the 3.12 compiler: its nested scopes belong to this block
      work = scope_children(k) + work
      out.append((k, None))
      continue
    if t is None or t.get_name() != _tname(k) or t.get_lineno() != k.lineno:
      raise Unmatched('%s@%d vs %s' % (_tname(k), k.lineno, t and (t.get_name(), t.get_lineno())))
    if isinstance(k, (ast.FunctionDef, ast.Lambda)):
      if list(t.get_parameters()) != arg_names(k):
        raise Unmatched('parameters of %s@%d' % (_tname(k), k.lineno))
    ids = set()
    for x in ast.walk(k):
      if isinstance(x, ast.Name):
        ids.add(x.id)
      elif isinstance(x, ast.arg):
        ids.add(x.arg)
      elif isinstance(x, (ast.FunctionDef, ast.ClassDef)):
        ids.add(x.name)
      elif isinstance(x, ast.alias):
        ids.add((x.asname or x.name).split('.')[0])
      elif isinstance(x, (ast.Global, ast.Nonlocal)):
        ids.update(x.names)
      elif isinstance(x, ast.ExceptHandler) and x.name:
        ids.add(x.name)
    extra = set(s.get_name() for s in t.get_symbols()) - ids - {'.0', '__class__', '__classdict__'}
    if extra:
      raise Unmatched('symbols %s not written in %s@%d' % (sorted(extra), _tname(k), k.lineno))
    out.append((k, t))
    pair_tables(k, t, out)
    i += 1
  if i != len(tabs):
    raise Unmatched('%d blocks left under %s' % (len(tabs) - i, table.get_name()))


def binding_occurrences(fn):
  """Names of fn's own scope that have a binding occurrence which is neither a comprehension
  iteration variable nor an except-clause name (used only to keep the exemption narrow)."""
  out = set()

  def rec(n, in_comp_targets):
    for c in ast.iter_child_nodes(n):
      if isinstance(c, (ast.FunctionDef, ast.ClassDef)):
        if c.name not in in_comp_targets:
          out.add(c.name)
        for h in _header_children(c):
          rec_node(h, in_comp_targets)
        continue
      if isinstance(c, ast.Lambda):
        for h in _header_children(c):
          rec_node(h, in_comp_targets)
        continue
      rec_node(c, in_comp_targets)

  def rec_node(c, tg):
    if isinstance(c, (ast.FunctionDef, ast.ClassDef, ast.Lambda)):
      # reached through a header list of an enclosing call; treat like a child
      if not isinstance(c, ast.Lambda) and c.name not in tg:
        out.add(c.name)
      for h in _header_children(c):
        rec_node(h, tg)
      return
    if isinstance(c, COMPS):
      rec_node(c.generators[0].iter, tg)
      names = set()
      for g in c.generators:
        for x in ast.walk(g.target):
          if isinstance(x, ast.Name):
            names.add(x.id)
      tg2 = tg | names
      for x in _own_children(c):
        if x is c.generators[0].target or any(x is g.target for g in c.generators):
          continue
        rec_node(x, tg2)
      return
    if isinstance(c, ast.Name) and isinstance(c.ctx, (ast.Store, ast.Del)):
      if c.id not in tg:
        out.add(c.id)
    elif isinstance(c, ast.alias):
      n = (c.asname or c.name).split('.')[0]
      if n not in tg:
        out.add(n)
    elif isinstance(c, ast.ExceptHandler) and c.name:
      # malt isolates the clause name for the whole handler: bindings of it there share the exemption
      tg = tg | {c.name}
    rec(c, tg)

  for s in fn.body if not isinstance(fn, ast.Lambda) else [fn.body]:
    rec_node(s, frozenset())
  return out


def exempt_names(fn):
  """Comprehension iteration variables and except-clause names occurring in fn's own scope."""
  out = set()

  def rec(n):
    for c in ast.iter_child_nodes(n):
      if isinstance(c, (ast.FunctionDef, ast.ClassDef, ast.Lambda)):
        for h in _header_children(c):
          rec1(h)
        if isinstance(c, ast.ClassDef):
          # an except-clause name bound in a class body nested here shares the exemption (it
          # captures e.g. annotation reads made at class level)
          for s_ in c.body:
            rec1(s_)
        continue
      rec1(c)

  def rec1(c):
    if isinstance(c, (ast.FunctionDef, ast.ClassDef, ast.Lambda)):
      for h in _header_children(c):
        rec1(h)
      if isinstance(c, ast.ClassDef):
        for s_ in c.body:
          rec1(s_)
      return
    if isinstance(c, COMPS):
      for g in c.generators:
        for x in ast.walk(g.target):
          if isinstance(x, ast.Name):
            out.add(x.id)
    if isinstance(c, ast.ExceptHandler) and c.name:
      out.add(c.name)
    rec(c)

  for s in fn.body if not isinstance(fn, ast.Lambda) else [fn.body]:
    rec1(s)
  return out


# ================================================================================================
# static oracle


def _needs(table, kind_of):
  """(needF, needG, declared_global_below) of a symtable block."""
  nf, ng, dg = set(), set(), set()
  for s in table.get_symbols():
    n = s.get_name()
    if s.is_free():
      nf.add(n)
    elif s.is_global():
      ng.add(n)
  is_fn = table.get_type() == 'function'
  local = set()
  if is_fn:
    for s in table.get_symbols():
      if s.is_local() and not s.is_free() and not s.is_global():
        local.add(s.get_name())
  for c in table.get_children():
    cf, cg, cd = _needs(c, kind_of)
    nf |= (cf - local)
    ng |= cg
    dg |= cd
    for s in c.get_symbols():
      if s.is_declared_global():
        dg.add(s.get_name())
  return nf, ng, dg


def classify(sym):
  if sym.is_parameter():
    return 'param'
  if sym.is_declared_global():
    return 'global'
  if sym.is_nonlocal():
    return 'nonlocal'
  if sym.is_free():
    return 'free'
  if sym.is_global():
    return 'implicit_global'
  if sym.is_local():
    return 'local'
  return 'other'


def check_static(src, top, fails, stats):
  try:
    mtab = symtable.symtable(src, FILENAME, 'exec')
  except SyntaxError as e:
    stats['generator_slip'] = repr(e)
    return
  # (the function must not be called `root`: symtable names the module block "top" and Symbol.is_global /
  # is_local treat every block of that name as the module block)
  ttab = [c for c in mtab.get_children() if c.get_name() == 'root'][-1]
  pairs = [(top, ttab)]
  try:
    pair_tables(top, ttab, pairs)
  except Unmatched as e:
    stats['unmatched'] = str(e)
    return
  nfun = 0
  depth_ok = False
  classes = collections.defaultdict(set)
  # CPython 3.12 artefact: the iteration variable of an inlined comprehension becomes a local of the
  # function, and a nested scope's free reference to the same name is then resolved to it (3.11 resolved it
  # further out, and so does malt). Such names are don't-care in the free sets of that function and above.
  artefact = collections.defaultdict(set)

  def free_below(t, names, out):
    for c in t.get_children():
      rest = set(names)
      for s in c.get_symbols():
        n = s.get_name()
        if n in rest:
          if s.is_free():
            out.add(n)
          elif c.get_type() == 'function' and s.is_local():
            rest.discard(n)    # resolved here: deeper references are not ours
      if rest:
        free_below(c, rest, out)

  for node, tab in pairs:
    if tab is None:
      continue
    # (same family: a def/lambda/generator expression written inside a comprehension refers to the iteration
    # variables; whether the enclosing functions then "need" those names depends on the inlining (at class level
    # they do), so they are don't-care there too)
    inside = enclosing_comp_targets(node)
    p = getattr(node, '_parent', None)
    while inside and p is not None:
      if isinstance(p, (ast.FunctionDef, ast.Lambda)):
        artefact[p] |= inside
      p = getattr(p, '_parent', None)
    if not isinstance(node, (ast.FunctionDef, ast.Lambda)):
      continue
    only_comp = exempt_names(node) - binding_occurrences(node)
    if not only_comp:
      continue
    hit = set()
    free_below(tab, only_comp, hit)
    for x in own_names(node):
      if isinstance(x.ctx, ast.Load) and x.id in only_comp and not comp_exempt(x, x.id):
        hit.add(x.id)
    have = dict((s.get_name(), s) for s in tab.get_symbols())
    hit = set(n for n in hit if n in have and have[n].is_local())
    p = node
    while hit and p is not None:
      if isinstance(p, (ast.FunctionDef, ast.Lambda)):
        artefact[p] |= hit
      p = getattr(p, '_parent', None)
  for node, tab in pairs:
    if tab is None or not isinstance(node, (ast.FunctionDef, ast.Lambda)):
      continue
    nfun += 1
    if node is not top:
      depth_ok = True
    for s in tab.get_symbols():
      if s.get_name() in POOL:
        classes[s.get_name()].add(classify(s))
    what = '%s@%d' % (_tname(node), node.lineno)
    if not (anno.hasanno(node, NodeAnno.ARGS_AND_BODY_SCOPE) and anno.hasanno(node, NodeAnno.BODY_SCOPE)
            and anno.hasanno(node.args, anno.Static.SCOPE)):
      # the analysis never reached this function (it reports nothing for it)
      fails.append(('static:no_scope', {'function': what}))
      continue
    S = anno.getanno(node, NodeAnno.ARGS_AND_BODY_SCOPE)
    B = anno.getanno(node, NodeAnno.BODY_SCOPE)
    A = anno.getanno(node.args, anno.Static.SCOPE)
    syms = tab.get_symbols()
    # 1. parameters
    want = set(s.get_name() for s in syms if s.is_parameter())
    got = simple(A.params.keys())
    if want != got:
      fails.append(('static:params', {'function': what, 'cpython': sorted(want), 'malt': sorted(got)}))
    # 2./3. declarations
    for label, wantd, sets in (('globals', set(s.get_name() for s in syms if s.is_declared_global()), (S.globals, B.globals)),
                               ('nonlocals', set(s.get_name() for s in syms if s.is_nonlocal()), (S.nonlocals, B.nonlocals))):
      for which, gs in zip(('args_and_body', 'body'), sets):
        if simple(gs) != wantd:
          fails.append(('static:%s' % label, {'function': what, 'scope': which, 'cpython': sorted(wantd), 'malt': sorted(simple(gs))}))
          break
    # 4. locals
    wantl = set(s.get_name() for s in syms if s.is_local() and not s.is_parameter())
    gotl = simple(S.bound) - simple(S.globals) - simple(S.nonlocals) - got
    ex = exempt_names(node) - binding_occurrences(node)
    missing = wantl - gotl - ex
    extra = gotl - wantl
    if wantl - gotl - missing:
      stats['exempt_locals'] = stats.get('exempt_locals', 0) + 1
    if missing:
      fails.append(('static:locals:missing', {'function': what, 'missing': sorted(missing), 'cpython': sorted(wantl), 'malt': sorted(gotl)}))
    if extra:
      fails.append(('static:locals:extra', {'function': what, 'extra': sorted(extra), 'cpython': sorted(wantl), 'malt': sorted(gotl)}))
    # 5. free / global-resolved names
    nf, ng, dg = _needs(tab, None)
    own = set(s.get_name() for s in syms if s.is_free() or s.is_global())
    wantf = nf | ng
    gotf = simple(S.read) - (simple(S.bound) - simple(S.globals) - simple(S.nonlocals))
    # except-clause names are outside the property wherever they are bound below this function
    exc_names = set(h.name for h in ast.walk(node) if isinstance(h, ast.ExceptHandler) and h.name)
    dont = (dg - own) | enclosing_comp_targets(node) | artefact.get(node, set()) | exc_names
    if artefact.get(node):
      stats['calib_inlined_comprehension_capture'] = stats.get('calib_inlined_comprehension_capture', 0) + 1
    missing = wantf - gotf - dont
    extra = gotf - wantf - dont
    if (wantf ^ gotf) & dont:
      stats['calib_descendant_global'] = stats.get('calib_descendant_global', 0) + 1
    if missing:
      fails.append(('static:free:missing', {'function': what, 'missing': sorted(missing), 'cpython': sorted(wantf), 'malt': sorted(gotf)}))
    if extra:
      fails.append(('static:free:extra', {'function': what, 'extra': sorted(extra), 'cpython': sorted(wantf), 'malt': sorted(gotf)}))
    # 6. no statement of this function reports foreign parameters
    leak = set()
    for stn in own_statements(node):
      for tag in (anno.Static.SCOPE, NodeAnno.BODY_SCOPE, NodeAnno.ORELSE_SCOPE, NodeAnno.ITERATE_SCOPE, NodeAnno.COND_SCOPE):
        if anno.hasanno(stn, tag):
          leak |= simple(anno.getanno(stn, tag).params.keys())
    leak -= want
    if leak:
      fails.append(('static:params:leak', {'function': what, 'reported_as_parameters_by_statements': sorted(leak), 'cpython': sorted(want)}))
  stats['functions'] = nfun
  stats['nontrivial'] = bool(depth_ok and nfun >= 2 and any(len(v) >= 2 for v in classes.values()))
  stats['pairs'] = len(pairs)


def own_names(fn):
  """Name nodes evaluated in fn's own scope (comprehension bodies included, nested def/lambda/class bodies not)."""
  out = []

  def rec1(c):
    if isinstance(c, (ast.FunctionDef, ast.ClassDef, ast.Lambda)):
      for h in _header_children(c):
        rec1(h)
      return
    if isinstance(c, ast.Name):
      out.append(c)
    for k in ast.iter_child_nodes(c):
      rec1(k)

  for s in fn.body if not isinstance(fn, ast.Lambda) else [fn.body]:
    rec1(s)
  return out


def enclosing_comp_targets(node):
  """Iteration variables of the comprehensions a def/lambda is written in (not in their first iterable)."""
  out = set()
  c, p = node, getattr(node, '_parent', None)
  while p is not None:
    if isinstance(p, COMPS) and not _within(node, p.generators[0].iter, p):
      for g in p.generators:
        for x in ast.walk(g.target):
          if isinstance(x, ast.Name):
            out.add(x.id)
    c, p = p, getattr(p, '_parent', None)
  return out


def _within(node, ancestor, stop):
  q = node
  while q is not None and q is not stop:
    if q is ancestor:
      return True
    q = getattr(q, '_parent', None)
  return False


def own_statements(fn):
  """Statements (and other scope-annotated nodes) of fn's own scope, not of nested scopes."""
  out = []

  def rec(n):
    for c in ast.iter_child_nodes(n):
      if isinstance(c, ast.stmt) or isinstance(c, ast.withitem):
        out.append(c)
      if isinstance(c, (ast.FunctionDef, ast.ClassDef, ast.Lambda)):
        continue
      rec(c)

  for s in ([fn.body] if isinstance(fn, ast.Lambda) else fn.body):
    if isinstance(s, ast.stmt):
      out.append(s)
    if isinstance(s, (ast.FunctionDef, ast.ClassDef, ast.Lambda)):
      continue
    rec(s)
  return out


# ================================================================================================
# dynamic oracle

LOADS = {'LOAD_FAST', 'LOAD_FAST_CHECK', 'LOAD_DEREF', 'LOAD_NAME', 'LOAD_GLOBAL', 'LOAD_CLASSDEREF',
         'LOAD_FROM_DICT_OR_DEREF', 'LOAD_FROM_DICT_OR_GLOBALS'}
STORES = {'STORE_FAST', 'STORE_DEREF', 'STORE_NAME', 'STORE_GLOBAL'}
DELETES = {'DELETE_FAST', 'DELETE_DEREF', 'DELETE_NAME', 'DELETE_GLOBAL'}
CSTORES = {'STORE_ATTR', 'STORE_SUBSCR'}
CDELETES = {'DELETE_ATTR', 'DELETE_SUBSCR'}


class Abort(BaseException):
  pass


def trace_run(src, bits, top, limit=150000):
  """Executes the module and one call of drive() under opcode tracing.
  Returns (events, outcome): events = set of (kind, opname, name, span)."""
  import dis
  code = compile(src, FILENAME, 'exec')
  lo, hi = top.lineno - len(top.decorator_list), top.end_lineno
  tables = {}
  events = set()
  count = [0]

  def table(c):
    t = tables.get(c)
    if t is None:
      t = tables[c] = {}
      for k in c.co_consts:
        if hasattr(k, 'co_code'):
          table(k)
      for ins in dis.get_instructions(c):
        op = ins.opname
        if op in LOADS:
          k = 'load'
        elif op in STORES or op in CSTORES:
          k = 'store'
        elif op in DELETES or op in CDELETES:
          k = 'delete'
        else:
          continue
        p = ins.positions
        if p is None or p.lineno is None or p.col_offset is None:
          continue
        t[ins.offset] = (k, op, ins.argval if isinstance(ins.argval, str) else None,
                         (p.lineno, p.col_offset, p.end_lineno, p.end_col_offset))
    return t

  table(code)   # (all instruction tables are built before tracing starts)
  empty = {}

  def local(frame, event, arg):
    if event == 'opcode':
      count[0] += 1
      if count[0] > limit:
        raise Abort()
      e = tables.get(frame.f_code, empty).get(frame.f_lasti)
      if e is not None:
        events.add(e)
    return local

  def tracer(frame, event, arg):
    c = frame.f_code
    if c.co_filename != FILENAME or not (lo <= c.co_firstlineno <= hi):
      return None
    frame.f_trace_opcodes = True
    frame.f_trace_lines = False
    return local

  _warm_session()
  ns = {'__name__': 'vfgen_c08'}
  outcome = 'ok'
  saved_mod = sys.modules.get('vfm08')
  old = sys.gettrace()
  try:
    exec(code, ns)
    ns['_BITS'][:] = list(bits) or [1]
    ns['_POS'][0] = 0
    sys.settrace(tracer)
    try:
      ns['drive']()
    finally:
      sys.settrace(old)
  except Abort:
    outcome = 'abort:event_limit'
  except RecursionError:
    outcome = 'exc:RecursionError'
  except Exception as e:   # the generated program's own exception: the run is checked up to here
    outcome = 'exc:' + type(e).__name__
  finally:
    sys.settrace(old)
    if saved_mod is None:
      sys.modules.pop('vfm08', None)
    else:
      sys.modules['vfm08'] = saved_mod
  return events, outcome


_WARM = []


def _warm():
  return None


def _warm_session():
  """CPython 3.12.1 delivers no 'opcode' events during the first sys.settrace session of a process that
  asks for them (per-instruction monitoring is switched on lazily); a throw-away session comes first."""
  if _WARM:
    return
  _WARM.append(1)

  def noop(frame, event, arg):
    return noop

  def tr(frame, event, arg):
    frame.f_trace_opcodes = True
    return noop

  old = sys.gettrace()
  sys.settrace(tr)
  try:
    _warm()
  finally:
    sys.settrace(old)


def span(n):
  return (n.lineno, n.col_offset, n.end_lineno, n.end_col_offset)


def build_posmap(top):
  m = collections.defaultdict(list)
  for n in ast.walk(top):
    if hasattr(n, 'lineno') and hasattr(n, 'end_col_offset'):
      m[span(n)].append(n)
  return m


def comp_exempt(node, name):
  """True when `name` at `node` refers to an iteration variable of an enclosing comprehension."""
  c = node
  p = getattr(c, '_parent', None)
  while p is not None and not isinstance(p, ast.stmt):
    if isinstance(p, COMPS):
      first_iter = p.generators[0].iter
      inside_first_iter = False
      q = node
      while q is not p:
        if q is first_iter:
          inside_first_iter = True
          break
        q = q._parent
      if not inside_first_iter:
        for g in p.generators:
          for x in ast.walk(g.target):
            if isinstance(x, ast.Name) and x.id == name:
              return True
    c, p = p, getattr(p, '_parent', None)
  return False


def owner_of(node):
  """('lambda', L) when node is evaluated inside lambda L's body, ('handler', H) for an except
  clause header, else ('stmt', S, via) with the innermost statement / withitem."""
  c = node
  p = getattr(c, '_parent', None)
  item = None
  while p is not None:
    if isinstance(p, ast.Lambda) and c is p.body:
      return ('lambda', p, None)
    if isinstance(p, ast.withitem):
      item = p
    if isinstance(p, ast.ExceptHandler) and c is p.type:
      return ('handler', p, None)
    if isinstance(p, ast.stmt):
      return ('stmt', p, (c, item))
    c, p = p, getattr(p, '_parent', None)
  return ('none', None, None)


def enclosing_function(node):
  p = getattr(node, '_parent', None)
  while p is not None and not isinstance(p, (ast.FunctionDef, ast.Lambda)):
    p = getattr(p, '_parent', None)
  return p


def scopes_for(stmt, via, kind):
  """Activity scopes that must list an access made by the header of `stmt`. Returns a list of
  scopes; the access must be listed by every one of them."""
  child, item = via
  if isinstance(stmt, (ast.If, ast.While)):
    return [anno.getanno(stmt, NodeAnno.COND_SCOPE)]
  if isinstance(stmt, ast.For):
    it = anno.getanno(stmt.iter, anno.Static.SCOPE)
    if kind == 'load' or child is stmt.iter:
      return [it]
    return [it, anno.getanno(stmt, NodeAnno.ITERATE_SCOPE)]
  if isinstance(stmt, ast.With):
    if item is not None:
      return [anno.getanno(item, anno.Static.SCOPE)]
    return []
  if anno.hasanno(stmt, anno.Static.SCOPE):
    return [anno.getanno(stmt, anno.Static.SCOPE)]
  return None


def check_dynamic(top, events, fails, stats):
  posmap = build_posmap(top)
  checked = 0
  for kind, op, name, sp in sorted(events, key=repr):
    nodes = posmap.get(sp, ())
    target = None
    qn = None
    if op in CSTORES or op in CDELETES:
      for n in nodes:
        if isinstance(n, (ast.Attribute, ast.Subscript)) and isinstance(n.ctx, (ast.Store, ast.Del)) and anno.hasanno(n, anno.Basic.QN):
          target, qn = n, anno.getanno(n, anno.Basic.QN)
      if target is None:
        stats['skipped_composite_without_qn'] = stats.get('skipped_composite_without_qn', 0) + 1
        continue
      base = target
      while isinstance(base, (ast.Attribute, ast.Subscript)):
        base = base.value
      exname = base.id if isinstance(base, ast.Name) else None
    else:
      if name is None or name.startswith(('.', '__')):
        continue
      for n in nodes:
        if isinstance(n, ast.Name) and n.id == name:
          # (the cleanup of an except-clause name and the restore after an inlined comprehension
          # carry the span of an unrelated neighbouring node: demand the matching context)
          if kind == 'load' or (kind == 'store' and isinstance(n.ctx, ast.Store)) or (
              kind == 'delete' and isinstance(n.ctx, ast.Del)):
            target = n
        elif kind == 'store' and isinstance(n, (ast.FunctionDef, ast.ClassDef)) and n.name == name:
          target = n
        elif kind == 'store' and isinstance(n, (ast.Import, ast.ImportFrom)) and name in [
            (a.asname or a.name).split('.')[0] for a in n.names]:
          target = n
      if target is None:
        stats['skipped_synthetic'] = stats.get('skipped_synthetic', 0) + 1
        continue
      qn = qual_names.QN(name)
      exname = name
    if exname is not None and comp_exempt(target, exname):
      stats['exempt_comprehension_variable'] = stats.get('exempt_comprehension_variable', 0) + 1
      continue
    if isinstance(target, ast.stmt):
      scopes = [anno.getanno(target, anno.Static.SCOPE)] if anno.hasanno(target, anno.Static.SCOPE) else None
      where = '%s@%d' % (type(target).__name__, target.lineno)
    else:
      o = owner_of(target)
      if o[0] == 'lambda':
        scopes = [anno.getanno(o[1], NodeAnno.ARGS_AND_BODY_SCOPE)] if anno.hasanno(o[1], NodeAnno.ARGS_AND_BODY_SCOPE) else None
        where = 'lambda@%d' % o[1].lineno
      elif o[0] == 'handler':
        f = enclosing_function(o[1])
        scopes = [anno.getanno(f, NodeAnno.BODY_SCOPE)] if isinstance(f, ast.FunctionDef) and anno.hasanno(f, NodeAnno.BODY_SCOPE) else []
        where = 'except@%d' % o[1].lineno
      elif o[0] == 'stmt':
        scopes = scopes_for(o[1], o[2], kind)
        where = '%s@%d' % (type(o[1]).__name__, o[1].lineno)
      else:
        scopes = []
        where = '?'
    if scopes is None:
      stats['no_scope_annotation'] = stats.get('no_scope_annotation', 0) + 1
      fails.append(('dynamic:no_scope', {'statement': where, 'access': kind, 'name': str(qn)}))
      continue
    checked += 1
    for sc in scopes:
      have = sc.read if kind == 'load' else (sc.modified if kind == 'store' else sc.deleted)
      if qn not in have:
        clause = {'load': 'read', 'store': 'modified', 'delete': 'deleted'}[kind]
        fails.append(('dynamic:%s' % clause, {'statement': where, 'name': str(qn), 'opcode': op, 'span': list(sp),
                                              'reported': sorted(str(q) for q in have)}))
        break
  stats['accesses_checked'] = checked


# ================================================================================================
# case runner


def run_case(case, dynamic=True):
  fails, stats = [], {}
  src = case['src']
  try:
    compile(src, FILENAME, 'exec')
  except SyntaxError as e:
    stats['generator_slip'] = repr(e)
    return fails, stats
  try:
    tree, top = analyse(src)
  except Exception as e:
    return [('analysis:' + harness.exc_bucket(e), {'exc': repr(e)[:400]})], stats
  check_static(src, top, fails, stats)
  if dynamic:
    events, outcome = trace_run(src, case.get('bits') or [1], top)
    stats['outcome'] = outcome
    check_dynamic(top, events, fails, stats)
  out, seen = [], set()
  for b, d in fails:
    if b not in seen:
      seen.add(b)
      out.append((b, d))
  return out, stats


def shard(ctx, acc):
  b = ctx.budget
  cfg = {'stmts': b.get('stmts', 22), 'max_scope_depth': b.get('max_scope_depth', 4), 'excl': EXCL}

  def body(prog):
    case = {'src': prog['src'], 'bits': prog['bits']}
    fails, stats = run_case(case)
    cls = [k for k in prog['meta'] if k.startswith('has:')]
    for k, v in prog['meta'].items():
      if k.startswith('excluded:'):
        acc.count(k, v)
    if 'generator_slip' in stats:
      cls.append('generator_slip')
      acc.notes.append(stats['generator_slip'])
    if 'unmatched' in stats:
      cls.append('oracle_unpaired_symtable_block')
      acc.notes.append(stats['unmatched'])
    if 'outcome' in stats:
      cls.append('run=' + stats['outcome'])
      if not stats.get('accesses_checked'):
        cls.append('run_without_checked_access')
    nf = stats.get('functions', 0)
    cls.append('function_scopes=%s' % (nf if nf < 6 else '6+'))
    for k in ('exempt_locals', 'calib_descendant_global', 'calib_inlined_comprehension_capture', 'exempt_comprehension_variable', 'skipped_synthetic',
              'skipped_composite_without_qn'):
      if stats.get(k):
        acc.count('oracle:' + k, stats[k])
    acc.count('functions_compared', nf)
    acc.count('accesses_checked', stats.get('accesses_checked', 0))
    nt = bool(stats.get('nontrivial'))
    sample = None
    size = case['src'].count('\n')
    if nt and (len(acc.samples) < acc.MAX_SAMPLES or size > (acc.biggest[0] if acc.biggest else 0)):
      sample = {'src': case['src'][len(PRELUDE):], 'bits': case['bits']}
    acc.case(key=common.h8(case['src']), nontrivial=nt, classes=cls, sample=sample, size=size)
    for bkt, d in fails:
      acc.fail(bkt, case, d)

  common.hyp_run(ctx, programs(cfg), body, ctx.share('programs'))


def replay(case):
  fails, stats = run_case(case)
  return [{'bucket': b, 'detail': d} for b, d in fails]


def shrink(case, bucket, deadline):
  c = shrinker.shrink_case(case, bucket, replay, deadline)
  return c
