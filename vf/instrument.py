"""AST instrumenter (DESIGN 2.3): builds an instrumented COPY of an original (never converted)
function in which every CFG node reports when it executes, and optionally every Name load /
every binding reports too. The copy is exec'd and run: the interpreter, not a model of it,
produces the trace.

Node identity: every AST node of the parsed module gets a unique integer attribute `_vid`
before cfg.build runs; the instrumented deep copy carries the same ids.

Runtime (class Tracer) records per *activation* (one per function call):
   events: list of tuples
      ('n', vid)                    CFG node `vid` starts executing
      ('r', vid, name)              Name load node `vid` (a read of `name`) evaluated
      ('w', vid, names)             statement/header `vid` finished binding `names`
      ('d', vid, names)             statement `vid` deleted `names`
      ('fin', stmt_vid, propagating)  a finally block starts (propagating: exception in flight)
      ('call', child_activation_index) a nested activation started here
      ('stop', reason)              checking must stop here (exempt region reached)
"""
import ast
import copy
import sys

PFX = '__vf_'


def assign_ids(tree):
  n = 0
  for node in ast.walk(tree):
    node._vid = n
    n += 1
  return n


def by_id(tree):
  return dict((node._vid, node) for node in ast.walk(tree))


class Activation(object):
  __slots__ = ('fn_vid', 'events', 'parent', 'index', 'entered_exc', 'escaped')

  def __init__(self, fn_vid, parent, index, entered_exc):
    self.fn_vid = fn_vid
    self.events = []
    self.parent = parent
    self.index = index
    self.entered_exc = entered_exc
    self.escaped = False


class Tracer(object):
  """Runtime side. One instance per run."""

  def __init__(self, max_events=200000):
    self.activations = []
    self.stack = []
    self.max_events = max_events
    self.nevents = 0
    self.trystack = []

  # -- activations
  def enter(self, fn_vid):
    parent = self.stack[-1] if self.stack else None
    a = Activation(fn_vid, parent, len(self.activations), sys.exception())
    self.activations.append(a)
    if parent is not None:
      parent.events.append(('call', a.index))
    self.stack.append(a)
    return a

  def leave(self, a):
    # called from a finally wrapped around the whole body
    if sys.exception() is not a.entered_exc:
      a.escaped = True
      a.events.append(('escape',))
      if a.parent is not None:
        # an exception arriving from a call: exempt region for the caller from here on
        a.parent.events.append(('stop', 'exception-from-call'))
    while self.stack and self.stack[-1] is not a:
      self.stack.pop()
    if self.stack:
      self.stack.pop()

  # -- events
  def p(self, a, vid):
    self.nevents += 1
    if self.nevents > self.max_events:
      raise RuntimeError('vf: event budget exceeded')
    a.events.append(('n', vid))
    return True

  def it(self, a, vid, thunk):
    """Wraps a for-loop iterable: the header node is visited once per __next__ call (n+1 visits);
    the iterable expression itself is evaluated during the first visit."""
    self.p(a, vid)
    it = iter(thunk())
    first = True
    while True:
      if not first:
        self.p(a, vid)
      first = False
      try:
        v = next(it)
      except StopIteration:
        return
      yield v

  def r(self, a, vid, name, value):
    a.events.append(('r', vid, name))
    return value

  def ra(self, a, vid, name, value):
    # implicit read of an augmented-assignment target (no Load-context Name node exists for it)
    a.events.append(('ra', vid, name))
    return value

  def w(self, a, vid, names):
    a.events.append(('w', vid, names))

  def d(self, a, vid, names):
    a.events.append(('d', vid, names))

  def tryin(self, a, vid):
    self.trystack.append((a, vid, sys.exception()))

  def fin(self, a, vid):
    entered = None
    while self.trystack:
      a2, v2, exc = self.trystack.pop()
      if a2 is a and v2 == vid:
        entered = exc
        break
    prop = sys.exception() is not entered
    a.events.append(('fin', vid, prop))
    if prop:
      a.events.append(('stop', 'finally-during-propagation'))


def _call(fn, *args):
  return ast.Call(func=ast.Name(id=PFX + fn, ctx=ast.Load()), args=list(args), keywords=[])


def _const(v):
  return ast.Constant(value=v)


def _act():
  return ast.Name(id=PFX + 'a', ctx=ast.Load())


class Instrumenter(ast.NodeTransformer):
  """Instruments a deep copy. cfg_vids: set of _vid values that are CFG nodes (any graph)."""

  def __init__(self, cfg_vids, reads=False, writes=False, skip_names=()):
    self.cfg_vids = cfg_vids
    self.reads = reads
    self.writes = writes
    self.skip_names = set(skip_names)
    self.fn_depth = 0

  # ---- helpers
  def probe_stmt(self, vid):
    return ast.Expr(value=_call('p', _act(), _const(vid)))

  def probed_expr(self, vid, expr):
    # (probe, expr)[1]
    return ast.Subscript(value=ast.Tuple(elts=[_call('p', _act(), _const(vid)), expr], ctx=ast.Load()),
                         slice=_const(1), ctx=ast.Load())

  def is_node(self, n):
    return getattr(n, '_vid', None) in self.cfg_vids

  def block(self, stmts):
    out = []
    for s in stmts:
      r = self.stmt(s)
      if isinstance(r, list):
        out.extend(r)
      else:
        out.append(r)
    return out

  def bound_names(self, target):
    names = []
    for n in ast.walk(target):
      if isinstance(n, ast.Name) and isinstance(n.ctx, (ast.Store, ast.Del)):
        names.append(n.id)
    return names

  def wr_stmt(self, vid, names):
    return ast.Expr(value=_call('w', _act(), _const(vid), ast.Tuple(elts=[_const(n) for n in names], ctx=ast.Load())))

  # ---- statements
  def stmt(self, s):
    vid = getattr(s, '_vid', None)
    if isinstance(s, (ast.FunctionDef, ast.AsyncFunctionDef)):
      pre = [self.probe_stmt(vid)] if self.is_node(s) else []
      new = self.function(s)
      post = [self.wr_stmt(vid, [s.name])] if self.writes and self.fn_depth > 0 else []
      return pre + [new] + post
    if isinstance(s, ast.ClassDef):
      pre = [self.probe_stmt(vid)] if self.is_node(s) else []
      post = [self.wr_stmt(vid, [s.name])] if self.writes and self.fn_depth > 0 else []
      return pre + [s] + post
    if self.fn_depth == 0:
      return s   # module level: untouched
    if isinstance(s, ast.If):
      tvid = getattr(s.test, '_vid', None)
      s.test = self.expr(s.test)
      if tvid in self.cfg_vids:
        s.test = self.probed_expr(tvid, s.test)
      s.body = self.block(s.body)
      s.orelse = self.block(s.orelse)
      return s
    if isinstance(s, ast.While):
      tvid = getattr(s.test, '_vid', None)
      s.test = self.expr(s.test)
      if tvid in self.cfg_vids:
        s.test = self.probed_expr(tvid, s.test)
      s.body = self.block(s.body)
      s.orelse = self.block(s.orelse)
      return s
    if isinstance(s, ast.For):
      ivid = s.iter._vid
      s.iter = self.expr(s.iter)
      if ivid in self.cfg_vids:
        s.iter = _call('it', _act(), _const(ivid), ast.Lambda(
            args=ast.arguments(posonlyargs=[], args=[], kwonlyargs=[], kw_defaults=[], defaults=[]), body=s.iter))
      names = self.bound_names(s.target)
      s.body = ([self.wr_stmt(ivid, names)] if self.writes else []) + self.block(s.body)
      s.orelse = self.block(s.orelse)
      return s
    if isinstance(s, ast.With):
      posts = []
      for item in s.items:
        ivid = item._vid
        item.context_expr = self.expr(item.context_expr)
        if ivid in self.cfg_vids:
          item.context_expr = self.probed_expr(ivid, item.context_expr)
        if item.optional_vars is not None and self.writes:
          posts.append(self.wr_stmt(ivid, self.bound_names(item.optional_vars)))
      s.body = posts + self.block(s.body)
      return s
    if isinstance(s, ast.Try):
      pre = []
      s.body = self.block(s.body)
      for h in s.handlers:
        hb = self.block(h.body)
        if h.name and self.writes:
          hb = [self.wr_stmt(h._vid, [h.name])] + hb
        h.body = hb
      s.orelse = self.block(s.orelse)
      if s.finalbody:
        pre = [ast.Expr(value=_call('tryin', _act(), _const(vid)))]
        s.finalbody = [ast.Expr(value=_call('fin', _act(), _const(vid)))] + self.block(s.finalbody)
      return pre + [s]
    # simple statements ------------------------------------------------------------------
    pre = [self.probe_stmt(vid)] if self.is_node(s) else []
    post = []
    if self.writes:
      if isinstance(s, ast.Assign):
        names = []
        for tg in s.targets:
          names += self.bound_names(tg)
        if names:
          post.append(self.wr_stmt(vid, names))
      elif isinstance(s, (ast.AugAssign, ast.AnnAssign)):
        names = self.bound_names(s.target)
        if names and (not isinstance(s, ast.AnnAssign) or s.value is not None):
          post.append(self.wr_stmt(vid, names))
      elif isinstance(s, ast.Delete):
        names = []
        for tg in s.targets:
          if isinstance(tg, ast.Name):
            names.append(tg.id)
        if names:
          post.append(ast.Expr(value=_call('d', _act(), _const(vid), ast.Tuple(elts=[_const(n) for n in names], ctx=ast.Load()))))
      elif isinstance(s, (ast.Import, ast.ImportFrom)):
        names = [(al.asname or al.name.split('.')[0]) for al in s.names]
        post.append(self.wr_stmt(vid, names))
    if isinstance(s, ast.AugAssign) and self.reads and isinstance(s.target, ast.Name):
      # the implicit read of the target
      pre.append(ast.Expr(value=_call('ra', _act(), _const(s.target._vid), _const(s.target.id), ast.Name(id=s.target.id, ctx=ast.Load()))))
    s = self.expr_fields(s)
    return pre + [s] + post

  def expr_fields(self, s):
    for field, value in ast.iter_fields(s):
      if isinstance(value, ast.expr):
        setattr(s, field, self.expr(value))
      elif isinstance(value, list):
        setattr(s, field, [self.expr(v) if isinstance(v, ast.expr) else (self.keyword(v) if isinstance(v, ast.keyword) else v) for v in value])
    return s

  def keyword(self, k):
    k.value = self.expr(k.value)
    return k

  # ---- expressions
  def expr(self, e):
    if e is None:
      return e
    return self.visit(e)

  def visit_Name(self, node):
    if self.reads and isinstance(node.ctx, ast.Load) and not node.id.startswith(PFX) and node.id not in self.skip_names:
      return _call('r', _act(), _const(node._vid), _const(node.id), node)
    return node

  def visit_Lambda(self, node):
    # lambdas keep their own (uninstrumented) bodies: single-node graphs; reads inside a lambda
    # body belong to the lambda's activation which we do not trace
    return node

  def visit_ListComp(self, node):
    return self._comp(node)

  def visit_SetComp(self, node):
    return self._comp(node)

  def visit_DictComp(self, node):
    return self._comp(node)

  def visit_GeneratorExp(self, node):
    return self._comp(node)

  def _comp(self, node):
    # comprehension targets are comprehension-local; reads of them are not reads of function
    # locals. Instrument reads of other names only.
    local = set()
    for g in node.generators:
      for n in ast.walk(g.target):
        if isinstance(n, ast.Name):
          local.add(n.id)
    saved = self.skip_names
    self.skip_names = self.skip_names | local
    try:
      return self.generic_visit(node)
    finally:
      self.skip_names = saved

  # ---- functions
  def function(self, fn):
    self.fn_depth += 1
    try:
      body = self.block(fn.body)
    finally:
      self.fn_depth -= 1
    decls = []
    while body and isinstance(body[0], (ast.Global, ast.Nonlocal)):
      decls.append(body.pop(0))
    # note: probes for global/nonlocal declaration statements stay with them (they are Expr
    # statements before the declaration, which Python allows)
    enter = ast.Assign(targets=[ast.Name(id=PFX + 'a', ctx=ast.Store())], value=_call('enter', _const(fn._vid)))
    pre = [enter]
    if fn.args._vid in self.cfg_vids:
      pre.append(self.probe_stmt(fn.args._vid))
    if self.writes:
      params = [a.arg for a in fn.args.posonlyargs + fn.args.args + fn.args.kwonlyargs]
      if fn.args.vararg:
        params.append(fn.args.vararg.arg)
      if fn.args.kwarg:
        params.append(fn.args.kwarg.arg)
      pre.append(self.wr_stmt(fn.args._vid, params))
    wrapped = ast.Try(body=body or [ast.Pass()], handlers=[], orelse=[],
                      finalbody=[ast.Expr(value=_call('leave', _act()))])
    fn.body = decls + pre + [wrapped]
    # default expressions / decorators are evaluated in the enclosing activation
    return fn


def instrument(tree, cfg_vids, reads=False, writes=False):
  """Returns an instrumented deep copy of module `tree` (ids must be assigned already)."""
  t2 = copy.deepcopy(tree)
  ins = Instrumenter(cfg_vids, reads, writes)
  t2.body = ins.block(t2.body)
  ast.fix_missing_locations(t2)
  return t2


def runtime_namespace(tracer):
  return {
      PFX + 'enter': tracer.enter, PFX + 'leave': tracer.leave, PFX + 'p': tracer.p, PFX + 'it': tracer.it,
      PFX + 'r': tracer.r, PFX + 'ra': tracer.ra, PFX + 'w': tracer.w, PFX + 'd': tracer.d, PFX + 'tryin': tracer.tryin, PFX + 'fin': tracer.fin,
  }
