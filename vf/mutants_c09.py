"""Hand-written sensitivity mutants for C09 (DESIGN 4.9 "must kill" + a few more of the same family)."""
MUTANTS = {
 'C09': [
  # design: "zip closure by position of factory_code.co_freevars". The literal form
  #   factory_closure = tuple(closure)[:len(factory_code.co_freevars)]
  # is behaviour-preserving on CPython 3.12: the compiler sorts co_freevars, so fn.__code__.co_freevars and the
  # factory's co_freevars are the same sorted tuple whenever they hold the same names, and when they do not the
  # length check raises in both versions. It was run once (MISSED, as expected) and is not kept in the table.
  # the same mistake in a form that is not masked by the sorting: names deduplicated through a set
  ('m1b_closure_names_through_set', 'malt/pyct/transpiler.py',
   "    closure_map = dict(zip(self._freevars, closure))",
   "    closure_map = dict(zip(set(self._freevars), closure))"),
  ('m1c_fresh_cells', 'malt/pyct/transpiler.py',
   "        closure_map[name] for name in factory_code.co_freevars)",
   "        types.CellType(closure_map[name].cell_contents) for name in factory_code.co_freevars)"),
  ('m2_defaults_not_erased', 'malt/pyct/transpiler.py',
   "    node = self._erase_arg_defaults(node)\n", ""),
  # (patterns of m3a-c / m6 re-based on the tree after fix 3c845d4, which assigns both attributes unconditionally)
  ('m3a_kwdefaults_only_with_defaults', 'malt/pyct/transpiler.py',
   "    new_fn.__kwdefaults__ = kwdefaults\n", "    if defaults and kwdefaults:\n      new_fn.__kwdefaults__ = kwdefaults\n"),
  ('m3b_kwdefaults_never_reattached', 'malt/pyct/transpiler.py',
   "    new_fn.__kwdefaults__ = kwdefaults\n", "    pass\n"),
  ('m3c_kwdefaults_copied', 'malt/pyct/transpiler.py',
   "    new_fn.__kwdefaults__ = kwdefaults\n", "    new_fn.__kwdefaults__ = {k: (list(v) if isinstance(v, list) else v) for k, v in kwdefaults.items()} if kwdefaults else kwdefaults\n"),
  ('m4_globals_copied', 'malt/pyct/transpiler.py',
   "        globals_=fn.__globals__,", "        globals_=dict(fn.__globals__),"),
  ('m5_decorators_kept', 'malt/converters/functions.py',
   "        node.decorator_list = []", "        pass"),
  ('m6_defaults_from_cached_first_instance', 'malt/pyct/transpiler.py',
   "    new_fn.__defaults__ = defaults\n", "    if defaults and new_fn.__defaults__ and len(new_fn.__defaults__) == len(defaults):\n      new_fn.__defaults__ = defaults\n"),
  ('m7_namespace_snapshot_instead_of_cells', 'malt/pyct/transpiler.py',
   "        closure=fn.__closure__ or (),", "        closure=tuple(types.CellType(v) for v in [inspect_utils.getnamespace(fn).get(n) for n in fn.__code__.co_freevars]),"),
  # ---- dynamic conversion (api.converted_call): the instance of a bound method / callable object goes first, whatever
  # it answers to bool() / == ; partials are unwrapped without losing or reordering their frozen arguments
  ('m8_method_instance_tested_by_truth', 'malt/impl/api.py',
   "      if f_self is not None:\n", "      if f_self:\n"),
  ('m9_method_instance_tested_by_inequality', 'malt/impl/api.py',
   "      if f_self is not None:\n", "      if f_self != None:\n"),
  ('m10_callable_object_instance_tested_by_truth', 'malt/impl/api.py',
   "      effective_args = (f,) + args\n", "      effective_args = ((f,) if f else ()) + args\n"),
  ('m11_partial_frozen_keywords_dropped', 'malt/impl/api.py',
   "      new_kwargs = f.keywords.copy()\n", "      new_kwargs = {}\n"),
  ('m12_partial_frozen_args_after_call_args', 'malt/impl/api.py',
   "    new_args = f.args + args\n", "    new_args = args + f.args\n"),
  # ---- call sites inside converted code: whatever iterable is starred, converted_call receives a tuple; every nested
  # scope keeps its own global / nonlocal declarations
  ('m13_starred_iterable_not_copied_to_tuple', 'malt/converters/call_trees.py',
   "    self._argspec.append(\n        ast.Call(\n            ast.Name('tuple', ctx=ast.Load()),\n            args=[a],\n            keywords=[]))\n",
   "    self._argspec.append(a)\n"),
  ('m14_nested_nonlocal_declaration_leaks_to_enclosing_function', 'malt/pyct/static_analysis/activity.py',
   "      if not self.isolated:\n        self.parent.hidden_names.update(self.isolated_names | self.hidden_names)\n",
   "      self.parent.nonlocals.update(self.nonlocals)\n      if not self.isolated:\n        self.parent.hidden_names.update(self.isolated_names | self.hidden_names)\n"),
 ],
}
