"""Hand-written sensitivity mutants for C19 (DESIGN 4.19 must-kill list + extras): same format as vf/mutants_table.py."""
_TI = 'malt/pyct/static_analysis/type_inference.py'
MUTANTS = {
 'C19': [
  # DESIGN must-kill 1: the join overwrites instead of uniting
  ('m1_join_overwrites', _TI,
   "        self_types = result.types[s]\n      self_types.update(other_types)",
   "        self_types = result.types[s]\n      self_types.clear()\n      self_types.update(other_types)"),
  # DESIGN must-kill 2: closure types never recorded. Taken literally this only makes the inference say less about
  # captured variables ("reports nothing" is allowed); it is listed to document that and is detected only through
  # the stale-type-after-unknown-store behaviour (finding F21) it interacts with.
  ('m2_closure_types_never_recorded', _TI,
   "        if def_node.name in reads:\n          self._update_closure_types(def_node, types_out)",
   "        if def_node.name in reads:\n          pass"),
  ('m2b_closure_types_recorded_at_first_call_only', _TI,
   "    existing_types = anno.Static.CLOSURE_TYPES.of(ast_node, None)\n\n    if existing_types is None:",
   "    existing_types = anno.Static.CLOSURE_TYPES.of(ast_node, None)\n    if existing_types is not None:\n      return\n\n    if existing_types is None:"),
  # DESIGN must-kill 3: new symbols not propagated. Literal form = nothing is ever typed (allowed: reports nothing);
  # 3b/3c are the wrong-set variants.
  ('m3_new_symbols_not_propagated', _TI,
   "    types_out.types.update(inferrer.new_symbols)",
   "    pass"),
  ('m3b_new_symbols_never_replace_old_type', _TI,
   "    types_out.types.update(inferrer.new_symbols)",
   "    for k_, v_ in inferrer.new_symbols.items():\n      types_out.types.setdefault(k_, v_)"),
  ('m3c_chained_assign_types_first_target_only', _TI,
   "    for t in node.targets:\n      self.visit(t)\n\n    self.rtype = None",
   "    for t in node.targets[:1]:\n      self.visit(t)\n\n    self.rtype = None"),
  ('m4_no_fixpoint_iteration', _TI,
   "    return prev_types_out != types_out",
   "    return False"),
  ('m5_join_uses_first_predecessor_only', _TI,
   "    for n in node.prev:\n      types_in |= self.out[n]",
   "    for n in list(node.prev)[:1]:\n      types_in |= self.out[n]"),
  ('m6_tuple_literal_zips_element_types', _TI,
   "      return set(itertools.product(*elt_types))",
   "      return set(zip(*elt_types))"),
  ('m7_unpacking_uses_index_zero', _TI,
   "        self.rtype = self.resolver.res_slice(\n            self.namespace, self.types_in.types, i, original_stype, i_type)",
   "        self.rtype = self.resolver.res_slice(\n            self.namespace, self.types_in.types, 0, original_stype, i_type)"),
  ('m8_closure_type_used_for_shadowing_local', _TI,
   "        if (name not in self.scope.bound) or (name in self.scope.nonlocals):",
   "        if True:"),
  ('m9_typemap_eq_ignores_type_sets', _TI,
   "    ret = all(self.types[s] == other.types[s] for s in self.types)\n    return ret",
   "    return True"),
  ('m10_closure_types_overwritten_by_last_call', _TI,
   "      if k in existing_types:\n        existing_types[k].update(v)",
   "      if k in existing_types:\n        existing_types[k] = set(v)"),
  ('m12_binop_takes_left_operand_type', _TI,
   "    types = self.resolver.res_binop(\n        self.namespace, self.types_in.types, node, left_types, right_types)",
   "    types = set(left_types)"),
  ('m13_compare_result_typed_as_left_operand', _TI,
   "    types = self.resolver.res_compare(\n        self.namespace, self.types_in.types, node, left_types, right_types)",
   "    types = set(left_types)"),
  ('m14_subscript_typed_as_container', _TI,
   "    types = self.resolver.res_slice(\n        self.namespace, self.types_in.types, node, val_types, slice_types)",
   "    types = set(val_types)"),
  # shapes added in round 2 (generator extension): local functions whose def does not dominate a call site (defined in a loop
  # body / one branch, called at the start of the body / after the join behind a flag; redefinitions) ...
  ('m15_fndefs_not_propagated_over_back_edges', 'malt/pyct/static_analysis/reaching_fndefs.py',
   "    return prev_defs_out != defs_out",
   "    return False"),
  # ... and nonlocal declarations (at the top of the function or inside an if/while/for block) of a variable the function
  # rebinds with another type: the declaration must reach the function scope, or the variable is treated as a plain local
  # (a declaration directly in the function body still reaches it, as in the repo's tests; one made in a nested block is lost)
  ('m16_nonlocal_declared_in_nested_block_not_propagated_to_function_scope', 'malt/pyct/static_analysis/activity.py',
   "        self.parent.globals.update(self.globals)\n        self.parent.nonlocals.update(self.nonlocals)",
   "        self.parent.globals.update(self.globals)\n        if self.parent.isolated or (self.parent.parent is not None and self.parent.parent.isolated):\n"
   "          self.parent.nonlocals.update(self.nonlocals)"),
  # shapes added in round 3: else clauses of loops (a jump written there belongs to the ENCLOSING loop; the type a variable has on
  # that path travels along the jump edge only) ...
  ('m17_jump_in_for_else_bound_to_the_for_loop_itself', 'malt/pyct/cfg.py',
   "orelse will affect the parent loop, not the current one.\n    self._exit_lexical_scope(node)\n\n"
   "    for stmt in node.orelse:\n      self.visit(stmt)\n",
   "orelse will affect the parent loop, not the current one.\n\n"
   "    for stmt in node.orelse:\n      self.visit(stmt)\n    self._exit_lexical_scope(node)\n"),
  ('m17b_jump_in_while_else_bound_to_the_while_loop_itself', 'malt/pyct/cfg.py',
   "break in the loop's orelse will not affect the loop itself.\n    self._exit_lexical_scope(node)\n\n"
   "    for stmt in node.orelse:\n      self.visit(stmt)\n",
   "break in the loop's orelse will not affect the loop itself.\n\n"
   "    for stmt in node.orelse:\n      self.visit(stmt)\n    self._exit_lexical_scope(node)\n"),
  # ... and calls of a local function made from a function nested two or more levels below the scope that defines it (the
  # definitions a function closes over must be passed down through every level)
  ('m18_closed_over_fndefs_not_passed_below_the_first_level', 'malt/pyct/static_analysis/reaching_fndefs.py',
   "      defined_in = self.current_analyzer.in_[cfg_node].value\n",
   "      defined_in = (set(self.current_analyzer.in_[cfg_node].value)\n"
   "                    - set(self.current_analyzer.external_defs))\n"),
 ],
}
