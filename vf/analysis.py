"""Runs malt's static analyses on a parsed module and captures the per-graph analyzers (DESIGN 1.4)."""
import ast
import contextlib

from malt.pyct import anno
from malt.pyct import cfg
from malt.pyct import naming
from malt.pyct import qual_names
from malt.pyct import transformer
from malt.pyct.static_analysis import activity
from malt.pyct.static_analysis import liveness
from malt.pyct.static_analysis import reaching_definitions
from malt.pyct.static_analysis import reaching_fndefs
from malt.pyct.static_analysis.annos import NodeAnno

from vf import instrument


@contextlib.contextmanager
def recording(cls, sink):
  orig = cls.__init__

  def wrapped(self, *a, **k):
    orig(self, *a, **k)
    sink.append(self)

  cls.__init__ = wrapped
  try:
    yield
  finally:
    cls.__init__ = orig


class Analysed(object):
  pass


def analyse(src, top='make', want=('rd', 'live')):
  """Parses module `src`, analyses top-level function `top` (and everything nested in it).
  Returns an Analysed with: tree, fn, graphs, rd (graph id -> Analyzer), live (graph id -> Analyzer),
  node_of (vid -> cfg Node), graph_of_fn (fn vid -> Graph), fn_of_graph, cfg_vids."""
  a = Analysed()
  tree = ast.parse(src)
  instrument.assign_ids(tree)
  a.tree = tree
  a.fn = [n for n in tree.body if isinstance(n, ast.FunctionDef) and n.name == top][0]
  info = transformer.EntityInfo(name=top, source_code=src, source_file=None, future_features=(), namespace={})
  ctx = transformer.Context(info, naming.Namer({}), None)
  node = qual_names.resolve(a.fn)
  node = activity.resolve(node, ctx)
  a.graphs = cfg.build(node)
  rd_list, live_list = [], []
  if 'rd' in want:
    with recording(reaching_definitions.Analyzer, rd_list):
      node = reaching_definitions.resolve(node, ctx, a.graphs, reaching_definitions.Definition)
  if 'live' in want:
    node = reaching_fndefs.resolve(node, ctx, a.graphs)
    with recording(liveness.Analyzer, live_list):
      node = liveness.resolve(node, ctx, a.graphs)
  assert node is a.fn
  a.rd = dict((id(x.graph), x) for x in rd_list)
  a.live = dict((id(x.graph), x) for x in live_list)
  a.cfg_vids = set()
  a.node_of = {}
  a.graph_of_fn = {}
  a.fnnode_of = {}
  for fn_node, g in a.graphs.items():
    a.graph_of_fn[fn_node._vid] = g
    a.fnnode_of[fn_node._vid] = fn_node
    for an, n in g.index.items():
      a.cfg_vids.add(an._vid)
      a.node_of[an._vid] = n
  a.by_vid = instrument.by_id(tree)
  return a


def fn_locals(fn):
  """(locals, declared_global, declared_nonlocal) of a FunctionDef by Python's binding rules
  (simple names; comprehension targets and except names excluded)."""
  bound = set()
  g, nl = set(), set()
  args = fn.args
  for arg in args.posonlyargs + args.args + args.kwonlyargs:
    bound.add(arg.arg)
  if args.vararg:
    bound.add(args.vararg.arg)
  if args.kwarg:
    bound.add(args.kwarg.arg)

  def rec(n):
    for c in ast.iter_child_nodes(n):
      if isinstance(c, (ast.FunctionDef, ast.AsyncFunctionDef, ast.ClassDef)):
        bound.add(c.name)
        continue
      if isinstance(c, ast.Lambda):
        continue
      if isinstance(c, (ast.ListComp, ast.SetComp, ast.DictComp, ast.GeneratorExp)):
        # only the first iterable is evaluated in this scope; targets are isolated
        rec_expr_names(c.generators[0].iter)
        continue
      if isinstance(c, ast.Global):
        g.update(c.names)
      elif isinstance(c, ast.Nonlocal):
        nl.update(c.names)
      elif isinstance(c, ast.Name) and isinstance(c.ctx, (ast.Store, ast.Del)):
        bound.add(c.id)
      elif isinstance(c, (ast.Import, ast.ImportFrom)):
        for al in c.names:
          bound.add(al.asname or al.name.split('.')[0])
      elif isinstance(c, ast.NamedExpr):
        pass
      rec(c)

  def rec_expr_names(e):
    rec(e)

  for s in fn.body:
    if isinstance(s, (ast.FunctionDef, ast.AsyncFunctionDef, ast.ClassDef)):
      bound.add(s.name)
      continue
    if isinstance(s, ast.Global):
      g.update(s.names)
      continue
    if isinstance(s, ast.Nonlocal):
      nl.update(s.names)
      continue
    rec(s)
  return bound - g - nl, g, nl


def enclosing_compounds(a, fn_node):
  """vid of CFG node -> list of compound statements (If/While/For/Try/ExceptHandler/With) of
  fn_node that lexically contain it (outermost first)."""
  out = {}
  kinds = (ast.If, ast.While, ast.For, ast.Try, ast.ExceptHandler, ast.With)

  def rec(n, stack):
    if n._vid in a.cfg_vids:
      out[n._vid] = list(stack)
    if isinstance(n, (ast.FunctionDef, ast.Lambda, ast.ClassDef)) and n is not fn_node:
      return
    st = stack + [n] if isinstance(n, kinds) else stack
    for c in ast.iter_child_nodes(n):
      rec(c, st)

  rec(fn_node, [])
  return out
