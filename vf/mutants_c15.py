"""Hand-written sensitivity mutants for C15 (DESIGN 1.6 / 4.15): {ID: [(name, file, old, new)]}."""
MUTANTS = {
 'C15': [
  # must-kill list of the design
  ('m1_dedent_strips_block_level_from_every_line', 'malt/pyct/parser.py',
   "    if len(original_indent) > len(new_indent):\n      dedented_line = line[len(original_indent) - len(new_indent):]\n    else:\n      dedented_line = line",
   "    if len(original_indent) >= block_level:\n      dedented_line = line[block_level:]\n    else:\n      dedented_line = line"),
  ('m2_lambda_argspec_narrowing_dropped', 'malt/pyct/parser.py',
   "  matches = [v for v in candidates if _node_matches_argspec(v[0], lam)]",
   "  matches = candidates[:1]"),
  ('m3_without_context_col_offset_plus_one', 'malt/pyct/parser.py',
   "    code_lines[0] = code_lines[0][col_offset:]",
   "    code_lines[0] = code_lines[0][col_offset + 1:]"),
  # further realistic breakage of the three mechanisms
  ('m4_getimmediatesource_unwraps', 'malt/pyct/inspect_utils.py',
   "    lines, lnum = inspect.findsource(obj)",
   "    lines, lnum = inspect.findsource(inspect.unwrap(obj))"),
  ('m5_linecache_record_not_repaired', 'malt/pyct/inspect_utils.py',
   "    _fix_linecache_record(obj)\n    lines, lnum",
   "    lines, lnum"),
  # (m6 re-based on the token-aware unfolding introduced by the F10 repair)
  # the old form (replace backslash-newline by a blank everywhere) no longer applies and its direct
  # translation (a blank at a real continuation) is an equivalent mutant; this is the nearest live one
  ('m6_unfold_first_row_of_string_unprotected', 'malt/pyct/parser.py',
   "      elif tok.type == tokenize.STRING or tok.type == fstring_middle:\n        string_rows.update(range(tok.start[0], tok.end[0]))",
   "      elif tok.type == tokenize.STRING or tok.type == fstring_middle:\n        string_rows.update(range(tok.start[0] + 1, tok.end[0]))"),
  ('m7_leading_whitespace_spaces_only', 'malt/pyct/parser.py',
   "_LEADING_WHITESPACE = re.compile(r'\\s*')",
   "_LEADING_WHITESPACE = re.compile(r' *')"),
  ('m8_lambda_span_from_body', 'malt/pyct/parser.py',
   "      minl = min(minl, getattr(n, 'lineno', minl))",
   "      minl = min(minl, getattr(n, 'lineno', minl)) if n is not ln else minl"),
  ('m9_lambda_first_on_line_wins', 'malt/pyct/parser.py',
   "  if len(candidates) == 1:\n    (node, minl, maxl), = candidates  # pylint:disable=unbalanced-tuple-unpacking",
   "  if len(candidates) >= 1:\n    (node, minl, maxl) = candidates[0]"),
  # round 2: shapes added with the PEP 701 field grammar and the wrapped-lambda arrangements
  # (m10-m13 were rewritten after the FC15h / FC15j repairs replaced the code they changed)
  ('m10_fstring_literal_parts_unprotected', 'malt/pyct/parser.py',
   "      elif tok.type == tokenize.STRING or tok.type == fstring_middle:",
   "      elif tok.type == tokenize.STRING:"),
  ('m11_every_row_of_an_fstring_protected', 'malt/pyct/parser.py',
   "  protected_rows |= string_rows\n",
   "  protected_rows |= string_rows | fstring_rows\n"),
  ('m11b_compensating_line_may_land_inside_an_fstring', 'malt/pyct/parser.py',
   "        (i + 1) not in string_rows and (i + 1) not in fstring_rows):",
   "        (i + 1) not in string_rows):"),
  ('m12_lambda_parameters_of_the_unwrapped_callable', 'malt/pyct/parser.py',
   "  code = func.__code__\n  names = code.co_varnames",
   "  code = inspect.unwrap(func).__code__\n  names = code.co_varnames"),
  ('m13_lambda_positional_parameters_via_getfullargspec', 'malt/pyct/parser.py',
   "  if node_args != tuple(names[:num_args]):",
   "  if node_args != tuple(inspect.getfullargspec(func).args):"),
  ('m14_islambda_trusts_the_function_name', 'malt/pyct/inspect_utils.py',
   "  return f.__code__.co_name == '<lambda>'",
   "  return f.__name__ == '<lambda>' or f.__code__.co_name == '<lambda>'"),
  # round 3: signature families (equal name sets, roles permuted) and the rewrite-and-reload history
  ('m15_lambda_lines_not_revalidated_after_file_change', 'malt/pyct/parser.py',
   "  linecache.checkcache(f)\n  lines = linecache.getlines(f, mod.__dict__)",
   "  lines = linecache.getlines(f, mod.__dict__)"),
  # (mutants that merely loosen the matching - names compared as sets, *args/**kwargs only by presence -
  # or make the true node unmatchable turn into the explicit "multiple/no matching" error the property
  # allows; the ones below permute what is read, so that exactly one WRONG sibling matches)
  ('m16_lambda_varkw_name_read_before_varargs_name', 'malt/pyct/parser.py',
   "  varargs = None\n  if code.co_flags & inspect.CO_VARARGS:\n    varargs = names[pos]\n    pos += 1\n  if varargs != _arg_name(node.args.vararg):\n    return False\n\n  varkw = names[pos] if code.co_flags & inspect.CO_VARKEYWORDS else None\n",
   "  varkw = None\n  if code.co_flags & inspect.CO_VARKEYWORDS:\n    varkw = names[pos]\n    pos += 1\n  varargs = names[pos] if code.co_flags & inspect.CO_VARARGS else None\n  if varargs != _arg_name(node.args.vararg):\n    return False\n\n"),
  ('m17_lambda_kwonly_names_in_reverse_order', 'malt/pyct/parser.py',
   "  if node_kwonlyargs != tuple(names[num_args:num_args + num_kwonlyargs]):",
   "  if node_kwonlyargs != tuple(reversed(names[num_args:num_args + num_kwonlyargs])):"),
  ('m18_lambda_positional_names_in_reverse_order', 'malt/pyct/parser.py',
   "  if node_args != tuple(names[:num_args]):",
   "  if node_args != tuple(reversed(names[:num_args])):"),
 ],
}
