"""Hand-written sensitivity mutants for C15 (DESIGN 1.6 / 4.15): {ID: [(name, file, old, new)]}."""
MUTANTS = {
 'C15': [
  # must-kill list of the design
  ('m1_dedent_strips_block_level_from_every_line', 'malt/pyct/parser.py',
   "    if len(original_indent) > len(new_indent):\n      dedented_line = line[len(original_indent) - len(new_indent):]\n    else:\n      dedented_line = line",
   "    if len(original_indent) >= block_level:\n      dedented_line = line[block_level:]\n    else:\n      dedented_line = line"),
  ('m2_lambda_argspec_narrowing_dropped', 'malt/pyct/parser.py',
   "  matches = [v for v in candidates if _node_matches_argspec(v[0], lam)]",
   "  matches = candidates[:1]"),
  ('m3_without_context_col_offset_plus_one', 'malt/pyct/parser.py',
   "    code_lines[0] = code_lines[0][col_offset:]",
   "    code_lines[0] = code_lines[0][col_offset + 1:]"),
  # further realistic breakage of the three mechanisms
  ('m4_getimmediatesource_unwraps', 'malt/pyct/inspect_utils.py',
   "    lines, lnum = inspect.findsource(obj)",
   "    lines, lnum = inspect.findsource(inspect.unwrap(obj))"),
  ('m5_linecache_record_not_repaired', 'malt/pyct/inspect_utils.py',
   "    _fix_linecache_record(obj)\n    lines, lnum",
   "    lines, lnum"),
  ('m6_unfold_inserts_space', 'malt/pyct/parser.py',
   "  return code_string.replace('\\\\\\n', '')",
   "  return code_string.replace('\\\\\\n', ' ')"),
  ('m7_leading_whitespace_spaces_only', 'malt/pyct/parser.py',
   "_LEADING_WHITESPACE = re.compile(r'\\s*')",
   "_LEADING_WHITESPACE = re.compile(r' *')"),
  ('m8_lambda_span_from_body', 'malt/pyct/parser.py',
   "      minl = min(minl, getattr(n, 'lineno', minl))",
   "      minl = min(minl, getattr(n, 'lineno', minl)) if n is not ln else minl"),
  ('m9_lambda_first_on_line_wins', 'malt/pyct/parser.py',
   "  if len(candidates) == 1:\n    (node, minl, maxl), = candidates  # pylint:disable=unbalanced-tuple-unpacking",
   "  if len(candidates) >= 1:\n    (node, minl, maxl) = candidates[0]"),
 ],
}
