"""C12 - errors in converted code are reported at the original source location.

Generated modules contain a call chain prog -> k1 -> ... -> kn (n <= 4) of vf.progen function
bodies (total, one statement per line).  A call to the next link is inserted at a position that
the traced reference run really reaches (any nesting depth, also inside nested defs), and the last
link receives exactly one failing statement.  The unconverted run gives the reference traceback U
(frames of the generated module, outermost first); the same program is then run through
malt.convert and the exception that reaches the caller is compared with it:

  type       same class when the class takes a plain message and no class of its MRO written in
             Python defines __init__/__new__ (KeyError: the KeyError-named subclass), StagingError
             when one does (or the builtin has an initialiser of its own: OSError, ImportError)
  message    ag_error_metadata.cause_message == "<Type>: <str(original)>" and it is part of str()
  location   first listed frame of the generated module == U[-1] (file, line, function, code line)
  stack      listed module frames, outermost first, are a subsequence of U (with multiplicity);
             the number of entries flagged converted equals the number of separately converted
             functions on the call path according to a model of the documented conversion policy
             (recursive conversion, do_not_convert, callees of native builtins, explicit
             malt.convert re-entry), and the i-th such entry is a frame of the i-th such function
  source map every entry of the source map of every conversion made during the run (recorded by
             wrapping api._convert_actual) names the module file, a line whose text equals
             source_code_line and, when the generated line carries statement markers (unique
             literals 1xxxx wrapped around the expression slot of every statement), the line of
             one of these markers; function_name is the enclosing def (def/decorator lines exempt)
"""
import ast
import os
import re
import sys
import traceback

import hypothesis.strategies as st

import malt
from malt.core import converter
from malt.impl import api
from vf import common
from vf import diffobs
from vf import harness
from vf import progen
from vf import rt
from vf import shrink as shrinker

ID = 'C12'
LEVEL = 'exploration'
TECHNIQUE = ('property-based testing with a trace oracle: Hypothesis-generated call chains of vf.progen bodies with one failing '
             'statement inserted at a position the traced reference run reaches; traceback of the unconverted run vs the '
             'ag_error_metadata of the exception re-raised by malt.convert (type rule, message, innermost frame, frame order, '
             'model of which links are converted), plus a marker-based check of every source map built during the run')
RULE = ('one evaluation = one (module, input, convert options) run. Modules: prog plus 0-4 callee links, every body drawn from '
        'vf.progen (if/while/for/try-finally/with/nested defs/early returns...), links called as plain/keyword/star/partial '
        'calls, through do_not_convert, through native builtins (map, sorted key=, max key=, filter) or through an explicit '
        'malt.convert re-entry; the call of each link and the failing statement are inserted at drawn positions among the lines '
        'the reference run executes. Failing statements: explicit raise of builtin and user classes (with/without custom '
        '__init__, subclasses of both), failing builtins, KeyError/IndexError/ZeroDivisionError/TypeError/AttributeError/'
        'ValueError/StopIteration/AssertionError producers, in 15 statement forms incl. compound-statement headers. '
        'Non-trivial = the failing statement is nested >= 2 compound statements deep, or it is reached through >= 2 '
        'converted callees; distinct by SHA1 of (source, input, options).')
ASSUMPTIONS = [
    'the reference traceback is CPython\'s traceback.extract_tb of the unconverted run restricted to frames of the generated module',
    'which links are converted is predicted by a model of the documented policy (recursive=True converts user callees; '
    'do_not_convert and everything below it is native; callees of native builtins are native; malt.convert re-enters unless disabled)',
    'one statement per source line; lambdas and comprehensions never contain the failing expression\'s own frame',
    'exception type is not asserted for builtin classes outside the documented list that have no initialiser of their own '
    '(ZeroDivisionError, IndexError...: DESIGN 6 calibration, reported as the same root cause as finding shape '
    'no_initless_subclass_of_builtin_error)',
    'source-map entries keyed by a line of the original file (one stray identity entry per conversion, left by copy_origin '
    'annotating the interpreter-wide ast.Load singleton) are not entries for generated lines: counted, not checked',
    'the cause message is looked up in str(exception) after removing the four-space indentation get_message adds to every line',
    'shapes of reported findings are excluded by construction (coverage.classes excluded:*): initless user subclass of a builtin '
    'error other than Exception, self-recursive links, failing default/decorator of a nested def, arity errors on converted '
    'callees, KeyError crossing two malt.convert wrappers, assert under ASSERT_STATEMENTS',
]
LEVEL_TEXT = ('Randomised exploration of (program, failing statement, position, chain shape, options); every case is executed '
              'both ways and compared against the interpreter\'s own traceback. No claim beyond the cases counted.')
LEVEL_NOTE = ('Trusted: CPython tracebacks, sys.settrace reachability, the conversion-policy model (cross-checked: a model '
              'mismatch is a failure bucket, not a skip). Out of reach: multi-line statements, lambdas/comprehension frames, '
              'exceptions caught and re-raised, chains > 5 functions.')

_KEEP = []
EXCL = ('no_all_branch_rebind_in_nested_block', 'no_handler_only_binding', 'no_for_target_rebind',
        'no_lambda_capture_across_rebind', 'no_impure_chain_middle')
# shapes of C12 findings, excluded by construction (each redirected draw is counted)
# FC12a, FC12e and FC12f were repaired in /repo (fix: commits): their shapes are generated again
C12_EXCL = ('no_recursive_link', 'no_failing_def_header', 'no_arity_error_on_converted_callee',
            'no_assert_under_ASSERT_STATEMENTS')   # FC12g: the asserts converter replaces a missing message and rejects non-constant ones


def budget(tier):
  if tier == 'thorough':
    return {'cases': 7500, 'max_depth': 4, 'budget': 16, 'kbudget': 10, 'max_chain': 4, 'shrink_s': 90, 'wall_cap': 3000}
  return {'cases': 720, 'max_depth': 3, 'budget': 12, 'kbudget': 8, 'max_chain': 3, 'shrink_s': 20, 'wall_cap': 600}


# ------------------------------------------------------------------------------------------------
# module text

PRELUDE = '''import malt
from malt.impl import api as _api
from vf.rt import *
G0 = 0
G1 = 5
DNC = _api.do_not_convert
_RC = [False]
def _rc(f):
  if _RC[0]:
    return malt.convert(recursive=True)(f)
  return f
RC = _api.do_not_convert(_rc)
class U1(Exception):
  pass
class U2(ValueError):
  pass
class U3(Exception):
  def __init__(self, p, q):
    super().__init__('%s/%s' % (p, q))
    self.p = p
class U4(RuntimeError):
  def __init__(self, p, *, k):
    super().__init__('%s:%s' % (p, k))
class U5(U1):
  pass
class U6(U3):
  pass
class U7(Exception):
  def __init__(self, msg):
    super().__init__(msg)
class U8(TypeError):
  def __init__(self, p, q):
    super().__init__('%s~%s' % (p, q))
class U9(LookupError):
  pass
'''

ARGS = 'a, b, o, d, l'

# (key, expression, exception class name)
FAIL_EXPRS = [
    ('key_d', "d['zz']", 'KeyError'), ('key_lit', '{1: 2}[a + 70]', 'KeyError'), ('key_pop', "d.pop('zz')", 'KeyError'),
    ('idx_l', 'l[99]', 'IndexError'), ('idx_lit', '[1, 2][a + 70]', 'IndexError'), ('idx_pop', '[].pop()', 'IndexError'),
    ('idx_range', 'range(2)[5]', 'IndexError'),
    ('zdiv', '1 // (a - a)', 'ZeroDivisionError'), ('zmod', 'a % (b - b)', 'ZeroDivisionError'), ('zdivmod', 'divmod(a, 0)', 'ZeroDivisionError'),
    ('type_add', "a + 's'", 'TypeError'), ('type_none', 'None + a', 'TypeError'), ('type_len', 'len(a)', 'TypeError'),
    ('type_call', 'o()', 'TypeError'), ('type_abs', "abs('s')", 'TypeError'), ('type_int', 'int(None)', 'TypeError'),
    ('type_sub', "l['x']", 'TypeError'), ('type_sorted', "sorted([1, 's'])", 'TypeError'), ('type_zip', 'zip(1)', 'TypeError'),
    ('type_range', "range('a')", 'TypeError'), ('type_min', 'min(1)', 'TypeError'), ('type_any', 'any(1)', 'TypeError'),
    ('type_map', 'list(map(len, [1]))', 'TypeError'), ('type_enum', 'enumerate(1)', 'TypeError'),
    ('attr_o', 'o.nope', 'AttributeError'), ('attr_int', 'a.nope', 'AttributeError'), ('attr_none', 'None.nope', 'AttributeError'),
    ('attr_get', "getattr(o, 'nope')", 'AttributeError'), ('attr_meth', 'l.nope()', 'AttributeError'),
    ('val_int', "int('x')", 'ValueError'), ('val_max', 'max([])', 'ValueError'), ('val_index', '[1].index(a + 70)', 'ValueError'),
    ('val_range', 'range(0, 5, a - a)', 'ValueError'), ('val_float', "float('x')", 'ValueError'),
    ('stop_next', 'next(iter([]))', 'StopIteration'),
]

# (key, statement, exception class name)
FAIL_RAISES = [
    ('raise_ValueError', "raise ValueError('m%d' % a)", 'ValueError'), ('raise_ValueError_cls', 'raise ValueError', 'ValueError'),
    ('raise_KeyError', "raise KeyError('k')", 'KeyError'), ('raise_RuntimeError', "raise RuntimeError('line1\\nline2')", 'RuntimeError'),
    ('raise_TypeError', "raise TypeError('m')", 'TypeError'), ('raise_Exception', "raise Exception('m', 2)", 'Exception'),
    ('raise_NotImplementedError', 'raise NotImplementedError', 'NotImplementedError'),
    ('raise_AttributeError', "raise AttributeError('m')", 'AttributeError'), ('raise_AssertionError', "raise AssertionError('m')", 'AssertionError'),
    ('raise_StopIteration', "raise StopIteration('m')", 'StopIteration'), ('raise_NameError', "raise NameError('m')", 'NameError'),
    ('raise_IndexError', "raise IndexError('m')", 'IndexError'), ('raise_ZeroDivisionError', "raise ZeroDivisionError('m')", 'ZeroDivisionError'),
    ('raise_OSError', "raise OSError('m')", 'OSError'), ('raise_ImportError', "raise ImportError('m')", 'ImportError'),
    ('raise_U1', "raise U1('m%d' % b)", 'U1'), ('raise_U1_noargs', 'raise U1()', 'U1'), ('raise_U1_cls', 'raise U1', 'U1'),
    ('raise_U1_2args', "raise U1('p', 2)", 'U1'),
    ('raise_U2', "raise U2('m')", 'U2'), ('raise_U9', "raise U9('m')", 'U9'),
    ('raise_U3', 'raise U3(a, 2)', 'U3'), ('raise_U4', 'raise U4(1, k=b)', 'U4'), ('raise_U5', "raise U5('m')", 'U5'),
    ('raise_U6', 'raise U6(1, 2)', 'U6'), ('raise_U7', "raise U7('m')", 'U7'), ('raise_U8', 'raise U8(a, b)', 'U8'),
    # messages with a trailing newline, blank lines and the other characters str.splitlines breaks at
    ('raise_msg_trailing_newline', "raise ValueError('tail\\n')", 'ValueError'), ('raise_msg_crlf', "raise U1('a\\r\\nb')", 'U1'),
    ('raise_msg_formfeed', "raise RuntimeError('x\\x0cy\\x0b')", 'RuntimeError'), ('raise_msg_u2028', "raise U5('u\\u2028v\\x85w')", 'U5'),
    ('raise_msg_blank_lines', "raise TypeError('p\\n\\n  q\\n')", 'TypeError'), ('raise_msg_empty', "raise ValueError('')", 'ValueError'),
    ('raise_msg_only_newlines', "raise U1('\\n\\n')", 'U1'), ('raise_msg_percent_braces', "raise U1('100%% {x} %s')", 'U1'),
    ('assert_msg', "assert a == 98765, 'boom%d' % a", 'AssertionError'), ('assert_plain', 'assert a == 98765', 'AssertionError'),
    ('del_key', "del d['zz']", 'KeyError'), ('del_idx', 'del l[99]', 'IndexError'), ('del_attr', 'del o.nope', 'AttributeError'),
    ('unpack_assign', 'q8, q9 = (1, 2, 3)', 'ValueError'), ('unpack_for', 'for q8, q9 in [(1, 2, 3)]:\n    pass', 'ValueError'),
    ('aug_key', "d['zz'] += 1", 'KeyError'), ('setattr_int', 'a.nope = 1', 'AttributeError'),
    # shapes of findings (redirected unless the flag is lifted)
    ('def_default', 'def f9(q, r=1 // (a - a)):\n    return q', 'ZeroDivisionError'),
    ('def_decorator', "@deco(d['zz'])\ndef f9(q):\n    return q", 'KeyError'),
    ('arity_missing', 'q9 = ext1()', 'TypeError'), ('arity_extra', 'q9 = nc(1, 2)', 'TypeError'),
]

# statement forms taking a failing expression %s
FAIL_FORMS = [
    ('assign', 'q9 = %s'), ('assign', 'q9 = %s'), ('expr', '%s'), ('tcall', 't(%s)'), ('return', 'return %s'),
    ('setattr', 'o.x = %s'), ('aug', 'l[0] += %s'), ('setitem', "d['k'] = %s"), ('callarg', 'q9 = ext2(1, %s)'),
    ('if', 'if %s:\n    pass'), ('while', 'while %s:\n    pass'), ('for', 'for q9 in %s:\n    pass'), ('with', 'with %s:\n    pass'),
    ('ifexp', 'q9 = (%s if a == a else 0)'), ('boolop', 'q9 = (a == a and %s)'), ('listcomp', 'q9 = [%s for z9 in [1]]'),
    ('tuple', 'q8, q9 = 1, %s'),
]

# call forms for a converted-if-possible link; %(f)s = callee name
PLAIN_CALLS = [
    ('assign', 'q7 = %(f)s(' + ARGS + ')'), ('assign', 'q7 = %(f)s(' + ARGS + ')'), ('expr', '%(f)s(' + ARGS + ')'),
    ('tcall', 't(%(f)s(' + ARGS + '))'), ('return', 'return %(f)s(' + ARGS + ')'), ('if', 'if %(f)s(' + ARGS + '):\n    pass'),
    ('kwargs', 'q7 = %(f)s(a, b, o, d=d, l=l)'), ('star', 'q7 = %(f)s(*(a, b), *(o, d, l))'), ('partial', 'q7 = partial(%(f)s, a)(b, o, d, l)'),
    ('ifexp', 'q7 = (%(f)s(' + ARGS + ') if a == a else 0)'), ('binop', 'q7 = 1 + %(f)s(' + ARGS + ')'),
    ('for', 'for q7 in [%(f)s(' + ARGS + ')]:\n    pass'), ('while', "while %(f)s(" + ARGS + ") == 'never':\n    pass"),
]
HOF_CALLS = [
    ('map', 'q7 = list(map(%(f)s, [a], [b], [o], [d], [l]))'),
    ('sorted', 'q7 = sorted([a], key=partial(%(f)s, b=b, o=o, d=d, l=l))'),
    ('max', 'q7 = max([a, b], key=partial(%(f)s, b=b, o=o, d=d, l=l))'),
    ('filter', 'q7 = list(filter(partial(%(f)s, b=b, o=o, d=d, l=l), [a]))'),
]
RECONV_CALLS = [('reconv', 'q7 = RC(%(f)s)(' + ARGS + ')'), ('reconv_t', 't(RC(%(f)s)(' + ARGS + '))')]
LINK_KINDS = ['plain'] * 6 + ['dnc', 'dnc', 'hof', 'hof', 'reconv', 'reconv', 'recursive']

# forced nesting around an inserted statement (DESIGN 3: forced-shape sub-generators); %(i)d makes names unique per level
WRAPS = {
    'if': ['if a == a:', '    %(body)s'],
    'else': ['if a != a:', '    pass', 'else:', '    %(body)s'],
    'elif': ['if a != a:', '    pass', 'elif b == b:', '    %(body)s'],
    'for': ['for q5%(i)d in [1, 2]:', '    %(body)s'],
    'while': ['q4%(i)d = 0', 'while q4%(i)d < 2:', '    q4%(i)d += 1', '    %(body)s'],
    'with': ['with CM(7%(i)d):', '    %(body)s'],
    'try_finally': ['try:', '    %(body)s', 'finally:', '    t(8%(i)d)'],
    'def': ['def f8%(i)d(q):', '    %(body)s', '    return q', 'q3%(i)d = f8%(i)d(1)'],
    'after_return': ['for q5%(i)d in [1, 2]:', '    if q5%(i)d == a + 90:', '        return 0', 'if a == a:', '    %(body)s'],
}
WRAP_KINDS = sorted(WRAPS)

# handlers placed around a link call: the exception of the callee is caught and another one (or the same) is raised from the handler
HANDLERS = {
    'from': "raise U1('w%d' % a) from e9",
    'context': "raise U5('w')",
    'from_none': "raise U1('w', 3) from None",
    'reraise': 'raise',
    'from_new_cause': "raise U1('w') from KeyError('c')",
}


# multi-line statements placed right before an inserted statement: whatever their layout, the lines that follow keep their numbers
PREFACES = {
    'backslash': 'q2 = 1 + \\\n    2',
    'backslash_twice': 'q2 = 1 + \\\n    2 + \\\n  3',
    'backslash_in_brackets': 'q2 = [1, \\\n      2,\n      3]',
    'paren': 'q2 = (1 +\n      2)',
    'call': 'q2 = nc(1,\n        )',
    'triple_string': 'q2 = \'\'\'a\n  b\'\'\'',
    'triple_string_backslash': 'q2 = \'\'\'a\\\n  b\'\'\'',
    'list_display': 'q2 = [1,\n      2,\n     ]',
    'comment_ending_in_backslash': '# c \\\nq2 = 1',
    'multiline_test': 'if (a == a and\n        b == b):\n    q2 = 1',
    'backslash_before_string': 'q2 = 1, \\\n  \'\'\'x\ny\'\'\'',
}


def decorate(src, header, ind, n):
  """Puts n pass-through decorators (12 = two, the first spanning three lines) before the def `header`."""
  if not n:
    return src
  if n == 12:
    decs = ['@deco(', '    31)', '@deco(32)']
  else:
    decs = ['@deco(%d)' % (30 + i) for i in range(n)]
  text = ''.join(ind + d + '\n' for d in decs)
  return src.replace('\n' + ind + header, '\n' + text + ind + header, 1)


def wrap(text, kinds):
  """Nests `text` inside the given compound statements (first kind = innermost)."""
  for i, k in enumerate(kinds):
    out = []
    for l in WRAPS[k]:
      if '%(body)s' in l:
        ind = l[:l.index('%')]
        out.extend(ind + x for x in text.split('\n'))
      else:
        out.append(l % {'i': i})
    text = '\n'.join(out)
  return text


FEATURES = [[], [], [], ['BUILTIN_FUNCTIONS'], ['EQUALITY_OPERATORS'], ['ASSERT_STATEMENTS'], ['BUILTIN_FUNCTIONS', 'EQUALITY_OPERATORS']]


def gen_cfg(b):
  return {'max_depth': b.get('max_depth', 3), 'budget': b.get('budget', 12), 'excl': EXCL, 'unbound_reads': False,
          'raise': False, 'helpers': 1, 'max_stmts': 7, 'del': False}


def _draw_function(g, draw, name, ind, closure):
  """One progen function body for a chain link; returns its lines (header included)."""
  sp = '  ' * ind
  lines = ['%sdef %s(%s):' % (sp, name, ARGS)]
  env = progen._Env()
  for p in ('a', 'b'):
    env.bound[p] = 'int'
  cfg = g.cfg
  if cfg['globals'] and draw(st.integers(0, 99)) < 20:
    lines.append('%s  global G0' % sp)
    env.declared.add('G0')
    g.note('global_decl')
  ro = ['G0', 'G1']
  if closure:
    if cfg['nonlocals'] and draw(st.integers(0, 99)) < 20:
      lines.append('%s  nonlocal c0' % sp)
      env.declared.add('c0')
      g.note('nonlocal_decl')
    ro += ['c0', 'c1']
  for n in ro:
    env.bound[n] = 'int'
  env.readonly = set(ro)
  if cfg['defs'] and draw(st.integers(0, 99)) < 25:
    g.note('predefined_local_fns')
    for f in cfg['fn_names']:
      lines.append('%s  def %s(q):' % (sp, f))
      lines.append('%s    return q' % sp)
      env.bound[f] = 'fn'
  lines.extend(g.function(name, ARGS.split(', '), ind, env))
  return lines


def _draw_module(draw, cfg, ncal, kbudget):
  g = progen.Gen(draw, cfg)
  cfg = g.cfg
  lines = []
  nh = draw(st.integers(0, cfg['helpers'])) if cfg['helpers'] else 0
  saved = dict((k, cfg[k]) for k in ('defs', 'composites', 'globals', 'nonlocals', 'unbound_reads', 'lambdas'))
  for i in range(nh):
    name = 'h%d' % (i + 1)
    n = draw(st.integers(1, 2))
    params = ['x', 'y'][:n]
    env = progen._Env()
    env.has_o = False
    env.int_return = True
    for p in params:
      env.bound[p] = 'int'
    cfg.update(defs=False, composites=False, unbound_reads=False, lambdas=False)
    hn, st_try = cfg['names'], cfg['try']
    cfg['names'] = ['r0', 'r1'] + params
    cfg['try'] = False
    body = g.function(name, params, 0, env, budget=6)
    cfg['try'], cfg['names'] = st_try, hn
    cfg.update(saved)
    lines.append('def %s(%s):' % (name, ', '.join(params)))
    lines.extend(body)
    g.helpers.append((name, n))
  g.meta = {}
  main_budget = cfg['budget']
  for i in range(ncal, 0, -1):
    cfg['budget'] = kbudget
    lines.extend(_draw_function(g, draw, 'k%d' % i, 0, False))
  cfg['budget'] = main_budget
  lines.append('def make():')
  lines.append('  c0 = 10')
  lines.append('  c1 = 20')
  lines.extend(_draw_function(g, draw, 'prog', 1, True))
  lines.append('  def cells():')
  lines.append('    return (c0, c1)')
  lines.append('  return prog, cells')
  return PRELUDE + '\n'.join(lines) + '\n', dict(g.meta)


@st.composite
def specs(draw, b):
  cfg = gen_cfg(b)
  ncal = draw(st.sampled_from([0, 1, 1, 2, 2, 2, 3, 3, 3, 4, 4][:3 + 2 * b.get('max_chain', 3)]))
  ncal = min(ncal, b.get('max_chain', 3))
  excluded = []
  links = []
  for i in range(ncal):
    kind = draw(st.sampled_from(LINK_KINDS))
    if kind == 'recursive' and 'no_recursive_link' in C12_EXCL:
      excluded.append('no_recursive_link')
      kind = 'plain'
    pool = {'plain': PLAIN_CALLS, 'dnc': PLAIN_CALLS, 'hof': HOF_CALLS, 'reconv': RECONV_CALLS, 'recursive': PLAIN_CALLS}[kind]
    form, text = draw(st.sampled_from(pool))
    links.append({'kind': kind, 'form': form, 'text': text})
  if draw(st.integers(0, 99)) < 55:
    key, stmt, exc = draw(st.sampled_from(FAIL_RAISES))
    red = {'raise_U2': ('no_initless_subclass_of_builtin_error', 'raise_U1'), 'raise_U9': ('no_initless_subclass_of_builtin_error', 'raise_U5'),
           'def_default': ('no_failing_def_header', 'unpack_assign'), 'def_decorator': ('no_failing_def_header', 'del_key'),
           'arity_missing': ('no_arity_error_on_converted_callee', 'raise_TypeError'), 'arity_extra': ('no_arity_error_on_converted_callee', 'raise_TypeError')}
    if key in red and red[key][0] in C12_EXCL:
      excluded.append(red[key][0])
      key, stmt, exc = [r for r in FAIL_RAISES if r[0] == red[key][1]][0]
    fail = {'key': key, 'form': 'stmt', 'text': stmt, 'exc': exc}
  else:
    key, expr, exc = draw(st.sampled_from(FAIL_EXPRS))
    form, tmpl = draw(st.sampled_from(FAIL_FORMS))
    fail = {'key': key, 'form': form, 'text': tmpl, 'expr': expr, 'exc': exc}
  if fail['exc'] == 'KeyError' and 'no_keyerror_through_reentry' in C12_EXCL and any(lk['kind'] == 'reconv' for lk in links):
    excluded.append('no_keyerror_through_reentry')
    for lk in links:
      if lk['kind'] == 'reconv':
        lk['kind'] = 'plain'
        lk['form'], lk['text'] = PLAIN_CALLS[0]
  inputs = [[0, 0], [3, 2], [draw(st.integers(-2, 5)), draw(st.integers(-2, 5))]]
  features = draw(st.sampled_from(FEATURES))
  if fail['key'].startswith('assert') and 'ASSERT_STATEMENTS' in features and 'no_assert_under_ASSERT_STATEMENTS' in C12_EXCL:
    excluded.append('no_assert_under_ASSERT_STATEMENTS')
    features = []
  marked = draw(st.integers(0, 99)) < 80
  inp = draw(st.sampled_from(inputs))
  posseeds = [draw(st.integers(0, 9999)) for _ in range(ncal + 1)]
  prefer = [draw(st.sampled_from(['any', 'deep', 'deepest', 'deepest', 'after_return'])) for _ in range(ncal + 1)]
  recursive = draw(st.integers(0, 99)) < 88
  wraps = []
  for i in range(ncal + 1):
    nw = draw(st.sampled_from([0, 0, 1, 1, 2, 2, 3] if i == ncal else [0, 0, 0, 1, 2]))
    wraps.append([draw(st.sampled_from(WRAP_KINDS)) for _ in range(nw)])
  # pass-through decorators on the chain functions (index 0 = prog) and a handler around link calls
  decos = [draw(st.sampled_from([0, 0, 0, 1, 2, 2, 3, 12])) for _ in range(ncal + 1)]
  handlers = [draw(st.sampled_from([None] * 7 + sorted(HANDLERS))) for _ in range(ncal)]
  prefaces = [draw(st.lists(st.sampled_from(sorted(PREFACES)), max_size=2)) if draw(st.integers(0, 99)) < 40 else [] for _ in range(ncal + 1)]
  # the program text is drawn last: the small choices above keep their distribution whatever the
  # size of the program that follows
  src, meta = _draw_module(draw, cfg, ncal, b.get('kbudget', 8))
  return {
      'src': src, 'meta': meta, 'ncal': ncal, 'links': links, 'fail': fail, 'excluded': excluded,
      'marked': marked, 'input': inp, 'posseeds': posseeds, 'prefer': prefer, 'wraps': wraps, 'decos': decos, 'handlers': handlers, 'prefaces': prefaces,
      'config': {'recursive': recursive, 'features': features},
  }


# ------------------------------------------------------------------------------------------------
# markers

_SLOTS = {ast.Assign: 'value', ast.AugAssign: 'value', ast.Expr: 'value', ast.Return: 'value', ast.If: 'test', ast.While: 'test',
          ast.For: 'iter'}
MARK_RE = re.compile(r'(?<![\w.])(1\d{4})(?![\w.])')


class _Marker(ast.NodeTransformer):
  """Wraps the expression slot of every statement inside function bodies: e -> (1xxxx, e)[1]."""

  def __init__(self, start=10001):
    self.n = start
    self.infn = 0

  def wrap(self, e):
    k = self.n
    self.n += 1
    return ast.Subscript(value=ast.Tuple(elts=[ast.Constant(k), e], ctx=ast.Load()), slice=ast.Constant(1), ctx=ast.Load())

  def visit_ClassDef(self, node):
    return node

  def visit_FunctionDef(self, node):
    if node.name in ('_rc', 'cells'):
      return node
    self.infn += 1
    self.generic_visit(node)
    self.infn -= 1
    return node

  def visit_Lambda(self, node):
    return node

  def generic_visit(self, node):
    super(_Marker, self).generic_visit(node)
    if self.infn and isinstance(node, ast.stmt):
      slot = _SLOTS.get(type(node))
      if slot and getattr(node, slot, None) is not None:
        setattr(node, slot, self.wrap(getattr(node, slot)))
      elif isinstance(node, ast.With):
        node.items[0].context_expr = self.wrap(node.items[0].context_expr)
    return node


def normalise(src, marked):
  tree = ast.parse(src)
  n = 10001
  if marked:
    m = _Marker()
    tree = m.visit(tree)
    n = m.n
    ast.fix_missing_locations(tree)
  return ast.unparse(tree) + '\n', n


def mark_stmt(text, n):
  """Adds a marker to an inserted statement (first line)."""
  try:
    tree = ast.parse(text)
    m = _Marker(n)
    m.infn = 1
    tree = m.visit(tree)
    ast.fix_missing_locations(tree)
    return ast.unparse(tree), m.n
  except SyntaxError:
    return text, n


# ------------------------------------------------------------------------------------------------
# static helpers on module text


def fn_ranges(tree):
  """{chain function name: (first line, last line)} for module-level defs; prog is reported for make()."""
  out = {}
  for n in tree.body:
    if isinstance(n, ast.FunctionDef):
      if n.name == 'make':
        for c in n.body:
          if isinstance(c, ast.FunctionDef) and c.name == 'prog':
            out['prog'] = (c.lineno, c.end_lineno)
        continue
      lo = min([n.lineno] + [d.lineno for d in n.decorator_list])
      out[n.name] = (lo, n.end_lineno)
  return out


def owner_of(ranges, lineno):
  for name, (lo, hi) in ranges.items():
    if lo <= lineno <= hi:
      return name
  return None


def context(tree, lineno):
  """Static context of the statement starting at `lineno`: (depth, kinds, after_early_return)."""
  path = []

  def find(node, acc):
    for f in ('body', 'orelse', 'finalbody', 'handlers'):
      lst = getattr(node, f, None)
      if not isinstance(lst, list):
        continue
      for i, s in enumerate(lst):
        if isinstance(s, ast.ExceptHandler):
          if s.lineno <= lineno <= s.end_lineno:
            return find(s, acc + [(node, 'handler', lst, i)])
          continue
        lo = min([s.lineno] + [d.lineno for d in getattr(s, 'decorator_list', [])])
        if lo == lineno:
          return acc + [(node, f, lst, i)]
        if lo < lineno <= s.end_lineno:
          return find(s, acc + [(node, f, lst, i)])
    return None

  path = find(tree, []) or []
  kinds = set()
  depth = 0
  early = False
  fdepth = 0
  for node, f, lst, i in path:
    if isinstance(node, ast.FunctionDef):
      fdepth += 1
      if fdepth > (2 if any(isinstance(p[0], ast.FunctionDef) and p[0].name == 'make' for p in path) else 1):
        kinds.add('nested_def')
        depth += 1
    elif isinstance(node, (ast.If,)):
      kinds.add('else' if f == 'orelse' else 'if')
      depth += 1
    elif isinstance(node, (ast.For, ast.While)):
      kinds.add('loop')
      depth += 1
    elif isinstance(node, ast.With):
      kinds.add('with')
      depth += 1
    elif isinstance(node, ast.Try):
      kinds.add('finally' if f == 'finalbody' else 'try')
      depth += 1
    elif isinstance(node, ast.ExceptHandler):
      kinds.add('handler')
    if not isinstance(node, ast.Module):
      for s in lst[:i]:
        if not isinstance(s, (ast.Return, ast.FunctionDef)) and any(isinstance(x, ast.Return) for x in _walk_no_defs(s)):
          early = True
  return depth, kinds, early


def _walk_no_defs(node):
  todo = [node]
  while todo:
    n = todo.pop()
    yield n
    for c in ast.iter_child_nodes(n):
      if not isinstance(c, (ast.FunctionDef, ast.Lambda)):
        todo.append(c)


def enclosing_def(tree, lineno):
  """Name of the innermost def whose statement range (decorators included) contains lineno, and
  whether the line is a def header / decorator line."""
  best = None
  header = False
  for n in ast.walk(tree):
    if isinstance(n, ast.FunctionDef):
      lo = min([n.lineno] + [d.lineno for d in n.decorator_list])
      if lo <= lineno <= n.end_lineno:
        if best is None or lo >= best[0]:
          best = (lo, n.name)
          header = lineno <= n.lineno
  return (best[1] if best else None), header


# ------------------------------------------------------------------------------------------------
# running


def fresh_args(inp):
  return (inp[0], inp[1], rt.O(), {'k': 7}, [1, 2, 3])


def run_reference(mod, inp, trace=False):
  """Runs prog unconverted. Returns (exception or None, [executed line numbers in first-hit order])."""
  rt.reset()
  mod.G0, mod.G1 = 0, 5
  if hasattr(mod, '_RC'):
    mod._RC[0] = False
  seen = []
  seen_set = set()
  fname = mod.__file__

  def tracer(frame, event, arg):
    if frame.f_code.co_filename != fname:
      return None
    if event == 'line':
      ln = frame.f_lineno
      if ln not in seen_set:
        seen_set.add(ln)
        seen.append(ln)
    return tracer

  exc = None
  try:
    prog, _ = mod.make()
    args = fresh_args(inp)
    with diffobs.time_limit(10):
      if trace:
        sys.settrace(tracer)
      try:
        prog(*args)
      finally:
        if trace:
          sys.settrace(None)
  except diffobs.Timeout:
    exc = None
    seen = []
  except Exception as e:  # noqa
    exc = e
  return exc, seen


def user_frames(e, fname):
  return [(f.lineno, f.name) for f in traceback.extract_tb(e.__traceback__) if f.filename == fname]


_BAD_START = ('elif ', 'else:', 'except ', 'except:', 'finally:', 'global ', 'nonlocal ')


def insert_before(src, lineno, text):
  lines = src.split('\n')
  target = lines[lineno - 1]
  ind = target[:len(target) - len(target.lstrip())]
  new = [ind + t for t in text.split('\n')]
  return '\n'.join(lines[:lineno - 1] + new + lines[lineno - 1:]), len(new)


def build(spec):
  """Places the link calls and the failing statement. Returns (case or None, reason, build info)."""
  src, nextmark = normalise(spec['src'], spec['marked'])
  chain = ['prog'] + ['k%d' % i for i in range(1, spec['ncal'] + 1)]
  inp = spec['input']
  binfo = {'tries': 0}
  try:
    mod = harness.load_module(src)
  except Exception as e:
    return None, 'generator_slip:' + repr(e)[:200], binfo
  try:
    exc, seen = run_reference(mod, inp, trace=True)
  finally:
    harness.unload_module(mod)
  if exc is not None:
    return None, 'generator_slip:base program raises ' + repr(exc)[:200], binfo
  for level, fname in enumerate(chain):
    tree = ast.parse(src)
    lo, hi = fn_ranges(tree)[fname]
    lines = src.split('\n')
    cands = []
    for ln in seen:
      if not (lo < ln <= hi):
        continue
      s = lines[ln - 1].strip()
      if s.startswith(_BAD_START):
        continue
      if s.startswith('def ') and lines[ln - 2].strip().startswith('@'):
        continue
      cands.append(ln)
    if not cands:
      return None, 'unreached', binfo
    last = level == len(chain) - 1
    placed = False
    pref = spec.get('prefer', ['any'] * (level + 1))[level]
    if pref == 'after_return':
      # forced shape: statements nested in a compound statement that follows a conditional return
      er = [ln for ln in cands if context(tree, ln)[2] and context(tree, ln)[0] >= 1]
      cands = er or cands
      pref = 'deep'
    if pref != 'any':
      ds = dict((ln, context(tree, ln)[0]) for ln in cands)
      top = max(ds.values())
      want = top if pref == 'deepest' else min(1, top)
      cands = [ln for ln in cands if ds[ln] >= want]
    for off in range(min(len(cands), 6)):
      ln = cands[(spec['posseeds'][level] + off) % len(cands)]
      depth, kinds, early = context(tree, ln)
      if last:
        f = spec['fail']
        text = f['text'] % f['expr'] if 'expr' in f else f['text']
        form = f['form']
      else:
        lk = spec['links'][level]
        text = lk['text'] % {'f': chain[level + 1]}
        form = lk['form']
      if form == 'return' and ('finally' in kinds):
        text = 'q7 = ' + text[len('return '):]
      hk = None if last else (spec.get('handlers') or [None] * (level + 1))[level]
      if hk:
        text = 'try:\n' + '\n'.join('    ' + x for x in text.split('\n')) + '\nexcept Exception as e9:\n    ' + HANDLERS[hk]
      wr = list(spec.get('wraps', [[]] * (level + 1))[level])
      if 'finally' in kinds:
        wr = [k for k in wr if k != 'after_return']   # no return inside finally (out of guarantee)
      text = wrap(text, wr)
      if level and spec['links'][level - 1]['kind'] == 'recursive':
        # the link calls itself once (same arguments; the grown list marks the inner activation)
        text = 'if len(l) < 50:\n    l.extend([0] * 50)\n    q6 = %s(%s)\n%s' % (fname, ARGS, text)
      if spec['marked']:
        text, nm = mark_stmt(text, nextmark)
      else:
        nm = nextmark
      pf = (spec.get('prefaces') or [[]] * (level + 1))[level]
      if pf:
        # (added after marking: marking re-prints the statement on one line)
        text = '\n'.join([PREFACES[k] for k in pf] + [text])
      new_src, nlines = insert_before(src, ln, text)
      binfo['tries'] += 1
      try:
        mod = harness.load_module(new_src)
      except Exception as e:
        return None, 'generator_slip:' + repr(e)[:200], binfo
      try:
        exc, seen2 = run_reference(mod, inp, trace=True)
        fname_mod = mod.__file__
        U = user_frames(exc, fname_mod) if exc is not None else []
      finally:
        harness.unload_module(mod)
      if last:
        inner = exc
        while inner is not None and inner.__context__ is not None and any(spec.get('handlers') or []):
          inner = inner.__context__
        if inner is not exc:
          U = user_frames(inner, fname_mod)
        ok = inner is not None and U and U[-1][0] in range(ln, ln + nlines) and type(inner).__name__ == spec['fail']['exc']
      else:
        nlo, nhi = fn_ranges(ast.parse(new_src))[chain[level + 1]]
        ok = exc is None and any(nlo < x <= nhi for x in seen2)
      if ok:
        src, seen, nextmark, placed = new_src, seen2, nm, True
        kinds = set(kinds) | set('wrap:' + k for k in wr)
        if last:
          binfo.update(depth=depth + len(wr), kinds=sorted(kinds), early=early or 'after_return' in wr)
        else:
          binfo.setdefault('call_ctx', []).append({'depth': depth + len(wr), 'kinds': sorted(kinds)})
        break
    if not placed:
      return None, 'unplaced', binfo
  # do_not_convert links are decorated at their definition
  for i, lk in enumerate(spec['links']):
    if lk['kind'] == 'dnc':
      src = src.replace('\ndef k%d(' % (i + 1), '\n@DNC\ndef k%d(' % (i + 1))
  decos = spec.get('decos') or [0] * len(chain)
  src = decorate(src, 'def prog(', '  ', decos[0])
  for i in range(1, len(chain)):
    src = decorate(src, 'def k%d(' % i, '', decos[i])
  case = {'src': src, 'input': inp, 'chain': chain, 'links': [lk['kind'] for lk in spec['links']], 'config': spec['config'],
          'marked': spec['marked'], 'handlers': list(spec.get('handlers') or []), 'decos': list(decos),
          'prefaces': sorted(set(k for pf in (spec.get('prefaces') or []) for k in pf))}
  return case, 'ok', binfo


# ------------------------------------------------------------------------------------------------
# oracle

DOCUMENTED_SAME = (AssertionError, AttributeError, NameError, NotImplementedError, RuntimeError, StopIteration, TypeError,
                   UnboundLocalError, ValueError, KeyError, Exception)
OWN_INIT_BUILTINS = (OSError, ImportError, SyntaxError, UnicodeError, SystemExit)


def type_rule(t):
  """'same' | 'staging' | 'either:<calibration or finding flag>' for the exception class t."""
  base = None
  for c in t.__mro__:
    if c.__module__ == 'builtins':
      base = c
      break
    if '__init__' in c.__dict__ or '__new__' in c.__dict__:
      return 'staging'
  if base is None:
    return 'either:unknown'
  if any(issubclass(base, x) for x in OWN_INIT_BUILTINS):
    return 'staging'
  if t is base:
    if base in DOCUMENTED_SAME:
      return 'same'
    return 'either:builtin_outside_documented_list'
  if base is Exception:
    return 'same'
  return 'either:no_initless_subclass_of_builtin_error'


def predict_converted(chain, links, recursive):
  """Model of the conversion policy: which functions of the chain run converted."""
  conv = [True]
  mode, rec = 'CONV', recursive
  for kind in links:
    if kind in ('plain', 'recursive'):
      if mode == 'CONV' and rec:
        conv.append(True)
      else:
        conv.append(False)
        if mode == 'CONV':
          mode = 'NATIVE'
    elif kind == 'dnc':
      conv.append(False)
      mode = 'DISABLED'
    elif kind == 'hof':
      conv.append(False)
      if mode == 'CONV':
        mode = 'NATIVE'
    elif kind == 'reconv':
      if mode == 'DISABLED':
        conv.append(False)
      else:
        conv.append(True)
        mode, rec = 'CONV', True
    else:
      raise AssertionError(kind)
  return conv


class _Recorder(object):
  """Records every conversion made while active (test-side wrapper of api._convert_actual)."""

  def __init__(self):
    self.made = []

  def __enter__(self):
    self.real = api._convert_actual
    rec = self

    def wrapper(entity, program_ctx):
      r = rec.real(entity, program_ctx)
      rec.made.append((getattr(entity, '__name__', '?'), r))
      return r
    api._convert_actual = wrapper
    return self

  def __exit__(self, *a):
    api._convert_actual = self.real
    return False


def _features(names):
  fs = tuple(converter.Feature[n] for n in names)
  return fs or None


def _same_line_text(file_line, reported):
  """The reported text is the file line; a line ending in a backslash continuation is shown joined with its
  continuation rows (calibration: the text is a display string, the property is about file / function / line)."""
  a, b = file_line.strip(), reported.strip()
  if a == b:
    return True
  if a.endswith('\\'):
    return ' '.join(b.split()).startswith(' '.join(a[:-1].split()))
  return False


def check_source_maps(made, mod_file, src_lines, tree, marker_line, fails, info):
  nent = 0
  for name, conv in made:
    smap = getattr(conv, 'ag_source_map', None)
    agmod = getattr(conv, 'ag_module', None)
    if not smap or agmod is None:
      continue
    try:
      with open(agmod.__file__) as f:
        glines = f.read().split('\n')
    except Exception:
      continue
    for loc, origin in smap.items():
      if origin.loc.filename != mod_file:
        # entries of functions defined elsewhere (vf.rt helpers converted recursively) are checked
        # against their own file only for the line text
        continue
      nent += 1
      ol = origin.loc.lineno
      gl = glines[loc.lineno - 1] if 0 < loc.lineno <= len(glines) else ''
      det = {'function': name, 'generated_line': gl.strip()[:200], 'generated_lineno': loc.lineno, 'mapped_to': ol,
             'mapped_text': src_lines[ol - 1].strip()[:160] if 0 < ol <= len(src_lines) else None}
      if loc.filename != agmod.__file__:
        # calibration: copy_origin annotates the interpreter-wide ast.Load singleton, which leaves one
        # stray identity entry keyed by an original-file line; it is not an entry for a generated line
        info['srcmap_foreign_keys'] = info.get('srcmap_foreign_keys', 0) + 1
        nent -= 1
        continue
      if not (0 < ol <= len(src_lines)) or not _same_line_text(src_lines[ol - 1], origin.source_code_line or ''):
        det['source_code_line'] = origin.source_code_line
        fails.append(('srcmap:source_code_line', det))
        return nent
      marks = [int(m) for m in MARK_RE.findall(gl)]
      marks = [m for m in marks if m in marker_line]
      if marks:
        info['srcmap_marked_entries'] += 1
        want = sorted(set(marker_line[m] for m in marks))
        if ol not in want:
          det['marker_lines'] = want
          fails.append(('srcmap:generated_line_mapped_to_other_statement', det))
          return nent
      fn, header = enclosing_def(tree, ol)
      if not header and origin.function_name != fn:
        det['function_name'] = origin.function_name
        det['enclosing_def'] = fn
        fails.append(('srcmap:function_name', det))
        return nent
  return nent


def run_case(case):
  """Executes the oracle on one built case. Returns (failures [(bucket, detail)], info)."""
  fails = []
  info = {'status': 'ok', 'srcmap_entries': 0, 'srcmap_marked_entries': 0, 'nconv': 0, 'conversions': 0}
  src = case['src']
  inp = case.get('input') or case['inputs'][0]
  try:
    mod = harness.load_module(src)
  except Exception as e:
    info['status'] = 'generator_slip'
    info['slip'] = repr(e)[:300]
    return fails, info
  try:
    tree = ast.parse(src)
    src_lines = src.split('\n')
    fname = mod.__file__
    orig, _ = run_reference(mod, inp)
    if orig is None:
      info['status'] = 'no_reference_exception'
      return fails, info
    U = user_frames(orig, fname)
    if not U:
      info['status'] = 'no_user_frame'
      return fails, info
    info['U'] = U
    info['exc'] = type(orig).__name__
    cfgd = case.get('config', {})
    rt.reset()
    mod.G0, mod.G1 = 0, 5
    prog2, _ = mod.make()
    got = None
    rec = _Recorder()
    try:
      if hasattr(mod, '_RC'):
        mod._RC[0] = True
      with rec:
        with diffobs.time_limit(60):
          wrapped = malt.convert(recursive=cfgd.get('recursive', True), optional_features=_features(cfgd.get('features', [])))(prog2)
          try:
            wrapped(*fresh_args(inp))
          except diffobs.Timeout:
            raise
          except Exception as e:  # noqa
            got = e
    except diffobs.Timeout:
      # safety net only (DESIGN 1.2): a hang of converted code is C01's subject; counted, never a violation here
      info['status'] = 'timeout'
      return fails, info
    finally:
      if hasattr(mod, '_RC'):
        mod._RC[0] = False
    info['conversions'] = len(rec.made)
    conv_names = [n for n, _ in rec.made]
    if 'prog' not in conv_names:
      info['status'] = 'prog_not_converted'
      return fails, info
    odesc = '%s: %s' % (type(orig).__name__, orig)
    if got is None:
      fails.append(('no_exception_from_converted_run|orig=' + type(orig).__name__, {'original': odesc, 'U': U}))
      return fails, info
    md = getattr(got, 'ag_error_metadata', None)
    if md is None:
      fails.append(('no_location_metadata:' + harness.exc_bucket(got), {'original': odesc, 'got': repr(got)[:400], 'U': U}))
      return fails, info
    base = {'original': odesc[:300], 'got_type': type(got).__name__, 'U': U}
    # --- type
    rule = type_rule(type(orig))
    info['type_rule'] = rule
    if case.get('strict_type') and rule.startswith('either:no_initless') or case.get('strict_type') == 'all' and rule.startswith('either'):
      rule = 'same'
    if rule == 'same':
      if type(orig) is KeyError:
        ok = isinstance(got, KeyError) and type(got).__name__ == 'KeyError'
      else:
        ok = type(got) is type(orig)
      if not ok:
        fails.append(('type:expected_same_type|got=%s' % type(got).__name__, dict(base, mro=[c.__name__ for c in type(orig).__mro__])))
    elif rule == 'staging':
      if type(got) is not api.StagingError:
        fails.append(('type:expected_StagingError|got=%s' % ('same' if type(got) is type(orig) else type(got).__name__), base))
    else:
      if not (type(got) is type(orig) or type(got) is api.StagingError):
        fails.append(('type:neither_same_nor_StagingError|got=%s' % type(got).__name__, base))
    # --- message
    if md.cause_message != odesc:
      fails.append(('message:cause_message', dict(base, cause_message=md.cause_message[:400])))
    elif odesc not in '\n'.join(l[4:] if l.startswith('    ') else l for l in str(got).split('\n')):
      # (calibration: get_message indents every line of the cause message by four spaces)
      fails.append(('message:not_in_str', dict(base, str=str(got)[:600])))
    # --- location
    stack = list(md.translated_stack)
    listed = [(fi.lineno, fi.function_name, bool(fi.is_converted), fi.code) for fi in stack if fi.filename == fname]
    info['listed'] = [x[:3] for x in listed]
    det = dict(base, listed=[x[:3] for x in listed],
               full=[(os.path.basename(fi.filename), fi.lineno, fi.function_name) for fi in stack][:12])
    if not listed or listed[0][:2] != U[-1]:
      fails.append(('location:innermost_frame', det))
    elif (listed[0][3] or '').strip() != src_lines[U[-1][0] - 1].strip():
      fails.append(('location:code_line', dict(det, code=listed[0][3])))
    # --- order
    it = iter(U)
    outer_first = [x[:2] for x in reversed(listed)]
    if listed and not all(any(a == b for b in it) for a in outer_first):
      fails.append(('stack:listed_frames_not_a_subsequence_of_traceback', det))
    # --- converted entries vs model
    ranges = fn_ranges(tree)
    segs = []
    for fr in U:
      o = owner_of(ranges, fr[0])
      if not segs or segs[-1][0] != o:
        segs.append((o, [fr]))
      else:
        segs[-1][1].append(fr)
    chain = case.get('chain')
    owners = [s[0] for s in segs]
    # a handler around a link call that raises a new exception ends the traceback in that link's caller
    cut = chain and any(case.get('handlers') or []) and 0 < len(owners) < len(chain) and owners == chain[:len(owners)]
    if chain and (owners == chain or cut):
      conv = predict_converted(chain, case['links'], cfgd.get('recursive', True))[:len(owners)]
      chain = chain[:len(owners)]
      info['cut'] = bool(cut)
      info['nconv'] = sum(conv) - 1
      info['conv'] = conv
      want = [segs[i][1] for i in range(len(segs)) if conv[i]]
      have = [x for x in reversed(listed) if x[2]]
      det2 = dict(det, model=list(zip(chain, conv)), links=case['links'])
      if len(have) != len(want):
        fails.append(('stack:converted_entries expected=%d got=%d' % (len(want), len(have)) if len(have) < 9 else 'stack:converted_entries', det2))
      elif not all(h[:2] in w for h, w in zip(have, want)):
        fails.append(('stack:entry_not_in_its_function', det2))
      # cross-check of the model against what was really converted
      real = [n for n in chain if n in conv_names]
      pred = [n for n, c in zip(chain, conv) if c]
      if real != pred:
        fails.append(('model:converted_functions_differ', dict(det2, really_converted=conv_names)))
    else:
      info['status'] = 'chain_mismatch'
    # --- source maps
    marker_line = {}
    for i, l in enumerate(src_lines):
      for m in MARK_RE.findall(l):
        marker_line.setdefault(int(m), i + 1)
    info['srcmap_entries'] = check_source_maps(rec.made, fname, src_lines, tree, marker_line, fails, info)
    return fails, info
  finally:
    _KEEP.append(mod)
    harness.forget_generated(mod)


# ------------------------------------------------------------------------------------------------
# runner API


def shard(ctx, acc):
  b = ctx.budget
  n = ctx.share('cases')

  def body(spec):
    for x in spec['excluded']:
      acc.count('excluded:' + x)
    case, reason, binfo = build(spec)
    if case is None:
      acc.count('build:' + reason.split(':')[0])
      if reason.startswith('generator_slip'):
        acc.notes.append(reason)
      return
    if 'no_initless_subclass_of_builtin_error' not in C12_EXCL:
      case['strict_type'] = True
    fails, info = run_case(case)
    f = spec['fail']
    depth = binfo.get('depth', 0)
    nontriv = info['status'] == 'ok' and (depth >= 2 or info['nconv'] >= 2)
    classes = ['status=' + info['status'], 'exc=' + f['exc'], 'fail=' + f['key'], 'form=' + f['form'],
               'chain_len=%d' % len(case['chain']), 'converted_callees=%d' % info['nconv'], 'depth=%d' % min(depth, 5),
               'type_rule=' + info.get('type_rule', '-'), 'recursive=%s' % case['config']['recursive'],
               'features=' + '+'.join(case['config']['features']), 'marked=%s' % case['marked']]
    classes += ['link=' + k for k in set(case['links'])]
    classes += ['handler=' + h for h in set(case.get('handlers') or []) if h]
    classes += ['preface=' + k for k in case.get('prefaces') or []]
    classes += ['decorators=%d' % d for d in set(case.get('decos') or []) if d]
    if info.get('cut'):
      classes.append('traceback_ends_in_handler_of_link_call')
    classes += ['callform=' + lk['form'] for lk in spec['links']]
    classes += ['in:' + k for k in binfo.get('kinds', [])]
    if binfo.get('early'):
      classes.append('after_conditional_return')
    if any(c['depth'] >= 1 for c in binfo.get('call_ctx', [])):
      classes.append('link_call_nested')
    if info.get('conv') and not all(info['conv']):
      classes.append('mixed_converted_unconverted')
    if info.get('conv') and any(c and not p for p, c in zip(info['conv'], info['conv'][1:])):
      classes.append('converted_below_unconverted')
    if info.get('U') and len(set(info['U'])) != len(info['U']):
      classes.append('repeated_frame')
    sample = None
    size = len(case['src'])
    if nontriv and (len(acc.samples) < acc.MAX_SAMPLES or size > (acc.biggest[0] if acc.biggest else 0)):
      sample = {'src': case['src'], 'input': case['input'], 'links': case['links'], 'config': case['config'],
                'U': info.get('U'), 'listed': info.get('listed')}
    acc.case(key=common.h8([case['src'], case['input'], case['config']]), nontrivial=nontriv, classes=classes, sample=sample, size=size)
    acc.count('srcmap_entries_checked', info['srcmap_entries'])
    acc.count('srcmap_entries_with_markers', info['srcmap_marked_entries'])
    acc.count('conversions_recorded', info['conversions'])
    acc.count('build_attempts', binfo['tries'])
    acc.count('srcmap_stray_entries_keyed_by_original_file', info.get('srcmap_foreign_keys', 0))
    for bkt, d in fails:
      acc.fail(bkt, case, d)

  common.hyp_run(ctx, specs(b), body, n)


def replay(case):
  fails, info = run_case(case)
  return [{'bucket': b, 'detail': d} for b, d in fails]


def shrink(case, bucket, deadline):
  c = dict(case)
  c['inputs'] = [case['input']]
  out = shrinker.shrink_case(c, bucket, replay, deadline)
  out['input'] = out['inputs'][0]
  out.pop('inputs', None)
  return out
