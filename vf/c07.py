"""C07 - liveness is sound: anything read later is reported live (trace oracle, see vf/dataflow.py)."""
import hypothesis.strategies as st

from vf import common
from vf import dataflow
from vf import harness
from vf import progen
from vf import shrink as shrinker

ID = 'C07'
LEVEL = 'exploration'
TECHNIQUE = ('property-based testing with a dynamic trace oracle: generated total programs are AST-instrumented and executed; a backward '
             'pass over each executed trace (use-before-overwrite, closure reads attributed to the owning activation) is checked against '
             'the recorded live-in/live-out sets per CFG node and LIVE_VARS_IN/OUT per statement, plus re-evaluation of the liveness equations')
RULE = ('programs from vf.progen with implicit exceptions excluded, run on 3-6 input pairs. One evaluation = one (program, input) '
        'instrumented run. Non-trivial = the run contains a read made by a nested function of a variable of the enclosing activation '
        '(closure-kept liveness), or the program has a loop nested in a loop / a zero-trip capable loop before a read; distinct by SHA1 of source.')
ASSUMPTIONS = [
    'only reads that happen before the analysed activation returns are demanded (escaped closures are covered behaviourally by C01)',
    'a write made by a callee through nonlocal counts as a kill in the oracle (demands less, never more)',
    'lambda bodies are not instrumented (lambdas are exempt from closure liveness by design: known finding F5, detected through C01)',
    'for-loop targets are fresh names in generated programs (known finding F3: the for header kills its target on the exit edge too)',
    'checking of an activation stops where a finally runs during propagation or an exception arrives from a call',
]
LEVEL_TEXT = ('Randomised exploration: every executed statement instance of every generated program yields a concrete demand set that the '
              'analysis result of the current tree must cover; the fixed-point clause is checked on every graph.')
LEVEL_NOTE = 'Trusted: CPython executing the instrumented copy; vf/instrument.py event placement; attribution of closure reads to the owning activation.'

GEN = {'unbound_reads': False, 'excl': ('no_for_target_rebind',)}


def budget(tier):
  if tier == 'thorough':
    return {'programs': 12000, 'max_depth': 4, 'budget': 36, 'shrink_s': 60, 'wall_cap': 3000}
  return {'programs': 4000, 'max_depth': 3, 'budget': 26, 'shrink_s': 20, 'wall_cap': 600}


def run_case(case):
  fails, stats = [], {'runs': 0}
  try:
    p = dataflow.prepare(case['src'], ('live',))
  except Exception as e:
    return [('analysis:' + harness.exc_bucket(e), {'exc': repr(e)[:400]})], stats
  dataflow.check_live_fixpoint(p, fails)
  for inp in case['inputs']:
    tr, outcome = dataflow.run(p, inp)
    stats['runs'] += 1
    stats.setdefault('outcomes', set()).add(outcome.split(':')[0])
    dataflow.check_live(p, tr, fails, stats)
    if fails:
      break
  out, seen = [], set()
  for b, d in fails:
    if b not in seen:
      seen.add(b)
      out.append((b, d))
  return out, stats


def shard(ctx, acc):
  b = ctx.budget
  cfg = dict(GEN, max_depth=b['max_depth'], budget=b['budget'])

  def body(prog):
    case = {'src': prog['src'], 'inputs': prog['inputs']}
    fails, stats = run_case(case)
    nt = stats.get('closure_reads', 0) > 0 or 'nested_loop' in prog['meta']
    cls = ['has:' + k for k in prog['meta'] if not k.startswith(('stmt:', 'helper:'))]
    if stats.get('stopped'):
      cls.append('activation_stopped_at_exempt_region')
    if nt:
      cls.append('closure_read_or_nested_loop')
    sample = {'src': case['src'], 'inputs': case['inputs']} if nt and len(acc.samples) < acc.MAX_SAMPLES else None
    acc.case(key=common.h8(case['src']), nontrivial=nt, classes=cls, sample=sample, n=max(1, stats.get('runs', 1)))
    acc.count('statement_instances_checked', stats.get('instances', 0))
    acc.count('closure_reads_attributed', stats.get('closure_reads', 0))
    for bkt, d in fails:
      acc.fail(bkt, case, d)

  common.hyp_run(ctx, progen.programs(cfg), body, ctx.share('programs'))


def replay(case):
  fails, _ = run_case(case)
  return [{'bucket': b, 'detail': d} for b, d in fails]


def shrink(case, bucket, deadline):
  return shrinker.shrink_case(case, bucket, replay, deadline)
