"""Dev tool: regenerates the findings table of DESIGN.md section 5 from known_findings.json
(between the markers <!-- LEDGER:BEGIN --> and <!-- LEDGER:END -->)."""
import json, os, re
ROOT = os.path.dirname(os.path.dirname(os.path.abspath(__file__)))

def main():
  k = json.load(open(os.path.join(ROOT, 'known_findings.json')))['findings']
  rows = ['| id | property | status | what fails (minimal input = the replay file) | replay |', '|----|----------|--------|------|--------|']
  for f in k:
    st = 'fixed ' + f.get('commit', '') if f['status'] == 'fixed' else 'known'
    what = f['what'].replace('|', '\\|').replace('\n', ' ')
    rows.append('| %s | %s | %s | %s | `%s` |' % (f['id'], f['property'], st, what, f.get('replay', '')))
  table = '\n'.join(rows)
  p = os.path.join(ROOT, 'DESIGN.md')
  s = open(p).read()
  s = re.sub(r'<!-- LEDGER:BEGIN -->.*?<!-- LEDGER:END -->', '<!-- LEDGER:BEGIN -->\n' + table + '\n<!-- LEDGER:END -->', s, flags=re.S)
  open(p, 'w').write(s)
  print(len(k), 'findings:', sum(1 for f in k if f['status'] == 'fixed'), 'fixed,', sum(1 for f in k if f['status'] == 'known'), 'known')

if __name__ == '__main__':
  main()
