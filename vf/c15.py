"""C15 - source recovery returns exactly the code of the function being converted.

Generated *layouts*: module texts whose function definitions and lambdas are placed in every
nesting context and rendered with drawn indentation units, comments, continuations, string
kinds, decorators and multi-line signatures.  The text is written to a real file (or into a zip
archive, i.e. loader-provided source) and imported; for every function / lambda object of the
module `parser.parse_entity` must return the node the interpreter compiled for that object, as
found independently in `ast.parse(whole file)` by the unique name in `__code__.co_name`
(functions) or by the unique integer tag in `__code__.co_consts` (lambdas).

f-strings are generated with the PEP 701 field shapes (nested literals and f-strings re-using the
enclosing quote, several nesting levels, lambdas, fields spanning lines with comments, nested
triple-quoted / raw f-strings with backslash-terminated lines).  Lambdas also occur as the wrapper
and/or the wrapped callable of functools.wraps / update_wrapper calls written in the source, next
to siblings that have the wrapped callable's signature; in addition a drawn share of the modules
has its lambda objects decorated after import (`lwrap`: __wrapped__ / update_wrapper / a two-link
__wrapped__ chain / __signature__) with a callable that has the signature of another lambda of the
same line.

Lambda signatures are also drawn from per-statement *signature families* (G.family_sig): the lambdas
of one statement take their parameter names from one small pool and give every name a drawn kind
(positional-only / positional-or-keyword / *varargs / keyword-only / **kwargs); later lambdas of the
statement are drawn variants of earlier ones - two names exchanged between their slots (equal name
sets, roles permuted: "lambda *items, sep: ..., lambda *sep, items: ..."), one name replaced, a twin,
or a fresh draw from the pool.

History dimension (_draw_history / _run_history): for a share of the file-backed modules the file is
written and imported in one or two EARLIER versions (the generated text with other lambda tags and/or
lines inserted in front, or an unrelated generated module), objects of those versions are resolved
(oracle applied) or the file's lines are merely cached, then the file is rewritten under the same
path - other size and/or other mtime (os.utime), i.e. visibly for linecache.checkcache - and the
module is reloaded (importlib.reload, or re-import after removal from sys.modules).  The objects of
the last version are checked with the ordinary oracle, each in the state right after the reload.
"""
import ast
import collections
import functools
import importlib.util
import inspect
import io
import linecache
import os
import re
import sys
import tempfile
import time
import tokenize
import types
import zipfile
import zipimport

import warnings

import hypothesis.strategies as st

from malt.pyct import errors
from malt.pyct import inspect_utils
from malt.pyct import parser
from vf import common
from vf import harness

warnings.filterwarnings('ignore', category=SyntaxWarning)  # generated literals contain odd escapes on purpose

ID = 'C15'
LEVEL = 'exploration'
TECHNIQUE = ('property-based layout fuzzing: a constructive Hypothesis grammar renders module texts (indent unit, nesting '
             'context, comments, backslash/bracket continuations, every string kind, decorators, multi-line signatures, lambda '
             'arrangements incl. signature families = equal parameter-name sets with the parameter kinds permuted between the lambdas of a line, PEP 701 f-string fields incl. nested f-strings, lambdas wrapping / wrapped by other callables) to real files / zip archives that are imported; lambda objects of a drawn share of modules additionally receive __wrapped__ / __signature__ attributes pointing at the signature of a sibling; oracle = structural comparison (ast.dump) of '
             'parser.parse_entity against the node of an independent ast.parse of the whole file, located through the code '
             'object (unique co_name / unique integer tag in co_consts); history dimension: a share of the modules is imported in earlier versions, the file rewritten under the same path (other size and/or mtime) and the module reloaded before the objects of the last version are checked; own line-level ddmin shrinker')
RULE = ('one evaluation = one function or lambda object of a generated module handed to parser.parse_entity with the future '
        'features the transpiler would pass. Objects are the real ones created by importing the module (module / class '
        'attributes, containers, defaults, __wrapped__ chains, functools.wraps wrappers; lambda objects optionally decorated after creation the way a run-time decorator would: functools.update_wrapper / __wrapped__ / __signature__ pointing at a fresh function made from the code of another lambda of the same line) and, for definitions only reachable by '
        'running enclosing code, functions built from the nested code objects of the compiled file. Non-trivial (functions): '
        'the definition uses >= 2 of {backslash continuation, multi-line string, comment, indentation unit other than 4 spaces, '
        'nesting below module level}, measured by tokenising the definition\'s own lines; (lambdas): >= 2 lambda expressions '
        'span the first line of the object and the outcome is informative (recovered, or rejected while a same-signature twin shares the line). Distinct by SHA1 of (kind, text of the definition\'s lines / of the lines spanned by '
        'the lambdas sharing the line).')
ASSUMPTIONS = [
    'expected node = the FunctionDef/AsyncFunctionDef named __code__.co_name (names unique per module) or the Lambda owning the integer tag found in __code__.co_consts (tags unique); ast.dump without attributes is the structural identity',
    'one indentation style (spaces or tabs) per module; mixed tab/space indentation inside one function is never generated (documented explicit error)',
    'for a lambda UnsupportedLanguageElementError is always an accepted outcome (property text); rejections of a lambda that has no same-signature twin on its line are only measured (classes lambda:unsupported_without_twin:*)',
    'the source string returned next to the tree is checked too: for functions it must parse to the same single definition; for lambdas it must parse (inside parentheses) to the same expression, asserted only when the first and last line of the lambda are ASCII (the parser slices text by UTF-8 byte offsets) and modulo trailing blanks inside multi-line string literals (the parser right-strips each line); its only consumer, origin_info.resolve, tolerates garbage there',
    'functions synthesised from nested code objects (types.FunctionType(code, module globals)) stand for the objects an enclosing call would create: source lookup only depends on __code__, __module__ and the file',
    'shapes of confirmed defects are excluded by construction (coverage.classes excluded:*), their minimal inputs are replayed from replays/C15',
    'attributes set on a lambda object after its creation (__wrapped__, the names copied by functools.update_wrapper, __signature__) do not change which expression created it: the expected node stays the one owning the tag in __code__.co_consts. The decoration target is always a fresh function built from a sibling lambda\'s code object (no __wrapped__ cycles)',
    'f-string field shapes follow PEP 701 and are generated on Python >= 3.12 only (older interpreters get the flat fields); names inside fields of code that the import executes are constants',
    'history cases: every rewrite of a file is observable by linecache.checkcache - the (size, mtime) pair of a version differs from that of every earlier version of the path (mtime set with os.utime, no sleeping); bytecode caches are not written (PYTHONDONTWRITEBYTECODE); function objects left in the module namespace by an earlier version (importlib.reload keeps them) are not evaluated - their source no longer exists; before each object of the last version the linecache entry is put back to what it was right after the reload, so every object is resolved as the first one after the edit',
    'excluded (EXCL, counted under excluded:*): a self-documenting f-string field spanning lines that follows a backslash-newline within its statement (suspected defect of the latest /repo fix ef7e5e5: a compensating empty line lands inside the field and thus inside the string value)',
    'three suspected-defect shapes found by the widened generator are excluded behind named flags (see EXCL) and counted under excluded:*: __signature__ set on a lambda, a def-made wrapper renamed to <lambda> by functools.wraps(lambda), a backslash continuation between the braces of an f-string field',
]
LEVEL_TEXT = ('Randomised exploration of the layout space; every generated definition is compared structurally with the interpreter\'s '
              'own parse of the file, so any difference on an explored case is a concrete counterexample. No claim beyond the cases counted.')
LEVEL_NOTE = ('Trusted: ast.parse of the whole file as the reference tree, code-object names/constants as the identity of an object, '
              'the constructive generator (generator slips are counted, expected 0). Out of reach: encodings other than UTF-8, CRLF files, '
              'form feeds, sources not backed by a file or loader (exec/REPL), mixed tab/space indentation.')

# F10a-c and F11 were repaired in /repo ("fix:" commits); their shapes are generated again and the
# replays in replays/C15 run as ordinary regressions.
# no_lambda___signature___attribute: a lambda object whose __signature__ attribute was set to the
#   signature of another lambda on its line is recovered as that other lambda (inspect.getfullargspec,
#   used by parser._node_matches_argspec, honours __signature__); suspected defect, reported, the
#   harness-level decoration mode 'signature' is redirected to 'attr' while the flag is active.
# no_def_renamed_lambda_by_wraps: a def-made wrapper whose __name__ became '<lambda>' because
#   functools.wraps/update_wrapper copied it from the lambda it wraps is treated as a lambda by
#   inspect_utils.islambda (explicit error, or - with a lambda on the wrapper's first line - that lambda
#   is returned as the wrapper's source); suspected defect, reported; wr1(lambda)/wr2(lambda) become wr3(lambda).
# no_backslash_continuation_in_fstring_field: a backslash-newline between the braces of a replacement
#   field of a triple-quoted f-string (PEP 701) inside an indented definition shifts dedent_block's
#   line-by-line matching by one line (tokenize.untokenize drops the continuation) -> IndentationError;
#   suspected defect, reported; the field is generated with a plain newline instead.
# no_multiline_selfdoc_field_after_backslash_continuation: a replacement field of the self-documenting
#   form spanning lines ('{' newline 'x=' newline '}', whose VALUE contains the field's source text) in a
#   statement that has a backslash continuation before the field: parser._unfold_continuations makes up
#   for the folded row with an empty line placed after the next row that is not part of a string token -
#   here a row inside the field - and the empty line becomes part of the string value (regression of
#   /repo ef7e5e5); suspected defect, reported; the '=' is dropped from such a field while the flag is active.
#   Minimal input: replays/C15/suspected/FC15l_blank_line_inserted_into_selfdoc_fstring_field.json
EXCL = ()   # FC15l (no_multiline_selfdoc_field_after_backslash_continuation) is repaired in /repo and generated again   # FC15h-j (three shapes once excluded here) are repaired in /repo; their flags stay available for scratch runs
_ML_SELFDOC_FIELD = re.compile(r'\{\n([^\n{}]*)=\n\}')

# decorations applied to lambda objects that share their line with a lambda of another signature:
#   update_wrapper  functools.update_wrapper(lam, <callable with the sibling's signature>)
#   attr            lam.__wrapped__ = <that callable> (nothing else copied)
#   chain           lam.__wrapped__ = w1, w1.__wrapped__ = <that callable> (two links)
#   signature       lam.__signature__ = inspect.signature(<that callable>)
LWRAP_MODES = ('update_wrapper', 'update_wrapper', 'attr', 'attr', 'chain', 'signature')



def budget(tier):
  if tier == 'thorough':
    return {'modules': 30000, 'stmts': 34, 'max_depth': 4, 'shrink_s': 60, 'wall_cap': 1150}
  return {'modules': 1600, 'stmts': 22, 'max_depth': 3, 'shrink_s': 12, 'wall_cap': 300}


# ================================================================================================
# generator

B = ('B',)      # optional line break inside brackets
S = ('S',)      # optional line break outside brackets (needs a backslash)
STR = ('STR',)  # a string literal
CAT = ('CAT',)  # two adjacent string literals (implicit concatenation)
LAM = ('LAM',)  # a lambda, not inside brackets of the statement
LAMB = ('LAMB',)  # a lambda inside brackets of the statement

SP_WIDTHS = (1, 2, 2, 2, 3, 4, 4, 4, 4, 5, 6, 8)

ASCII_PIECES = ('abc', '  indented text', 'def g(x):', '    return x', '# not a comment', 'x = 1', '', '   ', 'a\tb',
                'if x:', 'lambda q: q', '@deco', 'pass  ', 'text )', '( text', '[', ':')
NONASCII_PIECES = ('\u00fc\u2192\u00e9', 'na\u00efve caf\u00e9', '\u4e2d\u6587', '  \u03bb x')
DQ_ONLY = ("it's", "'''", "'")       # only inside "..." / """..."""
SQ_ONLY = ('say "hi"', '"""', '"')   # only inside '...' / '''...'''
ESCAPES = ('\\n', '\\t', '\\\\', '\\x41', '\\\\n')
RAW_ESC = ('\\d+', '\\n', 'C:\\dir', '\\\\')
COMMENTS = ('comment', 'TODO(x): fix', 'say "hi"', "it's", '"""', "'''", 'x = 1', '\u00e9\u2192', '', 'def f():',
            'lambda: 0', ' spaced   ', '\\ backslash inside', '#', '!')
STR_PREFIX = ('', '', '', 'r', 'b', 'rb', 'f', 'f', 'rf', 'u', 'R', 'B', 'F', 'Rb', 'fR', 'bR')

LAM_SIGS = ('', 'x', 'x', 'y', 'x, y', 'x=1', '*a', '**k', 'x, *, k', 'x, *a, k=2, **kw', 'self', 'x, y=2')
LAM_SIGS_POSONLY = ('x, /', 'x, /, y', 'x, y, /', 'x, /, *, k')

# Signature families: the lambdas of one statement draw their parameter NAMES from one small pool and
# give every name a drawn KIND (positional-only, positional-or-keyword, *varargs, keyword-only,
# **kwargs), so that lambdas sharing a line have equal name sets with the roles permuted
# ("lambda *items, sep: ..., lambda *sep, items: ..."), equal roles with one name replaced, equal
# signatures (twins) or unrelated draws from the same pool.
SIG_POOLS = (('a', 'k'), ('a', 'k'), ('x', 'y'), ('items', 'sep'), ('x', 'a', 'k'), ('x', 'a', 'k'), ('x', 'y', 'a', 'kw'),
             ('self', 'args', 'kwargs'), ('x', 'a', 'k', 'y', 'kw'))
SIG_KINDS = (('po', 1), ('p', 3), ('va', 3), ('ko', 3), ('vk', 2))
SIG_SPARE_NAMES = ('b', 'm', 'rest', 'opts')
SIG_VARIANTS = (('swap', 45), ('rename', 15), ('same', 10), ('fresh', 30))

PY312 = sys.version_info >= (3, 12)  # PEP 701: nested quotes, backslashes, comments and newlines inside replacement fields

# Replacement fields of f-strings.  "\x01x" / "\x01w" / "\x01d" stand for an operand (a free name where the code is
# never run, a constant where it is run by the import), "\x01T" for a fresh lambda tag, "\x01i" for
# drawn leading blanks of a continuation line inside the field.  Written with double quotes; the
# quote character of nested literals is drawn (PEP 701 allows re-using the enclosing quote).
FIELDS_FLAT = ('{\x01x}', '{{lit}}', '{\x01x!r}', '{\x01x:>{\x01w}}', '{\x01d["k"]}', '{\x01x + 1}', '{ \x01x }', '{\x01x=}', '{\x01x}{\x01w}',
               '{\x01x!r:^{\x01w}.{\x01w}}', '{\x01x=!s:>{\x01w}}', '{ {"k": \x01x}["k"] }', '{\x01x:.1%}', '{\x01x,}', '{\x01x:{\x01w}{"d"}}')
# fields holding a nested string literal that is not an f-string (one STRING token inside the field)
FIELDS_NESTED_STR = ('{"lit" + "s"}', '{r"\\d" + "s"}', '{len("a b")}', '{"a}b"}', '{b"by"!r}', '{"#"}')
# fields holding a nested f-string (its own FSTRING_START .. FSTRING_END inside the enclosing one)
FIELDS_NESTED_F = ('{f"{\x01x} items"}', '{f"{\x01x!r:>{\x01w}}"}', '{rf"\\d{\x01x}"}', '{\x01x:{f"{\x01w}"}}', '{f"{f"{\x01x}"}"}',
                   '{"lit" + f"{\x01x}"}', '{\x01x if \x01w else f"n{\x01x}"}', '{f"{\x01x}" f"{\x01w}"}', '{f"{{{\x01x}}}"}', '{f""}',
                   '{f"{\x01x}":>{\x01w}}', '{F"{f"{\x01x:{f"{\x01w}"}}"}"}')
# fields holding a (tagged) lambda
FIELDS_LAMBDA = ('{(lambda q: q + \x01T)(2)}', '{(lambda q, r=3: (q, \x01T))(2)!r:>{\x01w}}', '{f"{(lambda q: q + \x01T)(2)}"}',
                 '{(lambda: \x01T)()}{(lambda: \x01T)()}', '{(lambda q: q + \x01T)((lambda r: r + \x01T)(1))}')
# fields spanning lines (triple-quoted f-strings only)
FIELDS_ML = ('{\x01x +\n\x01i1}', '{\n\x01i\x01x\n\x01i}', '{\x01x  # why\n\x01i}', '{\x01x + \\\n\x01i1}', '{\x01x:\n>{\x01w}}', '{\n\x01x=\n}',
             '{"a\\\nb"}', '{(lambda q: (q,\n\x01i\x01T))(2)}', '{(\x01x,  # it"s {\n\x01i\x01w)}')
# multi-line fields holding a nested f-string
FIELDS_ML_NESTED_F = ('{f"""a\n\x01i{\x01x}\n"""}', '{f"{\x01x}\\\n"}', '{f"""{\x01x}\\\\\n"""}', '{rf"""C:\\\n{\x01x}"""}',
                      '{str(\x01x) +\n\x01if"{\x01w}"}', '{f"{\x01x +\n\x01i1}"}', '{f"""{f"""{\x01x}\n"""}\n"""}', '{f"{\x01x}"  # nested\n\x01i}')

# named callables a lambda may wrap, with their signature written as a lambda signature
WRAP_NAMED = (('xy', 'x, y'), ('xy', 'x, y'), ('keep', '*a, **k'), ('ident', 'f'), ('xk', 'x, *, k'), ('xpos', 'x, /, y'))

FREE_SIMPLE = (
    (['x = a +', S, 'b *', S, 'c'], 4),
    (['y = foo(', B, 'a,', B, 'b,', B, 'k=c', B, ')'], 4),
    (['z = [', B, '1,', B, '2,', B, '3', B, ']'], 2),
    (['d = {', B, '"k": a,', B, '"j": b', B, '}'], 2),
    (['s = ', STR], 6),
    ([STR], 4),
    (['t = (', B, CAT, B, ')'], 2),
    (['u = foo(', STR, ',', B, 'a)'], 3),
    (['return ', STR], 2),
    (['return a if b else', S, 'c'], 2),
    (['return (', B, 'a,', B, STR, B, ')'], 2),
    (['assert a,', S, STR], 1),
    (['x += 1'], 1), (['pass'], 1), (['del x'], 1), (['x = 1; y = 2'], 2), (['x: int = 3'], 1),
    (['print(a,', B, 'sep="")'], 1),
    (['w = [i for i in', B, 'range(3)', B, 'if i]'], 1),
    (['v = a[1:2,', B, '::3]'], 1),
    (['n = 0x1F + 1_000 + 1e-3 + 2j'], 1),
    (['m = a @ b'], 1), (['if (q := a) > 1: pass'], 1), (['x = ...'], 1),
    (['h = ', LAM], 3),
    (['hs = [', B, LAMB, ',', B, LAMB, B, ']'], 2),
    (['hq = foo(', LAMB, ',', B, 'a)(', B, LAMB, ')'], 1),
    (['\u00e9 = "\u00fc"'], 1),
    (['raise ValueError(', B, STR, B, ')'], 1),
    (['yield a'], 1),
    (['import os, sys'], 1),
    (['from os import (', B, 'path,', B, 'sep', B, ')'], 1),
    (['x = not a'], 1), (['x = a < b <= c'], 1), (['x = -a ** +b'], 1), (['x, *y = a'], 1), (['x = y = a'], 1),
    (['a.b[c].d = 1'], 1), (['type T = int'], 1),
    (['s = f"{(lambda x: x + ', ('TAG',), ')(2)}"'], 1),
    (['for i in a: pass'], 1), (['while a: pass'], 1), (['with a: pass'], 1), (['class K: pass'], 1),
)
SAFE_SIMPLE = (
    (['x = 1 +', S, '2 *', S, '3'], 4),
    (['y = dict(', B, 'a=1,', B, 'b=2', B, ')'], 4),
    (['z = [', B, '1,', B, '2', B, ']'], 2),
    (['s = ', STR], 6),
    ([STR], 4),
    (['t = (', B, CAT, B, ')'], 2),
    (['u = keep(', STR, ',', B, '1)'], 3),
    (['pass'], 1), (['x = 1; y = 2'], 2), (['x: int = 3'], 1),
    (['n = 0x1F + 1_000 + 1e-3 + 2j'], 1),
    (['if (q := 2) > 1: pass'], 1),
    (['import os, sys'], 1),
    (['from os import (', B, 'path,', B, 'sep', B, ')'], 1),
    (['for _j in (): pass'], 1), (['class K: pass'], 1),
)


_INTS = {}


def _has_continuation(text, upto):
  """True when a row of the statement `text` that begins before offset `upto` ends in a backslash
  which is not part of a string literal or comment, i.e. a line continuation (also one inside a
  replacement field).  On doubt (text that cannot be tokenised) True."""
  head = text[:upto]
  if '\\\n' not in head:
    return False
  covered = collections.defaultdict(list)
  try:
    for t in tokenize.generate_tokens(io.StringIO(text).readline):
      if t.type in (tokenize.STRING, tokenize.COMMENT, getattr(tokenize, 'FSTRING_MIDDLE', -1)):
        (r0, c0), (r1, c1) = t.start, t.end
        for r in range(r0, r1 + 1):
          covered[r].append((c0 if r == r0 else 0, c1 if r == r1 else 10 ** 9))
  except (tokenize.TokenError, SyntaxError, IndentationError):
    return True
  for r, line in enumerate(head.split('\n')[:-1], 1):
    if line.endswith('\\') and not any(a <= len(line) - 1 < b for a, b in covered.get(r, ())):
      return True
  return False


class G(object):
  """Emits a module text line by line; every random choice is a Hypothesis draw."""

  def __init__(self, draw, cfg):
    self.draw = draw
    self.excl = set(cfg.get('excl', EXCL))
    self.maxdepth = cfg.get('max_depth', 3)
    self.left = cfg.get('stmts', 22)
    self.lines = []
    self.nf = 0
    self.nk = 0
    self.nl = 0
    self.tag = 1000
    self.meta = collections.Counter()
    self.tabs = self.pct(22)
    self.group = None  # lambda accounting of the statement being built
    self.fs = collections.Counter()  # f-string accounting of the literal being built
    self.last_isfield = False
    self.cur_async = False

  # -- draws
  def i(self, lo, hi):
    s = _INTS.get((lo, hi))
    if s is None:
      s = _INTS[(lo, hi)] = st.integers(lo, hi)
    return self.draw(s)

  def pick(self, seq):
    return seq[self.i(0, len(seq) - 1)]

  def pct(self, p):
    return self.i(0, 99) < p

  def wpick(self, table):
    tot = sum(w for _, w in table)
    k = self.i(0, tot - 1)
    for v, w in table:
      k -= w
      if k < 0:
        return v
    raise AssertionError

  # -- indentation
  def child(self, ind):
    if self.tabs:
      return ind + ('\t\t' if self.pct(8) else '\t')
    return ind + ' ' * self.pick(SP_WIDTHS)

  def cont(self, ind):
    k = self.i(0, 9)
    if k < 2:
      return ''
    if k < 4:
      return ind[:self.i(0, len(ind))]
    if k < 6:
      return ind
    if self.tabs and self.pct(50):
      return ind + '\t'
    return ind + ' ' * self.i(1, 9)

  def excluded(self, flag):
    """True when `flag` is active: the caller must redirect the draw."""
    if flag in self.excl:
      self.meta['excluded:' + flag] += 1
      return True
    return False

  # -- comments
  def comment(self):
    t = self.pick(COMMENTS)
    c = '#' + (' ' if self.pct(80) else '') + t
    if self.pct(7):
      if not self.excluded('no_comment_ending_in_backslash'):
        c += ' \\'
        self.meta['gen:comment_ending_in_backslash'] += 1
    return c

  def comment_lines(self, ind, p=25):
    """Own-line comments / blank lines, at any indentation."""
    while self.pct(p):
      k = self.i(0, 9)
      if k < 3:
        self.lines.append(self.pick(('', '', ind, '  ', '\t')))
      else:
        self.lines.append(self.cont(ind) + self.comment())
      p = 35

  # -- strings
  def field(self, safe, triple):
    """One replacement field of an f-string (PEP 701 shapes: nested literals and f-strings re-using
    the enclosing quote, lambdas, and - in triple-quoted literals - fields spanning lines with
    comments and backslash continuations)."""
    fs = self.fs
    k = self.i(0, 99)
    if not PY312 or k < 30:
      t, kind = self.pick(FIELDS_FLAT), 'flat'
    elif k < 40:
      t, kind = self.pick(FIELDS_NESTED_STR), 'nested_str'
    elif k < 66:
      t, kind = self.pick(FIELDS_NESTED_F), 'nested_f'
    elif k < 76:
      t, kind = self.pick(FIELDS_LAMBDA), 'lambda'
    elif not triple:
      t, kind = self.pick(FIELDS_NESTED_F), 'nested_f'
    elif k < 88:
      t, kind = self.pick(FIELDS_ML), 'multiline'
      if ' \\\n' in t:
        if self.excluded('no_backslash_continuation_in_fstring_field'):
          t = t.replace(' \\\n', '\n')
        else:
          self.meta['gen:fstr:backslash_continuation_in_field'] += 1
    else:
      t, kind = self.pick(FIELDS_ML_NESTED_F), 'multiline_nested_f'
    if PY312 and t != '{{lit}}' and self.pct(50):
      t = t.translate({34: 39, 39: 34})  # the quote of nested literals: " <-> '
    if '\x01' in t:
      out = []
      for j, seg in enumerate(t.split('\x01')):
        if j:
          c, seg = seg[0], seg[1:]
          if c == 'x':
            out.append(self.pick(('5', '2', '(7)')) if safe else self.pick(('x', 'a', 'self.v', 'x[0]')))
          elif c == 'w':
            out.append(self.pick(('4', '3')) if safe else self.pick(('w', 'n')))
          elif c == 'd':
            out.append('dict(k=1)' if safe else 'd')
          elif c == 'T':
            out.append(self.newtag())
            self.meta['gen:lambda'] += 1
            self.meta['gen:lambda_in_fstring_field'] += 1
          elif c == 'i':
            out.append(self.pick(('', ' ', '  ', '    ', '      ', '\t')))
        out.append(seg)
      t = ''.join(out)
    fs[kind] += 1
    if 'nested_f' in kind or t.lower().count('f"') + t.lower().count("f'") > 0:
      fs['has_nested_f'] += 1
    return t

  def piece(self, q, raw, fstr, bytes_, safe, triple=False):
    if fstr and self.pct(28):
      return self.field(safe, triple), True
    return self.plain_piece(q, raw, fstr, bytes_, safe), False

  def plain_piece(self, q, raw, fstr, bytes_, safe):
    k = self.i(0, 99)
    if k < 50:
      t = self.pick(ASCII_PIECES)
    elif k < 60 and not bytes_:
      t = self.pick(NONASCII_PIECES)
    elif k < 68:
      t = self.pick(DQ_ONLY if q == '"' else SQ_ONLY)
    elif k < 80:
      t = self.pick(RAW_ESC if raw else ESCAPES)
    elif k < 86 and fstr:
      if safe:
        t = self.pick(('{1 + 1}', '{{lit}}', '{2!r}', '{3:>{4}}', '{"k"}', '{ 5 }', '{6=}'))
      else:
        t = self.pick(('{x}', '{{lit}}', '{x!r}', '{x:>{w}}', '{d["k"]}', '{x + 1}', '{ x }', '{x=}', '{a}{b}'))
    elif k < 90 and not bytes_ and not (raw and fstr and safe):
      # a named escape: "{" that does not open a field (in a raw f-string it does: \N{BULLET} reads the name BULLET)
      t = self.pick(('\\N{BULLET}', '\\N{EM DASH}')) if not (raw and fstr) else '\\N{BULLET}'
      self.meta['gen:str:named_escape'] += 1
    else:
      t = 'z'
    return t

  def strlit(self, safe, single_line=False):
    prefix = self.pick(STR_PREFIX)
    low = prefix.lower()
    raw, bytes_, fstr = 'r' in low, 'b' in low, 'f' in low
    q = self.pick('"\'')
    triple = (not single_line) and self.pct(55)
    q2 = "'" if q == '"' else '"'
    self.fs = collections.Counter()

    def mk():
      t, isfield = self.piece(q, raw, fstr, bytes_, safe, triple)
      self.last_isfield = isfield
      if not triple and not (isfield and PY312):
        t = t.replace(q, q2)  # literal text may not hold the closing quote; a field may (PEP 701)
      return t

    self.meta['gen:str:' + ('triple' if triple else 'single') + (':' + low if low else '')] += 1
    if not triple:
      parts = [mk() for _ in range(self.i(0, 2))]
      text = ' '.join(parts)
      out = prefix + q + text
      # backslash-newline inside a one-quote literal
      n = 0 if single_line else (self.i(1, 2) if self.pct(15) else 0)
      for _ in range(n):
        if raw and self.excluded('no_raw_string_backslash_newline'):
          break
        run = len(out) - len(out.rstrip('\\'))
        if run % 2:
          out += ' '
        out = self._newline(out + '\\', raw)
        out += mk()
      out = self._fix_tail(out, q, raw)
      self._fstr_account(out, fstr, raw, False)
      return out + q
    qqq = q * 3
    n = self.i(1, 4)
    out = prefix + qqq
    if self.pct(30):
      out += '\n'
    for k in range(n):
      seg = mk()
      if qqq in seg and not (self.last_isfield and PY312):
        seg = 'q'
      out += seg
      last = (k == n - 1)
      if last and self.pct(55):
        break
      e = self.i(0, 99)
      run = len(out) - len(out.rstrip('\\'))
      if e < 62:
        pass
      elif e < 72:
        out += '  '
      elif e < 90:
        # the line ends in an odd run of backslashes (a continuation, unless the literal is raw)
        if run % 2 == 0:
          out += '\\'
      else:
        # the line ends in an escaped backslash
        out += '\\' if run % 2 else '\\\\'
      out = self._newline(out, raw)
      if last:
        out += self.pick(('', '  ', '    ', '\t'))
    out = self._fix_tail(out, q, raw)
    if out.endswith(q):
      out += ' '
    self._fstr_account(out, fstr, raw, True)
    return out + qqq

  def _fstr_account(self, out, fstr, raw, triple):
    """Counters of the f-string shapes just generated (coverage.classes gen:fstr:*)."""
    if not fstr:
      return
    fs = self.fs
    for k, v in fs.items():
      self.meta['gen:fstr:field:' + k] += v
    if not fs.get('has_nested_f'):
      return
    self.meta['gen:fstr:with_nested_fstring'] += 1
    if '\n' not in out:
      return
    self.meta['gen:fstr:multiline_with_nested_fstring'] += 1
    for line in out.split('\n')[:-1]:
      run = len(line) - len(line.rstrip('\\'))
      if run and (raw or run % 2 == 0):
        # approximate (a line ending inside a field is counted too); the exact figure is the
        # oracle-side class def:fstring_nested+content_backslash_eol
        self.meta['gen:fstr:multiline_with_nested_fstring+line_ending_in_backslash_content'] += 1
        break

  def _newline(self, out, raw):
    """Appends the newline ending a line of a multi-line literal; the three shapes of the textual
    continuation-unfolding defect are redirected here when their flag is active."""
    run = len(out) - len(out.rstrip('\\'))
    if run:
      if raw:
        if self.excluded('no_raw_string_backslash_newline'):
          out += ' '
        else:
          self.meta['gen:raw_string_backslash_newline'] += 1
      elif run % 2 == 0:
        if self.excluded('no_escaped_backslash_before_newline_in_string'):
          out += ' '
        else:
          self.meta['gen:escaped_backslash_before_newline'] += 1
      else:
        self.meta['gen:string_line_continuation'] += 1
    return out + '\n'

  @staticmethod
  def _fix_tail(out, q, raw):
    """Keeps the text valid when something is appended: no odd run of trailing backslashes."""
    n = len(out) - len(out.rstrip('\\'))
    if n % 2:
      out += ' ' if raw else '\\'
    return out

  # -- lambdas
  def newtag(self):
    self.tag += 1
    return str(self.tag)

  def lam(self, ind, inbr, safe, depth=0, sig=None):
    """Text of a lambda owning a unique tag; newlines only inside brackets. `sig` forces the signature."""
    grp = self.group
    grp['n'] += 1
    self.meta['gen:lambda'] += 1
    forced = sig is not None
    if sig is not None:
      pass
    elif self.pct(70 if grp.get('fam') else 14):
      sig = self.family_sig(grp, (not grp.get('solo')) or depth > 0 or grp['n'] > 1)
    elif self.pct(12):
      sharing = (not grp.get('solo')) or depth > 0 or grp['n'] > 1
      if sharing and self.excluded('no_posonly_lambda_sharing_line'):
        sig = self.pick(LAM_SIGS)
      else:
        sig = self.pick(LAM_SIGS_POSONLY)
        grp['posonly'] = True
        self.meta['gen:posonly_lambda' + ('_sharing_line' if sharing else '_alone')] += 1
    else:
      sig = self.pick(LAM_SIGS)
    nested_ok = depth < 2 and not grp.get('posonly')
    if forced:
      pass
    elif nested_ok and self.pct(8) and sig in ('x', 'y', ''):
      sig = (sig + ', ' if sig else '') + 'z=' + self.lam(ind, inbr, safe, depth + 1)
    ci = self.cont(ind)
    brk = (lambda: ('\n' + ci) if self.pct(30) else ' ')
    head = 'lambda'
    if sig:
      if inbr and ', ' in sig and '\n' not in sig and self.pct(20):
        sig = sig.replace(', ', ',\n' + ci, 1)
      head += (brk() if inbr and self.pct(10) else ' ') + sig
    head += ':' if self.pct(85) else ' :'
    tag = self.newtag()
    k = self.i(0, 99)
    if k < 30:
      body = 'x + ' + tag
    elif k < 40:
      body = '(x, ' + tag + ')'
    elif k < 52:
      # the body starts on a later line than the keyword
      body = '(\n' + ci + 'x + ' + tag + ('\n' + self.cont(ind) if self.pct(40) else '') + ')'
    elif k < 60:
      body = '[x,\n' + ci + tag + '][0]'
    elif k < 68:
      body = 'foo(' + tag + ',' + ('  ' + self.comment() if self.pct(30) else '') + '\n' + ci + 'x)'
    elif k < 74:
      body = tag + ' if x else 0'
    elif k < 82 and nested_ok:
      body = '(' + tag + ',' + brk() + self.lam(ind, True, safe, depth + 1) + ')'
    elif k < 90 and nested_ok:
      # directly nested: the outer lambda owns no tag of its own
      self.tag -= 1
      body = self.lam(ind, inbr, safe, depth + 1)
    elif k < 95:
      body = '(' + tag + ', ' + self.strlit(safe) + ')'
    else:
      body = 'x + \\\n' + ci + tag
    sep = ' '
    if inbr and self.pct(12):
      sep = '\n' + ci
    elif self.pct(6):
      sep = ' \\\n' + ci
    return head + sep + body

  def family_sig(self, grp, sharing):
    """A signature of the statement's signature family: [(name, kind)] slots over the statement's
    name pool.  The first lambda of a statement draws names and kinds freely; a later one is a drawn
    variant of an earlier one: names exchanged between two slots (roles permuted, equal name set),
    one name replaced (equal roles), identical (a twin), or a fresh draw from the same pool."""
    fam = grp.get('fam')
    variant = 'first'
    if fam is None:
      fam = grp['fam'] = {'pool': self.pick(SIG_POOLS), 'sigs': []}
      self.meta['gen:lambda_sig_family:statements'] += 1
    if fam['sigs']:
      variant = self.wpick(SIG_VARIANTS)
    slots = None
    if variant in ('swap', 'rename', 'same'):
      base = list(self.pick(fam['sigs']))
      if variant == 'swap' and len(base) >= 2:
        i = self.i(0, len(base) - 1)
        j = (i + self.i(1, len(base) - 1)) % len(base)
        (ni, ki), (nj, kj) = base[i], base[j]
        base[i], base[j] = (nj, ki), (ni, kj)
        slots = base
        self.meta['gen:lambda_sig_family:swap:' + '<->'.join(sorted((ki, kj)))] += 1
      elif variant == 'rename' and base:
        i = self.i(0, len(base) - 1)
        spare = [n for n in SIG_SPARE_NAMES + fam['pool'] if n not in [x[0] for x in base]]
        base[i] = (self.pick(spare), base[i][1])
        slots = base
      elif variant == 'same' and base:
        slots = base
      else:
        variant = 'fresh'
    if slots is None:
      pool = list(fam['pool'])
      n = min(len(pool), self.pick((1, 2, 2, 2, 3, 3, 4)))
      names = []
      for _ in range(n):
        names.append(pool.pop(self.i(0, len(pool) - 1)))
      slots = []
      for nm in names:
        have = [k for _, k in slots]
        table = [(k, w) for k, w in SIG_KINDS if not (k in ('va', 'vk') and k in have)]
        slots.append((nm, self.wpick(table)))
    if sharing and any(k == 'po' for _, k in slots) and self.excluded('no_posonly_lambda_sharing_line'):
      slots = [(nm, 'p' if k == 'po' else k) for nm, k in slots]
    if any(k == 'po' for _, k in slots):
      grp['posonly'] = True
      self.meta['gen:posonly_lambda' + ('_sharing_line' if sharing else '_alone')] += 1
    fam['sigs'].append(tuple(slots))
    self.meta['gen:lambda_sig_family:lambdas'] += 1
    self.meta['gen:lambda_sig_family:variant=' + variant] += 1
    kinds = set(k for _, k in slots)
    if 'va' in kinds and 'ko' in kinds:
      self.meta['gen:lambda_sig_family:varargs+kwonly'] += 1
    return self.sig_text(slots)

  def sig_text(self, slots):
    """Renders [(name, kind)] slots in the order Python requires; defaults are drawn constants."""
    by = collections.defaultdict(list)
    for nm, k in slots:
      by[k].append(nm)
    pos = [(nm, 'po') for nm in by['po']] + [(nm, 'p') for nm in by['p']]
    first_default = self.i(0, len(pos)) if pos and self.pct(35) else len(pos)
    out = []
    for j, (nm, k) in enumerate(pos):
      out.append(nm + ('=%d' % (j + 1) if j >= first_default else ''))
      if k == 'po' and (j + 1 == len(pos) or pos[j + 1][1] != 'po'):
        out.append('/')
    if by['va']:
      out.append('*' + by['va'][0])
    elif by['ko']:
      out.append('*')
    for nm in by['ko']:
      out.append(nm + (self.pick(('=2', '=None', ' = 0')) if self.pct(35) else ''))
    if by['vk']:
      out.append('**' + by['vk'][0])
    return ', '.join(out)

  # -- simple statements
  def render(self, parts, ind, safe):
    """Renders a template; returns text (may contain newlines) without the leading indentation."""
    ci = self.cont(ind)
    out = ''
    nlam = sum(1 for p in parts if not isinstance(p, str) and (p in (LAM, LAMB) or p[0] == 'LAMS'))
    self.group = {'n': 0, 'solo': nlam == 1}
    for p in parts:
      if isinstance(p, str):
        if p == 'yield a' and self.cur_async:
          p = 'await a'
        out += self._sp(out, p) + p
      elif p is B:
        if self.pct(28):
          if self.pct(25):
            out += '  ' + self.comment()
          elif self.pct(10):
            out += '  '
          out += '\n' + (ci if self.pct(80) else self.cont(ind))
          self.meta['gen:bracket_break'] += 1
        elif self.pct(8):
          out += ' \\\n' + ci
          self.meta['gen:backslash_break'] += 1
      elif p is S:
        if self.pct(30):
          out += ' \\\n' + (ci if self.pct(80) else self.cont(ind))
          self.meta['gen:backslash_break'] += 1
      elif p is STR:
        out += self._sp(out, 's') + self.strlit(safe)
      elif p is CAT:
        a = self.strlit(safe)
        for _ in range(8):
          b = self.strlit(safe)
          if self._isbytes(a) == self._isbytes(b):
            break
        else:
          b = a
        out += a + (' ' if self.pct(60) else '\n' + ci) + b
      elif p is LAM:
        out += self._sp(out, 'l') + self.lam(ind, False, safe)
      elif p is LAMB:
        out += self._sp(out, 'l') + self.lam(ind, True, safe)
      elif p[0] == 'LAMS':
        out += self._sp(out, 'l') + self.lam(ind, True, safe, sig=p[1])
      elif p == ('TAG',):
        out += self.newtag()
    return out

  @staticmethod
  def _sp(out, p):
    if out and out[-1] not in ' \t\n([{' and p[0] not in ')]},':
      return ' '
    return ''

  @staticmethod
  def _isbytes(lit):
    i = 0
    while lit[i] not in '"\'':
      i += 1
    return 'b' in lit[:i].lower()

  def selfdoc_guard(self, text):
    """Multi-line self-documenting f-string fields of a statement: counted, and - behind the exclusion
    flag - written without the '=' when a backslash-newline precedes them in the statement."""
    pos = 0
    while True:
      m = _ML_SELFDOC_FIELD.search(text, pos)
      if m is None:
        return text
      pos = m.end()
      if _has_continuation(text, m.start()):
        if self.excluded('no_multiline_selfdoc_field_after_backslash_continuation'):
          text = text[:m.end() - 3] + text[m.end() - 2:]
          pos -= 1
          continue
        self.meta['gen:fstr:multiline_selfdoc_field_after_backslash_newline'] += 1
      else:
        self.meta['gen:fstr:multiline_selfdoc_field'] += 1

  def emit_stmt(self, ind, text, trailing=True):
    if '=\n}' in text:
      text = self.selfdoc_guard(text)
    if trailing and not text.endswith('\\') and self.pct(18):
      text += self.pick((' ', '  ', '\t')) + self.comment()
    elif trailing and self.pct(5):
      text += '  '
    ls = (ind + text).split('\n')
    self.lines.extend(ls)

  def simple(self, ind, safe):
    self.left -= 1
    if self.pct(22):
      return self.lamstmt(ind, safe)
    parts = self.wpick(SAFE_SIMPLE if safe else FREE_SIMPLE)
    self.emit_stmt(ind, self.render(parts, ind, safe))

  def lamstmt(self, ind, safe):
    self.nl += 1
    n = 'L%d' % self.nl
    if self.pct(16):
      return self.wrapstmt(ind, safe, n)
    k = self.i(0, 99)
    if k < 25:
      parts = [n + ' = ', LAM]
    elif k < 55:
      parts = [n + ' = ['] + self._seq(self.i(2, 4)) + [B, ']']
    elif k < 68:
      parts = [n + ' = keep(', B, LAMB, ',', B, 'k=', LAMB, B, ')']
    elif k < 78:
      parts = [n + ' = {', B, '"a":', LAMB, ',', B, '"b":', B, LAMB, B, '}']
    elif k < 86:
      parts = [n + ' = ', LAM, ',', LAM]
    elif k < 94:
      parts = [n + ' = ', LAM, ';', n + 'b = ', LAM]
    else:
      parts = [n + ' = (', B, LAMB, B, ')']
    self.emit_stmt(ind, self.render(parts, ind, safe))

  def wrapstmt(self, ind, safe, n):
    """Lambdas that carry __wrapped__ (functools.wraps / update_wrapper written in the source) next to
    other lambdas on the same line(s); the wrapped callable is a lambda of the statement or a named
    function, and a sibling may be forced to have exactly the wrapped callable's signature."""
    self.meta['gen:lambda_wrap_statement'] += 1
    named, nsig = self.pick(WRAP_NAMED)
    sib = ('LAMS', nsig) if self.pct(60) else LAMB
    upd = self.pick(('functools.update_wrapper(', 'functools.update_wrapper(', 'upd('))
    k = self.i(0, 99)
    if k < 22:
      # wrapper first, wrapped second
      parts = [n + ' = ' + upd, B, LAMB, ',', B, LAMB, B, ')']
    elif k < 40:
      parts = [n + ' = functools.wraps(', LAMB, ')(', B, LAMB, B, ')']
    elif k < 52:
      # three on a line: a bystander with (maybe) the wrapped lambda's signature
      s2 = self.pick(LAM_SIGS)
      parts = [n + ' = [', B, ('LAMS', s2) if self.pct(50) else LAMB, ',', B, upd, LAMB, ',', B, ('LAMS', s2), ')', B, ']']
    elif k < 68:
      parts = [n + ' = [', B, sib, ',', B, 'functools.wraps(' + named + ')(', LAMB, ')', B, ']']
    elif k < 82:
      parts = [n + ' = [', B, upd, LAMB, ',', B, named + '),', B, sib, B, ']']
    elif k < 90:
      parts = [n + ' = {', B, '"a":', 'functools.wraps(' + named + ')(', LAMB, '),', B, '"b":', B, sib, B, '}']
    else:
      # a named wrapper function around a lambda: the lambda is the __wrapped__ of a def
      w = self.pick(('wr1(', 'wr2(', 'wr3('))
      if w != 'wr3(' and self.excluded('no_def_renamed_lambda_by_wraps'):
        w = 'wr3('  # sets __wrapped__ but leaves the wrapper's __name__ alone
      parts = [n + ' = keep(', B, w, LAMB, '),', B, LAMB, B, ')']
    self.emit_stmt(ind, self.render(parts, ind, safe))

  def _seq(self, n):
    out = []
    for k in range(n):
      out += [B, LAMB]
      if k < n - 1:
        out.append(',')
      elif self.pct(30):
        out.append(',')
    return out

  # -- blocks
  def block(self, ind, safe, depth, minstmts=1, in_class=False):
    self.comment_lines(ind, 15)
    n = self.i(minstmts, 3)
    for k in range(n):
      if self.left <= 0 and k >= minstmts:
        break
      self.stmt(ind, safe, depth, in_class)
      self.comment_lines(ind, 12)

  def stmt(self, ind, safe, depth, in_class=False):
    k = self.i(0, 99)
    deep = depth >= self.maxdepth or self.left <= 0
    if k < 52 or (deep and k < 80):
      self.simple(ind, safe)
    elif k < 76 or deep:
      self.fdef(ind, safe, depth, in_class)
    else:
      self.compound(ind, safe, depth)

  def suite(self, ind, header, safe, depth, trailing=True):
    """header ends with ':'; emits header + indented block or a one-line suite."""
    if self.pct(10) and '\n' not in header:
      self.left -= 1
      self.emit_stmt(ind, header + ' ' + self.pick(('pass', 'x = 1', 'x = 1; y = 2', '"doc"')))
      return
    self.emit_stmt(ind, header, trailing)
    self.block(self.child(ind), safe, depth + 1)

  def compound(self, ind, safe, depth):
    self.left -= 1
    ci = self.cont(ind)
    k = self.i(0, 99)
    self.meta['gen:compound'] += 1
    if k < 22:
      if safe:
        h = self.pick(('if True:', 'if 1 + \\\n' + ci + '1:', 'if (1 and\n' + ci + '2):', 'if 1 :'))
      else:
        h = self.pick(('if a:', 'if a and \\\n' + ci + 'b:', 'if (a and\n' + ci + 'b):', 'if a :'))
      self.suite(ind, h, safe, depth)
      if self.pct(25):
        self.suite(ind, 'elif 0:' if safe else 'elif b:', safe, depth)
      if self.pct(35):
        self.suite(ind, 'else:', safe, depth)
    elif k < 36:
      self.suite(ind, 'for _i in range(1):' if safe else self.pick(('for i in range(3):', 'for i, (j, k) in \\\n' + ci + 'a:')), safe, depth)
      if self.pct(15):
        self.suite(ind, 'else:', safe, depth)
    elif k < 44:
      self.suite(ind, 'while False:' if safe else 'while a:', safe, depth)
    elif k < 58:
      if safe:
        h = self.pick(('with CM():', 'with CM() as cm:', 'with (CM() as c1,\n' + ci + 'CM() as c2):', 'with CM(), \\\n' + ci + 'CM():'))
      else:
        h = self.pick(('with open(a) as f:', 'with a, b:', 'with (open(a) as f,\n' + ci + 'open(b) as g):', 'with a as (p, q):'))
      self.suite(ind, h, safe, depth)
    elif k < 74:
      self.suite(ind, 'try:', safe, depth)
      kk = self.i(0, 2)
      if kk != 2:
        self.suite(ind, self.pick(('except Exception:', 'except (ValueError, TypeError) as e:', 'except ValueError as e:', 'except:')), safe, depth)
        if self.pct(25):
          self.suite(ind, 'else:', safe, depth)
      if kk != 0:
        self.suite(ind, 'finally:', safe, depth)
    elif k < 82:
      self.emit_stmt(ind, 'match 1:' if safe else 'match a:')
      ind2 = self.child(ind)
      self.comment_lines(ind2, 10)
      if safe:
        self.suite(ind2, 'case 1:', safe, depth + 1)
      else:
        self.suite(ind2, self.pick(('case [x, y]:', 'case {"k": v}:', 'case K(p=1) | 2:', 'case (1,\n' + ci + '2):')), safe, depth + 1)
      if self.pct(50):
        self.suite(ind2, 'case _:', safe, depth + 1)
    else:
      self.nk += 1
      h = 'class K%d%s:' % (self.nk, self.pick(('', '', '(object)', '()', '(object,\n' + ci + 'metaclass=type)')))
      if self.pct(25):
        self.lines.append(ind + self.pick(('@ident', '@dargs(1)')))
      self.emit_stmt(ind, h)
      # class bodies are executed, also inside functions they may not contain return/yield
      self.block(self.child(ind), True, depth + 1, minstmts=1, in_class=True)

  # -- function definitions
  def decorator(self, ind, safe, toplevel, in_class):
    ci = self.cont(ind)
    k = self.i(0, 99)
    if k < 22:
      d = '@ident'
    elif k < 32:
      d = '@dargs(1, 2)'
    elif k < 44:
      d = '@dargs(1,' + ('  ' + self.comment() if self.pct(30) else '') + '\n' + ci + 'k=2)'
    elif k < 54:
      self.group = {'n': 0, 'solo': True}
      d = '@dargs(' + self.lam(ind, True, True) + ')'
    elif k < 64:
      d = '@wr1'
    elif k < 70:
      d = '@wr2'
    elif k < 78:
      d = '@dargs(' + self.strlit(True) + ')'
    elif k < 84:
      d = '@(ident)'
    elif k < 92:
      d = '@functools.wraps(ident)'
    elif in_class:
      d = self.pick(('@staticmethod', '@classmethod', '@property'))
    else:
      d = '@ident  '
    self.meta['gen:decorator'] += 1
    if '\n' not in d.split('#')[-1] and self.pct(15):
      d += '  ' + self.comment()
    self.lines.extend((ind + d).split('\n'))
    if self.pct(12):
      self.lines.append(self.cont(ind) + self.comment())
    elif self.pct(5):
      self.lines.append('')

  def params(self, ind, safe):
    ci = self.cont(ind)
    k = self.i(0, 99)
    if k < 15:
      return ''
    if k < 35:
      return self.pick(('a', 'self', 'a, b', 'a, b=1', '*args, **kw'))
    items = list(self.pick((
        ('a', 'b=1', '*args', '**kw'),
        ('a', '/', 'b', '*', 'c'),
        ('a: int = 3', '*args: str', 'k: "T" = None', '**kw'),
        ('self', 'a=(1, 2)', 'b={}'),
        ('a', 'b=LAM', 'c=LAM'),
        ('a=STR', 'b=2'),
        ('a', 'b: "B"=[1,\n 2]'),
    )))
    self.group = {'n': 0, 'solo': sum(1 for x in items if 'LAM' in x) == 1}
    out = ''
    multiline = self.pct(45)
    for j, it in enumerate(items):
      if 'LAM' in it:
        it = it.replace('LAM', self.lam(ind, True, True))
      elif 'STR' in it:
        it = it.replace('STR', self.strlit(True))
      if j == 0 and multiline and self.pct(50):
        out += '\n' + ci
      out += it
      if j < len(items) - 1:
        out += ','
        if multiline and self.pct(70):
          if self.pct(25):
            out += '  ' + self.comment()
          out += '\n' + ci
        elif self.pct(6):
          out += ' \\\n' + ci
        else:
          out += ' '
      elif multiline and self.pct(40):
        out += (',' if it[0] not in '*/' and not it.startswith('**') and self.pct(50) else '') + '\n' + self.cont(ind)
    return out

  def fdef(self, ind, safe, depth, in_class=False):
    self.left -= 1
    self.nf += 1
    name = 'f%d' % self.nf
    self.meta['gen:def'] += 1
    toplevel = (ind == '')
    if self.pct(40):
      for _ in range(self.i(1, 2)):
        self.decorator(ind, safe, toplevel, in_class)
    ci = self.cont(ind)
    is_async = self.pct(8)
    kw = 'async def' if is_async else 'def'
    h = kw + (' ' if self.pct(92) else ' \\\n' + ci) + name
    if self.pct(5):
      h += '[T]'
    h += ('(' if self.pct(95) else ' (') + self.params(ind, safe) + ')'
    if self.pct(15):
      h += self.pick((' -> int', ' -> "R"', ' -> \\\n' + ci + 'int', '->None'))
    h += ':' if self.pct(92) else ' :'
    if self.pct(12):
      self.emit_stmt(ind, h + ' ' + self.pick(('return 1', 'pass', 'x = 1; return x', 'return "s"  ', '"""doc"""')))
      return
    self.emit_stmt(ind, h)
    ind2 = self.child(ind)
    if self.pct(25):
      # docstring
      self.comment_lines(ind2, 10)
      self.emit_stmt(ind2, self.strlit(True))
    sv, self.cur_async = self.cur_async, is_async
    self.block(ind2, False, depth + 1)
    self.cur_async = sv

  # -- module
  def module(self):
    L = self.lines
    if self.pct(20):
      if self.pct(50):
        L.append('# leading comment')
      L.append('from __future__ import annotations')
      self.meta['gen:future_annotations'] += 1
    L.extend(PRELUDE.split('\n'))
    n = self.i(2, 5)
    for k in range(n):
      self.comment_lines('', 20)
      r = self.i(0, 99)
      if r < 45 or (k == n - 1 and r < 70):
        self.fdef('', True, 0)
      elif r < 75:
        self.compound('', True, 0)
      else:
        self.simple('', True)
    e = self.i(0, 9)
    text = '\n'.join(L)
    if e < 5:
      text += '\n'
    elif e < 7:
      text += '\n\n  \n'
    elif e < 8:
      text += '\n' + self.comment()
    elif e < 9:
      text += '\n    ' + self.comment() + '\n'
    return text


PRELUDE = '''import functools
def ident(f): return f
def dargs(*a, **k):
  def d(f): return f
  return d
def wr1(f):
  @functools.wraps(f)
  def wr1_inner(*args, **kwargs):
    # the wrapper adds behaviour of its own
    return 2 * f(*args, **kwargs)
  return wr1_inner
def wr2(f):
    def wr2_inner(*args):
        """wrapper
      docstring"""
        return f(*args)
    return functools.update_wrapper(wr2_inner, f)
def wr3(f):
  @functools.wraps(f, assigned=('__module__', '__doc__'))
  def wr3_inner(*args, **kwargs):
    return f(*args, **kwargs)
  return wr3_inner
def keep(*a, **k): return (a, k)
def xy(x, y): return x
def xk(x, *, k): return x
def xpos(x, /, y): return x
upd = functools.update_wrapper
class CM(object):
  def __enter__(self): return self
  def __exit__(self, *a): return False'''


@st.composite
def modules(draw, cfg):
  g = G(draw, cfg)
  src = g.module()
  mode = 'zip' if draw(st.integers(0, 99)) < 6 else 'file'
  xwrap = draw(st.integers(0, 99)) < 25
  # attributes given to the lambda objects after their creation (what a decorator applied to the
  # lambda at run time would do); see _decorate_lambda
  k = draw(st.integers(0, 99))
  lwrap = None if k < 64 else LWRAP_MODES[(k - 64) % len(LWRAP_MODES)]
  if lwrap == 'signature' and 'no_lambda___signature___attribute' in g.excl:
    g.meta['excluded:no_lambda___signature___attribute'] += 1
    lwrap = 'attr'
  lpick = draw(st.integers(0, 7))
  history = None
  if mode == 'file' and draw(st.integers(0, 99)) < HISTORY_PCT:
    src, history = _draw_history(g, src, cfg)
  return {'src': src, 'mode': mode, 'xwrap': xwrap, 'lwrap': lwrap, 'lpick': lpick, 'history': history, 'meta': dict(g.meta)}


# ------------------------------------------------------------------------------------------------
# history: the file of a module is rewritten with different text and the module is reloaded

HISTORY_PCT = 16
_TAG_RE = re.compile(r'(?<![\w.])(\d{4,})(?![\w.])')
TOUCHES = (('parse', 60), ('linecache', 25), ('none', 15))


def derive_version(src, retag, lead):
  """Another version of a module text: every lambda tag shifted by `retag` (same size, same line
  numbers, other constants) and `lead` lines put in front (other size, every line moved down)."""
  if retag:
    src = _TAG_RE.sub(lambda m: str(int(m.group(1)) + retag) if int(m.group(1)) > 1000 else m.group(1), src)
  return ''.join(l + '\n' for l in lead) + src


def _draw_history(g, src, cfg):
  """Draws the earlier versions of the file (and which text is the last one).  Returns (text of the
  last version, history record).  Versions are derived from one generated text (tags shifted and/or
  lines inserted in front, so that stale source lines hold a different lambda at the line of every
  lambda) or, for a share of the earlier versions, are an unrelated generated module."""
  nver = 2 if g.pct(80) else 3
  last = g.i(0, nver - 1)          # which version is the generated text itself
  texts, kinds, used = [], [], set()
  for v in range(nver):
    if v == last:
      t, kind = (0, ()), 'generated'
    elif v < nver - 1 and g.pct(15):
      g2 = G(g.draw, dict(cfg, stmts=8))
      g2.tag = 4000 + 1000 * v
      texts.append(g2.module())
      kinds.append('unrelated')
      continue
    else:
      retag = g.pick((0, 2000 * (v + 1), 2000 * (v + 1)))
      nlead = g.i(0 if retag else 1, 3)
      lead = tuple(g.pick(('', '', g.comment())) for _ in range(nlead))
      t, kind = (retag, lead), 'derived:' + '+'.join(x for x in ('retag' if retag else '', 'shift' if lead else '') if x)
    while (t[0], len(t[1])) in used:
      t = (t[0], t[1] + ('',))
      kind = 'derived:' + '+'.join(x for x in ('retag' if t[0] else '', 'shift') if x)
    used.add((t[0], len(t[1])))
    texts.append(derive_version(src, *t))
    kinds.append(kind)
  prev = [{'src': x, 'touch': g.wpick(TOUCHES)} for x in texts[:-1]]
  hist = {'prev': prev, 'how': g.pick(('reload', 'reload', 'reimport')), 'stamp': g.pick(('mtime', 'size', 'both'))}
  g.meta['gen:history:modules'] += 1
  for k in kinds[:-1]:
    g.meta['gen:history:earlier_version=' + k] += 1
  g.meta['gen:history:last_version=' + kinds[-1]] += 1
  return texts[-1], hist


# ================================================================================================
# loading

XMOD_SRC = 'def xfunc(x):\n  """defined in the other module"""\n  return x - 1000\n'
_counter = [0]


def _load(case):
  """Imports the generated module the way production code would be (real file or zip archive).
  Returns (module, other module, path)."""
  _counter[0] += 1
  base = 'vfc15_%d_%d' % (os.getpid(), _counter[0])
  d = tempfile.gettempdir()
  if case.get('mode') == 'zip':
    zpath = os.path.join(d, base + '.zip')
    with zipfile.ZipFile(zpath, 'w') as z:
      z.writestr(base + 'a.py', case['src'])
      z.writestr(base + 'b.py', XMOD_SRC)
    imp = zipimport.zipimporter(zpath)
    mods = []
    for name in (base + 'b', base + 'a'):
      spec = imp.find_spec(name)
      m = importlib.util.module_from_spec(spec)
      sys.modules[name] = m
      try:
        spec.loader.exec_module(m)
      except BaseException:
        sys.modules.pop(name, None)
        raise
      mods.append(m)
    return mods[1], mods[0], mods[1].__file__
  other = harness.load_module(XMOD_SRC, name=base + 'b')
  m = harness.load_module(case['src'], name=base + 'a')
  return m, other, m.__file__


# ================================================================================================
# oracle


def _codes(code, out):
  for c in code.co_consts:
    if isinstance(c, types.CodeType):
      out.append(c)
      _codes(c, out)
  return out


def _flat_ints(consts, out):
  for c in consts:
    if isinstance(c, bool):
      continue
    if isinstance(c, int):
      out.append(c)
    elif isinstance(c, (tuple, frozenset)):
      _flat_ints(c, out)
  return out


def _code_key(code):
  """Identity of a lambda code object: its own tag, else ('o', key of the lambda it returns)."""
  tags = [c for c in _flat_ints(code.co_consts, []) if c > 1000]
  if len(tags) == 1:
    return tags[0]
  if not tags:
    inner = [c for c in code.co_consts if isinstance(c, types.CodeType) and c.co_name == '<lambda>']
    if inner:
      # a directly returned lambda is created last (after the lambdas among its own defaults)
      k = _code_key(inner[-1])
      if k is not None:
        return ('o', k)
  return None


def _own_consts(node, out):
  """Integer constants of a lambda body that are evaluated in the lambda's own code."""
  if isinstance(node, ast.Lambda):
    # defaults of a nested lambda are evaluated by the enclosing code, its body is not
    for d in list(node.args.defaults) + [d for d in node.args.kw_defaults if d is not None]:
      _own_consts(d, out)
    return out
  if isinstance(node, ast.Constant) and isinstance(node.value, int) and not isinstance(node.value, bool):
    out.append(node.value)
  for ch in ast.iter_child_nodes(node):
    _own_consts(ch, out)
  return out


def _node_key(lam):
  tags = [c for c in _own_consts(lam.body, []) if c > 1000]
  if len(tags) == 1:
    return tags[0]
  if not tags and isinstance(lam.body, ast.Lambda):
    k = _node_key(lam.body)
    if k is not None:
      return ('o', k)
  return None


def _span(node):
  lo, hi = node.lineno, node.end_lineno
  return lo, hi


def _argnames(a):
  return (tuple(x.arg for x in a.posonlyargs + a.args), a.vararg.arg if a.vararg else None,
          tuple(x.arg for x in a.kwonlyargs), a.kwarg.arg if a.kwarg else None)


class Ref(object):
  """Independent view of the file: whole-file AST, definitions by name, lambdas by tag."""

  def __init__(self, src):
    self.src = src
    self.lines = src.split('\n')
    self.tree = ast.parse(src)
    self.defs = collections.defaultdict(list)
    self.lams = collections.defaultdict(list)
    self.all_lams = []
    for n in ast.walk(self.tree):
      if isinstance(n, (ast.FunctionDef, ast.AsyncFunctionDef)):
        self.defs[n.name].append(n)
      elif isinstance(n, ast.Lambda):
        self.all_lams.append(n)
        self.lams[repr(_node_key(n))].append(n)
    self._tok = None

  def first_line(self, d):
    return min([d.lineno] + [x.lineno for x in d.decorator_list])

  def tokinfo(self):
    """row -> set of kinds among {'comment', 'mlstring', 'cont'} from tokenising the file."""
    if self._tok is not None:
      return self._tok
    info = collections.defaultdict(set)
    covered = collections.defaultdict(list)  # row -> [(c0, c1)] of string/comment text
    try:
      toks = list(tokenize.generate_tokens(io.StringIO(self.src).readline))
    except (tokenize.TokenError, SyntaxError, IndentationError):
      toks = []
    fstart = None
    fstack = []   # open f-strings: [start row, raw, contains a nested f-string]
    fouter = []   # closed outermost f-strings: (start row, end row, raw, nested)
    for t in toks:
      (r0, c0), (r1, c1) = t.start, t.end
      if t.type == getattr(tokenize, 'FSTRING_START', -1):
        if fstack:
          for f in fstack:
            f[2] = True
        fstack.append([r0, 'r' in t.string.rstrip('"\'').lower(), False])
        if len(fstack) > 1:
          continue  # the rows of a nested f-string belong to the outermost one
      elif t.type == getattr(tokenize, 'FSTRING_END', -1) and fstack:
        f = fstack.pop()
        if fstack:
          continue
        fouter.append((f[0], r1, f[1], f[2]))
      if t.type == tokenize.COMMENT:
        info[r0].add('comment')
        covered[r0].append((c0, c1))
      elif t.type == tokenize.STRING or t.type == getattr(tokenize, 'FSTRING_MIDDLE', -1):
        if r1 > r0:
          for r in range(r0, r1 + 1):
            info[r].add('mlstring')
        for r in range(r0, r1 + 1):
          covered[r].append((c0 if r == r0 else 0, c1 if r == r1 else 10 ** 9))
      elif t.type == getattr(tokenize, 'FSTRING_START', -1):
        fstart = r0
      elif t.type == getattr(tokenize, 'FSTRING_END', -1):
        if fstart is not None and r1 > fstart:
          for r in range(fstart, r1 + 1):
            info[r].add('mlstring')
        fstart = None
    for r, line in enumerate(self.lines, 1):
      if line.endswith('\\'):
        c = len(line) - 1
        if not any(a <= c < b for a, b in covered.get(r, ())):
          info[r].add('cont')
    # f-strings that contain another f-string; rows of such a literal that end in a backslash which
    # is content of the literal (raw literal, or the second half of an escaped backslash)
    for lo, hi, raw, nested in fouter:
      if not nested:
        continue
      for r in range(lo, hi + 1):
        info[r].add('fnested')
      for r in range(lo, hi):
        line = self.lines[r - 1]
        run = len(line) - len(line.rstrip('\\'))
        if run and 'cont' not in info[r] and (raw or run % 2 == 0):
          info[r].add('fnested_bs')
    self._tok = info
    return info

  def def_features(self, d):
    lo, hi = self.first_line(d), d.end_lineno
    info = self.tokinfo()
    kinds = set()
    for r in range(lo, hi + 1):
      kinds |= info.get(r, set())
    feats = set()
    if 'cont' in kinds:
      feats.add('continuation')
    if 'mlstring' in kinds:
      feats.add('multiline_string')
    if 'comment' in kinds:
      feats.add('comment')
    if 'fnested' in kinds:
      feats.add('fstring_nested')
      if hi > lo and any('fnested' in info.get(r, ()) and 'mlstring' in info.get(r, ()) for r in range(lo, hi + 1)):
        feats.add('fstring_nested+multiline')
    if 'fnested_bs' in kinds:
      feats.add('fstring_nested+content_backslash_eol')
    if d.col_offset > 0:
      feats.add('nested')
    body0 = d.body[0]
    if body0.lineno > d.lineno:
      l0 = self.lines[d.lineno - 1]
      lb = self.lines[body0.lineno - 1]
      i0 = l0[:len(l0) - len(l0.lstrip())]
      ib = lb[:len(lb) - len(lb.lstrip())]
      if d.col_offset == len(i0) and ib.startswith(i0):
        unit = ib[len(i0):]
        if unit != '    ':
          feats.add('nondefault_indent')
        if '\t' in ib:
          feats.add('tabs')
    else:
      feats.add('oneline_body')
    if d.decorator_list:
      feats.add('decorated')
    if d.end_lineno > d.lineno and d.body[0].lineno > d.lineno + 0 and self._sig_lines(d) > 1:
      feats.add('multiline_signature')
    if hi >= len(self.lines) - (1 if self.lines[-1] == '' else 0):
      feats.add('last_in_file')
    if isinstance(d, ast.AsyncFunctionDef):
      feats.add('async')
    return feats

  def _sig_lines(self, d):
    first = d.lineno
    last = d.body[0].lineno - 1 if d.body[0].lineno > d.lineno else d.lineno
    # the header ends at the ':' before the body; approximate by the args/returns extent
    ends = [first]
    for a in ast.walk(d.args):
      if hasattr(a, 'end_lineno'):
        ends.append(a.end_lineno)
    if d.returns is not None:
      ends.append(d.returns.end_lineno)
    return min(max(ends), last) - first + 1 if max(ends) > first else 1


_NT_FEATS = ('continuation', 'multiline_string', 'comment', 'nondefault_indent', 'nested')


def _diff_kind(got, want):
  """Coarse classification of a tree difference (part of the bucket)."""
  if type(got) is not type(want):
    return 'node-type'
  if getattr(got, 'name', None) != getattr(want, 'name', None):
    return 'wrong-definition'
  gs = [type(n).__name__ for n in ast.walk(got) if isinstance(n, ast.stmt)]
  ws = [type(n).__name__ for n in ast.walk(want) if isinstance(n, ast.stmt)]
  if gs != ws:
    return 'statements'
  gc = [n.value for n in ast.walk(got) if isinstance(n, ast.Constant)]
  wc = [n.value for n in ast.walk(want) if isinstance(n, ast.Constant)]
  if gc != wc:
    return 'string-content' if any(isinstance(v, (str, bytes)) for v in wc + gc) else 'constants'
  return 'other'


def _short(s, n=400):
  s = s if isinstance(s, str) else repr(s)
  return s if len(s) <= n else s[:n] + '...'


def _unparse(n):
  try:
    return ast.unparse(n)
  except Exception as e:  # pylint:disable=broad-except
    return '<unparse failed: %r>' % (e,)


def check_def(ref, fn, label, fails, zipmode=False):
  """Oracle for one function object. Returns (features, key) or None when not applicable."""
  code = fn.__code__
  cands = ref.defs.get(code.co_name, [])
  if len(cands) != 1:
    return None
  want = cands[0]
  if ref.first_line(want) != code.co_firstlineno:
    return None
  feats = ref.def_features(want)
  lo, hi = ref.first_line(want), want.end_lineno
  key = common.h8(['def', ref.lines[lo - 1:hi]])
  tgt = {'target': label, 'name': code.co_name, 'line': code.co_firstlineno}
  try:
    ff = inspect_utils.getfutureimports(fn)
    got, source = parser.parse_entity(fn, future_features=ff)
  except Exception as e:  # pylint:disable=broad-except
    fails.append(('def:exc:' + harness.exc_bucket(e), dict(tgt, exc=_short(repr(e)))))
    return feats, key
  wd = ast.dump(want)
  if not isinstance(got, ast.AST) or ast.dump(got) != wd:
    kind = _diff_kind(got, want) if isinstance(got, ast.AST) else 'node-type'
    fails.append(('def:tree-differs:' + kind,
                  dict(tgt, recovered=_short(_unparse(got), 700), expected=_short(_unparse(want), 700))))
    return feats, key
  try:
    body = ast.parse(source).body
    ok = len(body) == 1 + len(ff) and ast.dump(body[-1]) == wd
  except SyntaxError:
    ok = False
  if not ok:
    fails.append(('def:source-text', dict(tgt, source=_short(source, 700))))
  return feats, key


def _rstrip_strings(node):
  """Copy of the tree in which every line of a str/bytes constant has lost its trailing blanks
  (the source text returned for a lambda is right-stripped line by line)."""
  import copy
  node = copy.deepcopy(node)
  for n in ast.walk(node):
    if isinstance(n, ast.Constant) and isinstance(n.value, str):
      n.value = '\n'.join(l.rstrip() for l in n.value.split('\n'))
    elif isinstance(n, ast.Constant) and isinstance(n.value, bytes):
      n.value = b'\n'.join(l.rstrip() for l in n.value.split(b'\n'))
  return node


def _lambda_site(ref, code):
  """(key, node that created the code object, lambdas spanning its first line) or None."""
  k = _code_key(code)
  cands = ref.lams.get(repr(k), []) if k is not None else []
  if len(cands) != 1 or cands[0].lineno != code.co_firstlineno:
    return None
  line = code.co_firstlineno
  return k, cands[0], [n for n in ref.all_lams if n.lineno <= line <= n.end_lineno]


def _code_argnames(code):
  """Parameter names of a code object in the layout of _argnames."""
  n, kw, names = code.co_argcount, code.co_kwonlyargcount, code.co_varnames
  i = n + kw
  va = vk = None
  if code.co_flags & 0x04:
    va, i = names[i], i + 1
  if code.co_flags & 0x08:
    vk = names[i]
  return (tuple(names[:n]), va, tuple(names[n:n + kw]), vk)


def _sigkey(a):
  return _argnames(a), len(a.posonlyargs)


def _kinds(a):
  """name -> parameter kind of an ast.arguments."""
  out = {}
  for x in a.posonlyargs:
    out[x.arg] = 'po'
  for x in a.args:
    out[x.arg] = 'p'
  if a.vararg:
    out[a.vararg.arg] = 'va'
  for x in a.kwonlyargs:
    out[x.arg] = 'ko'
  if a.kwarg:
    out[a.kwarg.arg] = 'vk'
  return out


def _kind_seq(a):
  return (len(a.posonlyargs), len(a.args), a.vararg is not None, len(a.kwonlyargs), a.kwarg is not None)


def _sibling_signature_feats(want, sharing, feats):
  """How the signatures of the other lambdas spanning the line relate to the one under test."""
  mine = _kinds(want.args)
  if not mine:
    return
  for n in sharing:
    if n is want or _sigkey(n.args) == _sigkey(want.args):
      continue
    theirs = _kinds(n.args)
    if set(theirs) == set(mine):
      # equal name sets, another assignment of names to parameter kinds (or another order)
      feats.add('sibling_same_names_roles_permuted')
      moved = sorted(set('<->'.join(sorted((mine[k], theirs[k]))) for k in mine if mine[k] != theirs[k]))
      for mv in moved:
        feats.add('sibling_role_swap=' + mv)
      if not moved:
        feats.add('sibling_role_swap=order_only')
      if _kind_seq(n.args) == _kind_seq(want.args):
        feats.add('sibling_same_names_same_kind_counts')
    elif _kind_seq(n.args) == _kind_seq(want.args):
      feats.add('sibling_same_kinds_other_names')


def _mid(*args, **kwargs):
  return None


def _decorate_lambda(case, ref, fn, codemap, glob):
  """Gives a lambda object the attributes a decorator applied at run time would give it, pointing
  at a callable that has the signature of ANOTHER lambda of the same line (drawn by case['lpick']).
  Returns the decoration applied (a label) or None.  The callable is always a fresh function made
  from the sibling's code object, so no __wrapped__ cycles arise."""
  mode = case.get('lwrap')
  if not mode or getattr(fn, '__wrapped__', None) is not None:
    return None
  site = _lambda_site(ref, fn.__code__)
  if site is None:
    return None
  _, want, sharing = site
  mine = _sigkey(want.args)
  others = [n for n in sharing if n is not want and _sigkey(n.args) != mine and repr(_node_key(n)) in codemap]
  if not others:
    return None
  others.sort(key=lambda n: (n.lineno, n.col_offset))
  code = codemap[repr(_node_key(others[case.get('lpick', 0) % len(others)]))]
  target = types.FunctionType(code, glob, '<lambda>', None, tuple(types.CellType(0) for _ in code.co_freevars))
  if mode == 'update_wrapper':
    functools.update_wrapper(fn, target)
  elif mode == 'attr':
    fn.__wrapped__ = target
  elif mode == 'chain':
    mid = types.FunctionType(_mid.__code__, glob, 'mid')
    mid.__wrapped__ = target
    fn.__wrapped__ = mid
  elif mode == 'signature':
    fn.__signature__ = inspect.signature(target)
  else:
    raise ValueError('unknown lwrap mode %r' % (mode,))
  return 'harness:' + mode


def check_lambda(ref, fn, label, fails, deco=None):
  code = fn.__code__
  site = _lambda_site(ref, code)
  if site is None:
    return None
  k, want, sharing = site
  line = code.co_firstlineno
  lo = min(n.lineno for n in sharing)
  hi = max(n.end_lineno for n in sharing)
  key = common.h8(['lambda', repr(k), ref.lines[lo - 1:hi]])
  names = _argnames(want.args)
  twins = [n for n in sharing if n is not want and _argnames(n.args) == names]
  feats = set()
  if len(sharing) >= 2:
    feats.add('shares_line')
  if twins:
    feats.add('twin_signature_on_line')
  if want.end_lineno > want.lineno:
    feats.add('multiline')
  if want.body.lineno > want.lineno:
    feats.add('body_starts_later')
  if any(isinstance(n, ast.Lambda) for n in ast.walk(want.body)):
    feats.add('contains_lambda')
  if any(n is not want and n.lineno <= want.lineno and n.end_lineno >= want.end_lineno and
         any(m is want for m in ast.walk(n)) for n in ref.all_lams):
    feats.add('nested_in_lambda')
  if want.args.posonlyargs:
    feats.add('posonly')
  if want.args.vararg is not None and want.args.kwonlyargs:
    feats.add('varargs+kwonly')
  _sibling_signature_feats(want, sharing, feats)
  if want.col_offset and ref.lines[line - 1][:1] in (' ', '\t'):
    feats.add('indented_line')
  feats.add('nlambdas_on_line=%d' % min(len(sharing), 4))
  w = getattr(fn, '__wrapped__', None)
  if w is not None:
    feats.add('object_has___wrapped__')
    feats.add('decorated_via=' + (deco or 'source'))
    hops = 0
    while getattr(w, '__wrapped__', None) is not None and hops < 8:
      w, hops = w.__wrapped__, hops + 1
    wc = getattr(w, '__code__', None)
    if wc is not None:
      wn = _code_argnames(wc)
      if wn != names and any(n is not want and _argnames(n.args) == wn for n in sharing):
        # the shape in which following __wrapped__ would select another lambda of the line
        feats.add('wrapped_signature_on_line')
        feats.add('wrapped_signature_on_line:via=' + ('harness' if deco else 'source'))
  elif getattr(fn, '__signature__', None) is not None:
    feats.add('object_has___signature__')
    feats.add('decorated_via=' + (deco or 'source'))
  tgt = {'target': label, 'tag': repr(k), 'line': line}
  try:
    got, source = parser.parse_entity(fn, future_features=())
  except errors.UnsupportedLanguageElementError as e:
    # the explicit rejection the property allows; measured, never a failure
    feats.add('outcome=unsupported')
    if not twins:
      feats.add('unsupported_without_twin:' + ('no-candidate' if 'no matching AST' in str(e) else 'not-narrowed'))
    return feats, key
  except Exception as e:  # pylint:disable=broad-except
    fails.append(('lambda:exc:' + harness.exc_bucket(e), dict(tgt, exc=_short(repr(e)))))
    return feats, key
  feats.add('outcome=recovered')
  wd = ast.dump(want)
  if not isinstance(got, ast.AST) or ast.dump(got) != wd:
    other = isinstance(got, ast.Lambda) and any(ast.dump(n) == ast.dump(got) for n in ref.all_lams)
    fails.append(('lambda:wrong-node:' + ('other-lambda' if other else 'altered'),
                  dict(tgt, recovered=_short(_unparse(got)), expected=_short(_unparse(want)))))
    return feats, key
  # the accompanying source text: asserted where the parser's line/column slicing is meaningful
  # (boundary lines in ASCII, calibration) and modulo trailing blanks inside string literals
  if ref.lines[want.lineno - 1].isascii() and ref.lines[want.end_lineno - 1].isascii():
    try:
      e = ast.parse('(' + source + '\n)', mode='eval').body
      ok = ast.dump(_rstrip_strings(e)) == ast.dump(_rstrip_strings(want))
    except (SyntaxError, ValueError):
      ok = False
    if not ok:
      fails.append(('lambda:source-text', dict(tgt, source=_short(source), expected=_short(_unparse(want)))))
  else:
    feats.add('source_clause_skipped_nonascii')
  return feats, key


def _real_functions(mod, path):
  """Function objects created by importing the module that live in `path`, with a label."""
  out, seen = [], set()
  work = []

  def push(v, label, depth=0):
    if depth > 4:
      return
    if isinstance(v, (staticmethod, classmethod)):
      v = v.__func__
    if isinstance(v, property):
      for a in (v.fget, v.fset, v.fdel):
        if a is not None:
          push(a, label + '.prop', depth)
      return
    if isinstance(v, types.FunctionType):
      if id(v) in seen:
        return
      seen.add(id(v))
      if v.__code__.co_filename == path:
        out.append((v, label))
      w = getattr(v, '__wrapped__', None)
      if w is not None:
        push(w, label + '.__wrapped__', depth + 1)
      for dflt in (v.__defaults__ or ()):
        push(dflt, label + '.default', depth + 1)
      for dflt in (v.__kwdefaults__ or {}).values():
        push(dflt, label + '.kwdefault', depth + 1)
      for cell in (v.__closure__ or ()):
        try:
          push(cell.cell_contents, label + '.cell', depth + 1)
        except ValueError:
          pass
    elif isinstance(v, (list, tuple)):
      for j, x in enumerate(v):
        push(x, '%s[%d]' % (label, j), depth + 1)
    elif isinstance(v, dict):
      for kk, x in v.items():
        push(x, '%s[%r]' % (label, kk), depth + 1)
    elif isinstance(v, type) and getattr(v, '__module__', None) == mod.__name__:
      if id(v) in seen:
        return
      seen.add(id(v))
      for kk, x in list(vars(v).items()):
        if not kk.startswith('__') or kk in ('__enter__', '__exit__'):
          push(x, label + '.' + kk, depth + 1)

  for name, v in list(vars(mod).items()):
    if name.startswith('__'):
      continue
    push(v, name)
  return out


_PRELUDE_SKIP = frozenset(('ident', 'dargs', 'd', 'wr1', 'wr2', 'wr3', '__enter__', '__exit__', 'xy', 'xk', 'xpos'))


def _unload(mods, path):
  for m in mods:
    sys.modules.pop(m.__name__, None)
    f = getattr(m, '__file__', None)
    if f:
      linecache.cache.pop(f, None)
      if os.path.isfile(f):
        try:
          os.unlink(f)
        except OSError:
          pass
  z = path.rsplit('.zip', 1)[0] + '.zip' if '.zip' + os.sep in path else None
  if z:
    zipimport._zip_directory_cache.pop(z, None)  # pylint:disable=protected-access
    sys.path_importer_cache.pop(z, None)
    try:
      os.unlink(z)
    except OSError:
      pass


def _write_version(path, text, mtime):
  with open(path, 'w') as f:
    f.write(text)
  os.utime(path, (mtime, mtime))


def _import_version(name, path, mod, how):
  """First import (mod is None), importlib.reload of the module object, or a fresh import after the
  module was dropped from sys.modules.  linecache is deliberately left alone."""
  if mod is not None and how == 'reload':
    d = os.path.dirname(path)
    sys.path.insert(0, d)
    try:
      importlib.invalidate_caches()
      return importlib.reload(mod)
    finally:
      sys.path.remove(d)
      sys.path_importer_cache.pop(d, None)
  sys.modules.pop(name, None)
  spec = importlib.util.spec_from_file_location(name, path)
  m = importlib.util.module_from_spec(spec)
  sys.modules[name] = m
  try:
    spec.loader.exec_module(m)
  except BaseException:
    sys.modules.pop(name, None)
    raise
  return m


def _run_history(case, ref, fails, stats, info):
  """The file is written, imported, (objects resolved), rewritten with the next version's text under
  the same path - visibly for linecache.checkcache: other size and/or other mtime, set with
  os.utime - and reloaded; the objects of the LAST version are checked with the ordinary oracle,
  each one in the state right after the reload (stale cached lines of the previous version
  re-installed before every object, as if it were the first one resolved)."""
  hist = case['history']
  _counter[0] += 1
  base = 'vfc15_%d_%dh' % (os.getpid(), _counter[0])
  name = base + 'a'
  path = os.path.join(tempfile.gettempdir(), name + '.py')
  other = harness.load_module(XMOD_SRC, name=base + 'b')
  mods, keep, mod = [other], [], None
  versions = list(hist['prev']) + [{'src': case['src'], 'touch': None}]
  mtime, size, stamps = 1600000000, None, set()
  info['history'] = {'touch': [v['touch'] for v in hist['prev']]}
  try:
    for i, v in enumerate(versions):
      nsize = len(v['src'].encode('utf-8'))
      # 'size': the mtime is kept as long as the (size, mtime) pair differs from that of every
      # earlier version (any of them may still be the one in linecache); otherwise - and for the
      # other stamps always - the file gets a later mtime
      if i and (hist.get('stamp') != 'size' or (nsize, mtime) in stamps):
        mtime += 1000 * i
      stamps.add((nsize, mtime))
      if i and hist.get('stamp') == 'mtime' and nsize != size:
        info['history']['size_differs_too'] = True
      size = nsize
      _write_version(path, v['src'], mtime)
      try:
        mod = _import_version(name, path, mod, hist.get('how', 'reload'))
      except Exception as e:  # pylint:disable=broad-except
        info['slip'] = 'history import (version %d): %r' % (i, e)
        return
      if mod not in mods:
        mods.append(mod)
      if i == len(versions) - 1:
        break
      earlier = set(id(f) for f in keep)
      keep.extend(fn for fn, _ in _real_functions(mod, path))
      if v['touch'] == 'parse':
        try:
          ref_i = Ref(v['src'])
        except SyntaxError as e:
          info['slip'] = 'history syntax (version %d): %r' % (i, e)
          return
        fl, stl = [], []
        _run_loaded({'src': v['src'], 'mode': 'file'}, ref_i, mod, other, path, fl, stl, info, skip_ids=earlier)
        if info['slip']:
          return
        for rec in stl:
          rec['old_version'] = True
        stats.extend(stl)
        fails.extend((b, dict(d, version=i)) for b, d in fl)
      elif v['touch'] == 'linecache':
        linecache.getlines(path, vars(mod))
    snapshot = linecache.cache.get(path)
    info['history']['stale_lines_cached'] = snapshot is not None and len(snapshot) == 4
    _run_loaded(case, ref, mod, other, path, fails, stats, info, skip_ids=set(id(f) for f in keep),
                linecache_entry=(snapshot,))
  finally:
    _unload(mods, path)
    del keep[:]


def run_case(case):
  """Executes the oracle on every function/lambda object of the module.

  Returns (fails, stats, info): fails = [(bucket, detail)], stats = per-object records."""
  fails, stats = [], []
  src = case['src']
  info = {'slip': None}
  try:
    ref = Ref(src)
  except SyntaxError as e:
    info['slip'] = 'syntax: %r' % (e,)
    return fails, stats, info
  if case.get('history') and case.get('mode') != 'zip':
    _run_history(case, ref, fails, stats, info)
    return fails, stats, info
  try:
    mod, other, path = _load(case)
  except Exception as e:  # pylint:disable=broad-except
    info['slip'] = 'import: %r' % (e,)
    return fails, stats, info
  try:
    _run_loaded(case, ref, mod, other, path, fails, stats, info)
  finally:
    _unload((mod, other), path)
  return fails, stats, info


def _run_loaded(case, ref, mod, other, path, fails, stats, info, skip_ids=(), linecache_entry=None):
  src = case['src']
  zipmode = case.get('mode') == 'zip'
  objs, seen_code = [], set()
  for fn, label in _real_functions(mod, path):
    if fn.__code__.co_name in _PRELUDE_SKIP:
      continue
    if id(fn) in skip_ids:
      continue  # left in the module's namespace by an earlier version of the file (importlib.reload)
    # one object per code object (all wrappers made by one decorator share their code)
    if id(fn.__code__) not in seen_code:
      seen_code.add(id(fn.__code__))
      objs.append((fn, label))
  real_codes = set()
  for fn, _ in objs:
    real_codes.add((fn.__code__.co_name, fn.__code__.co_firstlineno, repr(_code_key(fn.__code__)) if fn.__code__.co_name == '<lambda>' else ''))
  # cross-module functools.update_wrapper: the object claims another module and carries __wrapped__
  if case.get('xwrap'):
    plain = [(fn, label) for fn, label in objs
             if fn.__code__.co_name != '<lambda>' and getattr(fn, '__wrapped__', None) is None and
             vars(mod).get(fn.__code__.co_name) is fn]
    gen = [x for x in plain if x[0].__code__.co_name[:1] == 'f' and x[0].__code__.co_name[1:].isdigit()]
    pickd = gen[:1]
    for fn, label in pickd:
      functools.update_wrapper(fn, other.xfunc)
      objs.remove((fn, label))
      objs.insert(0, (fn, label + '<xwrap>'))
  # definitions only reachable by running enclosing code: build them from the nested code objects
  try:
    top = compile(src, path, 'exec', dont_inherit=True)
  except SyntaxError as e:
    info['slip'] = 'compile: %r' % (e,)
    return
  for code in _codes(top, []):
    if code.co_name != '<lambda>' and (code.co_name not in ref.defs or code.co_name in _PRELUDE_SKIP or
                                       code.co_name in ('wr1_inner', 'wr2_inner', 'wr3_inner')):
      continue  # class bodies, type-parameter scopes, fixed helper definitions
    ck = (code.co_name, code.co_firstlineno, repr(_code_key(code)) if code.co_name == '<lambda>' else '')
    if ck in real_codes:
      continue
    real_codes.add(ck)
    cells = tuple(types.CellType(0) for _ in code.co_freevars)
    fn = types.FunctionType(code, vars(mod), code.co_name, None, cells)
    objs.append((fn, '<code>'))
  codemap = {}
  if case.get('lwrap'):
    dup = set()
    for code in _codes(top, []):
      if code.co_name == '<lambda>':
        ck = repr(_code_key(code))
        if ck in codemap:
          dup.add(ck)
        codemap[ck] = code
    for ck in dup:
      del codemap[ck]
    codemap.pop('None', None)
  for fn, label in objs:
    if zipmode:
      linecache.cache.pop(path, None)  # every object is looked up as if it were the first
    elif linecache_entry is not None:
      # ... the first after the rewrite and reload: the lines cached for the previous version are back
      if linecache_entry[0] is None:
        linecache.cache.pop(path, None)
      else:
        linecache.cache[path] = linecache_entry[0]
    fl = []
    islam = fn.__code__.co_name == '<lambda>'
    if islam:
      deco = _decorate_lambda(case, ref, fn, codemap, vars(mod)) if codemap else None
      r = check_lambda(ref, fn, label, fl, deco)
    else:
      r = check_def(ref, fn, label, fl, zipmode)
    if r is None:
      stats.append({'kind': 'lambda' if islam else 'def', 'ident_failed': True, 'label': label})
      continue
    feats, key = r
    rec = {'kind': 'lambda' if islam else 'def', 'feats': sorted(feats), 'key': key, 'label': label,
           'route': 'code' if label == '<code>' else 'real', 'wrapped': getattr(fn, '__wrapped__', None) is not None,
           'xwrap': label.endswith('<xwrap>'), 'failed': bool(fl), 'reloaded': linecache_entry is not None,
           'span': [ref.first_line(ref.defs[fn.__code__.co_name][0]), ref.defs[fn.__code__.co_name][0].end_lineno] if not islam else None}
    stats.append(rec)
    fails.extend(fl)


def _dedupe(fails):
  out, seen = [], set()
  for b, d in fails:
    if b not in seen:
      seen.add(b)
      out.append((b, d))
  return out


def shard(ctx, acc):
  cfg = {'excl': EXCL, 'max_depth': ctx.budget.get('max_depth', 3), 'stmts': ctx.budget.get('stmts', 22)}
  n = ctx.share('modules')

  def body(m):
    case = {'src': m['src'], 'mode': m['mode'], 'xwrap': m['xwrap'], 'lwrap': m['lwrap'], 'lpick': m['lpick']}
    if m.get('history'):
      case['history'] = m['history']
    fails, stats, info = run_case(case)
    acc.count('modules')
    acc.count('module_mode=' + m['mode'])
    if m.get('history'):
      h, hi = m['history'], info.get('history', {})
      acc.count('module_history')
      acc.count('module_history:how=' + h['how'])
      acc.count('module_history:stamp=' + h['stamp'] + ('+size' if hi.get('size_differs_too') else ''))
      acc.count('module_history:versions=%d' % (len(h['prev']) + 1))
      acc.count('module_history:resolved_before_rewrite=' + '+'.join(hi.get('touch', [])))
      if hi.get('stale_lines_cached'):
        acc.count('module_history:stale_lines_cached_when_rechecked')
    if m['lwrap']:
      acc.count('module_lambda_decoration=' + m['lwrap'])
    for k, v in m['meta'].items():
      acc.count(k, v)
    if info['slip']:
      acc.count('generator_slip')
      acc.notes.append(_short(info['slip'], 200))
      acc.case(key=common.h8(case['src']), nontrivial=False, classes=['generator_slip_case'])
      return
    for rec in stats:
      if rec.get('ident_failed'):
        acc.count('oracle_could_not_identify_object:' + rec['kind'])
        continue
      feats = rec['feats']
      if rec.get('old_version'):
        feats = feats + ['version_before_rewrite']
      elif rec.get('reloaded'):
        feats = feats + ['after_rewrite_and_' + m['history']['how']]
        if info.get('history', {}).get('stale_lines_cached'):
          feats = feats + ['after_rewrite:stale_lines_cached']
      if rec['kind'] == 'def':
        nt = sum(1 for f in _NT_FEATS if f in feats) >= 2
        cls = ['def'] + ['def:' + f for f in feats] + ['def:route=' + rec['route']]
        if rec['wrapped']:
          cls.append('def:object_has___wrapped__')
        if rec['xwrap']:
          cls.append('def:cross_module_update_wrapper')
        cls.append('def:nfeatures=%d' % sum(1 for f in _NT_FEATS if f in feats))
        if m['mode'] == 'zip':
          cls.append('def:source_from_zip_loader')
        sample = None
        size = 0
        if nt and rec['span']:
          lo, hi = rec['span']
          size = hi - lo
          if len(acc.samples) < acc.MAX_SAMPLES or size > (acc.biggest[0] if acc.biggest else 0):
            sample = {'kind': 'def', 'features': feats, 'text': '\n'.join(case['src'].split('\n')[lo - 1:hi])[:1500]}
        acc.case(key=rec['key'], nontrivial=nt, classes=cls, sample=sample, size=size)
      else:
        nt = 'shares_line' in feats and ('outcome=recovered' in feats or 'twin_signature_on_line' in feats)
        cls = ['lambda'] + ['lambda:' + f for f in feats] + ['lambda:route=' + rec['route']]
        acc.case(key=rec['key'], nontrivial=nt, classes=cls)
    for b, d in _dedupe(fails):
      acc.fail(b, case, d)

  common.hyp_run(ctx, modules(cfg), body, n)


def replay(case):
  fails, stats, info = run_case(case)
  if info['slip']:
    return []
  return [{'bucket': b, 'detail': d} for b, d in _dedupe(fails)]


def shrink(case, bucket, deadline):
  """Line-level ddmin: drop chunks of lines while the module still loads and the bucket persists."""
  def still(src):
    c = dict(case, src=src)
    try:
      return any(f['bucket'] == bucket for f in replay(c))
    except Exception:  # pylint:disable=broad-except
      return False

  lines = case['src'].split('\n')
  chunk = max(1, len(lines) // 2)
  while chunk >= 1 and time.time() < deadline:
    i, changed = 0, False
    while i < len(lines) and time.time() < deadline:
      cand = lines[:i] + lines[i + chunk:]
      if cand and still('\n'.join(cand)):
        lines, changed = cand, True
      else:
        i += chunk
    if not changed or chunk > 1:
      chunk //= 2
  out = dict(case, src='\n'.join(lines))
  if out.get('history') and time.time() < deadline:
    c2 = dict(out)
    del c2['history']
    if any(f['bucket'] == bucket for f in replay(c2)):
      out = c2
    else:
      h = out['history']
      for j in range(len(h['prev']) - 1, -1, -1):
        # fewer versions, then fewer lines in the remaining earlier versions
        if len(h['prev']) > 1:
          h2 = dict(h, prev=h['prev'][:j] + h['prev'][j + 1:])
          if any(f['bucket'] == bucket for f in replay(dict(out, history=h2))):
            h = h2
            out = dict(out, history=h)
            continue
        pl = h['prev'][j]['src'].split('\n')
        k = 0
        while k < len(pl) and time.time() < deadline:
          cand = pl[:k] + pl[k + 1:]
          h2 = dict(h, prev=h['prev'][:j] + [dict(h['prev'][j], src='\n'.join(cand))] + h['prev'][j + 1:])
          try:
            ok = bool(cand) and any(f['bucket'] == bucket for f in replay(dict(out, history=h2)))
          except Exception:  # pylint:disable=broad-except
            ok = False
          if ok:
            pl, h = cand, h2
            out = dict(out, history=h)
          else:
            k += 1
  if case.get('xwrap') and time.time() < deadline:
    c2 = dict(out, xwrap=False)
    if any(f['bucket'] == bucket for f in replay(c2)):
      out = c2
  if out.get('lwrap') and time.time() < deadline:
    c2 = dict(out, lwrap=None)
    if any(f['bucket'] == bucket for f in replay(c2)):
      out = c2
  if out.get('mode') == 'zip' and time.time() < deadline:
    c2 = dict(out, mode='file')
    if any(f['bucket'] == bucket for f in replay(c2)):
      out = c2
  return out
