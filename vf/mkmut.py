"""Dev tool: (re)generates mutants/<ID>/<name>.patch from the table in vf/mutants_table.py against
the current /repo tree.  python -m vf.mkmut [ID ...]"""
import difflib, os, sys
from vf.mutants_table import MUTANTS as _BASE
import glob, importlib
MUTANTS = dict(_BASE)
for _f in sorted(glob.glob(os.path.join(os.path.dirname(os.path.abspath(__file__)), 'mutants_c*.py'))):
  _m = importlib.import_module('vf.' + os.path.basename(_f)[:-3])
  for _k, _v in _m.MUTANTS.items():
    MUTANTS.setdefault(_k, [])
    MUTANTS[_k] = list(MUTANTS[_k]) + list(_v)
ROOT = os.path.dirname(os.path.dirname(os.path.abspath(__file__)))

def main(ids):
  for pid, lst in MUTANTS.items():
    if ids and pid not in ids:
      continue
    d = os.path.join(ROOT, 'mutants', pid)
    os.makedirs(d, exist_ok=True)
    for name, path, old, new in lst:
      src = open(os.path.join('/repo', path)).read()
      if src.count(old) != 1:
        print('SKIP %s/%s: pattern occurs %d times in %s' % (pid, name, src.count(old), path))
        continue
      mut = src.replace(old, new)
      diff = ''.join(difflib.unified_diff(src.splitlines(True), mut.splitlines(True), 'a/' + path, 'b/' + path))
      open(os.path.join(d, name + '.patch'), 'w').write(diff)
  return 0

if __name__ == '__main__':
  sys.exit(main(set(sys.argv[1:])))
