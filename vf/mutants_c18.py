"""Hand-written sensitivity mutants for C18 (DESIGN 4.18 must-kill list + extras): same format as
vf/mutants_table.py."""
_ANF = 'malt/pyct/common_transformers/anf.py'
MUTANTS = {
 'C18': [
  ('m1_pending_flushed_after_statement', _ANF,
   "    results = self._consume_pending_statements()\n    results.append(node)\n    return results",
   "    results = self._consume_pending_statements()\n    results.insert(0, node)\n    return results"),
  # 'visit node.body before hoisting node.test in visit_If' (DESIGN must-kill list) is an equivalent mutant: the body's
  # temporaries are flushed inside the body either way and the test's temporaries still land in front of the `if`; only
  # the numbering of the temporaries changes. The variant below moves the test's temporaries into the body instead.
  ('m2b_if_test_temporaries_land_in_body', _ANF,
   "    condition_stmts = self._consume_pending_statements()",
   "    condition_stmts = []\n    node.body[0:0] = self._consume_pending_statements()"),
  ('m3_nontrivial_boolop_accepted', _ANF,
   "'(need to preserve short-circuiting semantics).')\n    return self._visit_trivial_only_expression(node, msg)",
   "'(need to preserve short-circuiting semantics).')\n    return self._visit_strict_expression(node)"),
  ('m4_one_temp_name_reused', _ANF,
   "    return stem + '_' + str(1000 + self._idx)", "    return stem + '_' + str(1001)"),
  ('m5_nontrivial_ifexp_accepted', _ANF,
   "'and insert statements into them).')\n    return self._visit_trivial_only_expression(node, msg)",
   "'and insert statements into them).')\n    return self._visit_strict_expression(node)"),
  ('m6_with_items_not_named', _ANF,
   "    node.items = [self._ensure_node_in_anf(node, 'items', n)\n                  for n in node.items]",
   "    node.items = list(node.items)"),
  ('m7_for_iter_not_named', _ANF,
   "    node.iter = self._ensure_node_in_anf(node, 'iter', node.iter)", "    node.iter = node.iter"),
  ('m8_return_operand_not_named', _ANF,
   "  def visit_Return(self, node):\n    return self._visit_strict_statement(node)",
   "  def visit_Return(self, node):\n    return self._visit_strict_statement(node, children_ok_to_transform=False)"),
  ('m9_temp_names_collide_every_other', _ANF,
   "    return stem + '_' + str(1000 + self._idx)", "    return stem + '_' + str(1000 + self._idx - self._idx % 8 // 7)"),
  ('m10_last_matching_rule_governs', _ANF,
   "    for pat, result in self._overrides:", "    for pat, result in reversed(self._overrides):"),
  ('m11_multi_compare_accepted', _ANF,
   "    if len(node.ops) > 1:", "    if len(node.ops) > 2:"),
  ('m12_while_test_precomputed', _ANF,
   "    if self._pending_statements:\n      msg = ('While with nontrivial test not supported yet '\n             '(need to avoid precomputing the test).')\n      raise ValueError(msg)",
   "    if self._pending_statements:\n      test_stmts = self._consume_pending_statements()\n      node = self.generic_visit(node)\n      return test_stmts + [node]"),
  ('m13_keyword_values_not_named', _ANF,
   "      node.value = self._ensure_node_in_anf(parent, field, node.value)\n      return node", "      return node"),
  ('m14_starred_not_unwrapped', _ANF,
   "    if isinstance(node, (ast.Starred, ast.Slice)):", "    if isinstance(node, (ast.Slice,)):"),
  ('m15_pending_dropped_in_raise', _ANF,
   "  def visit_Raise(self, node):\n    return self._visit_strict_statement(node)",
   "  def visit_Raise(self, node):\n    r = self._visit_strict_statement(node)\n    return r[-1:] if len(r) > 3 else r"),
  ('m16_field_pattern_ignored', _ANF,
   "    if self.field is ANY or field == self.field:", "    if True:"),
  ('m17_hoists_reversed_within_statement', _ANF,
   "    ans = self._pending_statements\n    self._pending_statements = []\n    return ans",
   "    ans = self._pending_statements\n    self._pending_statements = []\n    return ans if len(ans) != 2 else ans[::-1]"),
  # positional None placeholders of list fields (Dict.keys of a ** entry) dropped while naming the fields of a node
  ('m18_none_entries_of_list_fields_dropped', _ANF,
   "      return [self._ensure_node_in_anf(parent, field, n) for n in node]",
   "      return [self._ensure_node_in_anf(parent, field, n) for n in node if n is not None]"),
  # the ** entries of a dict display are taken out of their position and appended after the key: value pairs
  ('m19_dict_unpack_entries_moved_last', _ANF,
   "  def visit_Dict(self, node):\n    return self._visit_strict_expression(node)",
   "  def visit_Dict(self, node):\n    node = self._visit_strict_expression(node)\n    kv = sorted(zip(node.keys, node.values), key=lambda p: p[0] is None)\n"
   "    node.keys = [k for k, _ in kv]\n    node.values = [v for _, v in kv]\n    return node"),
  # near-miss rules (round 3, seeded C18-E): the field slot compared by something weaker than string equality
  ('m20_field_matched_by_prefix', _ANF,
   "    if self.field is ANY or field == self.field:", "    if self.field is ANY or field.startswith(self.field):"),
  ('m21_field_matched_case_blind', _ANF,
   "    if self.field is ANY or field == self.field:", "    if self.field is ANY or field.lower() == self.field.lower():"),
  ('m22_rule_field_substring_of_edge_field', _ANF,
   "    if self.field is ANY or field == self.field:", "    if self.field is ANY or self.field in field:"),
  ('m23_edge_field_substring_of_rule_field_nonempty', _ANF,
   "    if self.field is ANY or field == self.field:", "    if self.field is ANY or (field in self.field and len(self.field) - len(field) < 2):"),
  # the type slots compared by something other than isinstance
  ('m24_parent_type_exact_not_isinstance', _ANF,
   "    if self.parent is ANY or isinstance(parent, self.parent):",
   "    if self.parent is ANY or type(parent) in (self.parent if isinstance(self.parent, tuple) else (self.parent,)):"),
  # (the opposite direction - a rule about List catching ListComp children - is not observable in the generated class:
  # comprehensions are rejected whatever the configuration says, and NamedExpr is not generated)
  ('m25_child_type_matched_by_name_prefix', _ANF,
   "    return self.child is ANY or isinstance(child, self.child)",
   "    return self.child is ANY or isinstance(child, self.child) or any(t.__name__.startswith(type(child).__name__)\n"
   "        for t in (self.child if isinstance(self.child, tuple) else (self.child,)))"),
  ('m26_parent_type_matched_by_name_prefix', _ANF,
   "    if self.parent is ANY or isinstance(parent, self.parent):",
   "    if self.parent is ANY or isinstance(parent, self.parent) or any(t.__name__.startswith(type(parent).__name__)\n"
   "        for t in (self.parent if isinstance(self.parent, tuple) else (self.parent,))):"),
  # a rule that constrains only the field is taken for a catch-all when it is not the last one (cf. seeded C18-F)
  ('m27_field_only_rule_shadows_rest', _ANF,
   "      if self._match(pat, parent, field, child):\n        return result(parent, field, child)",
   "      if self._match(pat, parent, field, child) or (\n          pat is not ANY and pat.parent is ANY and pat.child is ANY and pat is not self._overrides[-1][0]):\n"
   "        return result(parent, field, child)"),
 ],
}
