"""Regenerates MANIFEST.json from the check modules present in vf/ (python -m vf.mkmanifest)."""
import importlib
import json
import os

ROOT = os.path.dirname(os.path.dirname(os.path.abspath(__file__)))
ALL = ['C%02d' % i for i in range(1, 21)]
PENDING_REASON = {}
# checks registered in MANIFEST.json (a module file may exist before it is ready)
READY = ['C01', 'C02', 'C03', 'C04', 'C05', 'C06', 'C07', 'C08', 'C09', 'C10', 'C11', 'C12', 'C13', 'C14', 'C15', 'C16', 'C17', 'C18', 'C19', 'C20']


def main():
  checks, na = [], []
  for pid in ALL:
    path = os.path.join(ROOT, 'vf', pid.lower() + '.py')
    if not os.path.exists(path) or pid not in READY:
      na.append({'property_id': pid,
                 'reason': PENDING_REASON.get(pid, 'check designed (DESIGN.md section 4) but not built yet; not claimed until it runs quietly on the unchanged tree')})
      continue
    m = importlib.import_module('vf.' + pid.lower())
    checks.append({
        'property_id': pid,
        'quick_cmd': './check %s quick' % pid,
        'thorough_cmd': './check %s thorough' % pid,
        'evidence_file': 'evidence/%s.json' % pid,
        'replay_cmd_template': './check %s --replay {path}' % pid,
        'engine': 'vf',
        'level_claimed': {
            'category': m.LEVEL,
            'text': getattr(m, 'LEVEL_TEXT', m.RULE),
            'design_ref': 'DESIGN.md section 4.%d' % int(pid[1:]),
        },
        'level_note': getattr(m, 'LEVEL_NOTE', '; '.join(m.ASSUMPTIONS)),
        'technique': m.TECHNIQUE,
    })
  man = {
      'version': 1,
      'setup_cmd': ('/venv/bin/python -c "import hypothesis" 2>/dev/null || /venv/bin/pip install --no-index '
                    '--find-links /opt/veriftools/wheels --target /verif/.deps hypothesis'),
      'hooks': {
          'guard': 'DIASTATIC_MALT_VERIF',
          'enable': 'no source hooks: all instrumentation is test-side (private api.PyToPy subclasses, monkeypatches inside the check process); ./check exports DIASTATIC_MALT_VERIF=1 for uniformity only',
          'baseline_off_cmd': 'cd /repo && /venv/bin/python -m pytest -ra -q -p no:cacheprovider --timeout=900 --continue-on-collection-errors',
          'source_commits': [],
          'add_only': True,
      },
      'engines': [{
          'name': 'vf',
          'path': 'vf/',
          'serves_properties': [c['property_id'] for c in checks],
          'kind_free_text': 'Hypothesis-driven property-based testing (sharded over 16 worker processes, seeded by VERIF_SEED), exhaustive enumeration for finite spaces, differential / metamorphic / trace oracles, own ddmin shrinker, replay files',
      }],
      'checks': checks,
      'not_applicable': na,
      'notes': 'Every check: ./check <ID> quick|thorough ; exit 0 held, 1 + VIOLATION line, 2 harness error. Known findings in known_findings.json.',
  }
  with open(os.path.join(ROOT, 'MANIFEST.json'), 'w') as f:
    json.dump(man, f, indent=1)
  print('checks:', [c['property_id'] for c in checks])
  print('not_applicable:', [n['property_id'] for n in na])


if __name__ == '__main__':
  main()
