"""C11 - generated names never capture, shadow or clash with user names.

Programs from the C01 generator whose identifiers are renamed (injectively) into the converter's
own vocabulary in every role; oracle = the C01 differential observation plus a recording of every
symbol Namer.new_symbol hands out, which must be disjoint from the identifiers the user program
uses and from its namespace.
"""
import ast
import re

import hypothesis.strategies as st

from malt.pyct import naming
from vf import common
from vf import diffobs
from vf import harness
from vf import progen
from vf import shrink as shrinker

ID = 'C11'
LEVEL = 'exploration'
TECHNIQUE = ('differential property-based testing with adversarial identifiers: generated programs are renamed into the converter vocabulary '
             '(role x name drawn by Hypothesis), original vs converted compared as in C01, and every Namer.new_symbol result is recorded and '
             'checked for disjointness from user identifiers and the function namespace')
RULE = ('programs from vf.progen; each user identifier (locals, parameters, nested-function names and parameters, loop targets and counters, '
        'closure variables, module globals, helper names) is independently replaced, with probability ~0.6, by a distinct name from the '
        'vocabulary {do_return, retval_, break_, continue_, fscope, lscope, get_state, set_state, if_body, else_body, loop_body, loop_test, '
        'extra_test, itr, vars_, ag__-free numbered variants such as get_state_1, fscope_1, do_return_1}. One evaluation = one '
        '(program, input) differential run. Non-trivial = the renamed program has a vocabulary name that is only written and one that is '
        'read, and conversion generated >= 3 symbols; distinct by SHA1 of (source, config).')
ASSUMPTIONS = [
    'same observation model and exemptions as C01',
    'the name ag__ itself is not used as a user identifier (the operator module is injected under that fixed name by design; documented in g3doc as reserved)',
]
LEVEL_TEXT = 'Randomised differential exploration with identifiers chosen adversarially; any capture shows as a behavioural difference or as a recorded name clash.'
LEVEL_NOTE = 'Trusted: as C01, plus the regex-based whole-word renaming of generated sources.'

VOCAB = ['do_return', 'retval_', 'break_', 'continue_', 'fscope', 'lscope', 'get_state', 'set_state', 'if_body', 'else_body',
         'loop_body', 'loop_test', 'extra_test', 'itr', 'vars_', 'get_state_1', 'set_state_1', 'fscope_1', 'do_return_1', 'retval__1',
         'loop_body_1', 'if_body_1', 'else_body_1', 'break__1', 'continue__1', 'lscope_1', 'loop_test_1', 'itr_1']
EXCL = ('no_for_target_rebind', 'no_lambda_capture_across_rebind', 'no_impure_chain_middle')
_KEEP = []
_USER_ID = re.compile(r'\b(x[0-3]|f[01]|g0|u[01]|v\d|y\d|q|r|c[01]|G[01]|h[12]|w\d+|i\d+|j\d+|it\d+|a|b|ex|z)\b')


def budget(tier):
  if tier == 'thorough':
    return {'programs': 14000, 'max_depth': 4, 'budget': 36, 'shrink_s': 60, 'wall_cap': 3300}
  return {'programs': 1000, 'max_depth': 3, 'budget': 26, 'shrink_s': 20, 'wall_cap': 800}


def HASHSEEDS(tier, seed):
  return ['0', '1']


def user_identifiers(src):
  return sorted(set(_USER_ID.findall(src)))


def rename(src, mapping):
  def sub(m):
    return mapping.get(m.group(0), m.group(0))
  out = []
  for line in src.split('\n'):
    if line.startswith(('import ', 'from ')):
      out.append(line)
    else:
      out.append(_USER_ID.sub(sub, line))
  return '\n'.join(out)


@st.composite
def renamed_programs(draw, cfg):
  prog = draw(progen.programs(cfg))
  ids = user_identifiers(prog['src'])
  pool = draw(st.permutations(VOCAB))
  mapping = {}
  k = 0
  for name in ids:
    if k < len(pool) and draw(st.integers(0, 9)) < 6:
      mapping[name] = pool[k]
      k += 1
  src = rename(prog['src'], mapping)
  return {'src': src, 'inputs': prog['inputs'], 'meta': prog['meta'], 'mapping': mapping}


def _visible_ids(src, fname='prog'):
  import symtable
  out = set()

  def find(tab):
    if tab.get_type() == 'function' and tab.get_name() == fname:
      return tab
    for c in tab.get_children():
      r = find(c)
      if r is not None:
        return r
    return None

  def needs(tab):
    # names this (nested) function resolves through enclosing scopes
    req = set()
    for sym in tab.get_symbols():
      if sym.is_free() or (sym.is_global() and not sym.is_declared_global()):
        req.add(sym.get_name())
    for c in tab.get_children():
      for n in needs(c):
        try:
          local_here = tab.lookup(n).is_local()
        except KeyError:
          local_here = False
        if not local_here:
          req.add(n)
    return req

  try:
    top = symtable.symtable(src, '<c11>', 'exec')
  except SyntaxError:
    return out
  t = find(top)
  if t is None:
    return out
  out.update(t.get_identifiers())
  for c in t.get_children():
    out.add(c.get_name())
    out.update(needs(c))
  return out


class _Recorder(object):
  def __init__(self, modname=None):
    self.names = []
    self.modname = modname
    self.first = None

  def __enter__(self):
    self.orig = naming.Namer.new_symbol
    rec = self

    def wrapped(self_, name_root, reserved_locals):
      n = rec.orig(self_, name_root, reserved_locals)
      # the function under test is converted first (callees are converted lazily when called, each
      # with a Namer of its own): only its Namer is recorded
      if rec.first is None and (rec.modname is None or self_.global_namespace.get('__name__') == rec.modname):
        rec.first = self_
      if self_ is rec.first:
        rec.names.append(n)
      return n
    naming.Namer.new_symbol = wrapped
    return self

  def __exit__(self, *a):
    naming.Namer.new_symbol = self.orig
    return False


def roles(src, names):
  """For each vocabulary name used: set of roles {'write','read'} inside the function under test."""
  out = {}
  try:
    tree = ast.parse(src)
  except SyntaxError:
    return out
  for n in ast.walk(tree):
    if isinstance(n, ast.Name) and n.id in names:
      out.setdefault(n.id, set()).add('read' if isinstance(n.ctx, ast.Load) else 'write')
    elif isinstance(n, ast.arg) and n.arg in names:
      out.setdefault(n.arg, set()).add('write')
    elif isinstance(n, ast.FunctionDef) and n.name in names:
      out.setdefault(n.name, set()).add('write')
  return out


def run_case(case, limit=10.0):
  fails = []
  info = {'runs': 0, 'generated': 0}
  src, config = case['src'], case['config']
  try:
    compile(src, '<c11>', 'exec')
    mod = harness.load_module(src)
  except Exception as e:
    info['generator_slip'] = repr(e)
    return fails, info
  _KEEP.append(mod)
  try:
    # identifiers that live in the scope of the function under test: its own symbols, and the names
    # nested functions resolve through it (their free / global names). Names that are purely local
    # to a nested function live in another scope and cannot meet a symbol generated for this one.
    user_ids = _visible_ids(src)
    mp = case.get('mapping') or {}
    gn = (mp.get('G0', 'G0'), mp.get('G1', 'G1'))
    for inp in case['inputs']:
      prog, cells = mod.make()
      o = diffobs.observe(prog, inp, mod, cells, limit, gn)
      prog2, cells2 = mod.make()
      with _Recorder(mod.__name__) as rec:
        try:
          with diffobs.time_limit(30):
            conv = diffobs.convert_entry(prog2, config)
            c = diffobs.observe(conv, inp, mod, cells2, limit, gn)
        except diffobs.Timeout:
          fails.append(('convert:timeout', {'input': inp}))
          break
        except Exception as e:
          fails.append(('convert:' + harness.exc_bucket(e), {'exc': repr(e)[:500]}))
          break
      info['runs'] += 1
      info['generated'] = max(info['generated'], len(rec.names))
      # the function under test is converted during the first input only (cached afterwards)
      clash = [] if info['runs'] > 1 else sorted((set(rec.names) - {'inner_factory', 'outer_factory'}) & (user_ids | set(vars(mod)) | set(prog2.__code__.co_freevars)))
      if clash:
        fails.append(('names:generated-symbol-equals-user-identifier', {'clash': clash}))
        break
      r = diffobs.compare(o, c)
      if r is not None:
        b, d = r
        d = dict(d) if isinstance(d, dict) else {'detail': d}
        d['input'] = inp
        fails.append(('diff:' + b, d))
        break
  finally:
    harness.forget_generated(mod)
  return fails, info


CONFIGS = st.fixed_dictionaries({
    'entry': st.sampled_from(['to_graph', 'convert']),
    'recursive': st.booleans(),
    'features': st.sampled_from([[], ['BUILTIN_FUNCTIONS'], ['EQUALITY_OPERATORS']]),
    'spelling': st.just('tuple'),
})


def shard(ctx, acc):
  b = ctx.budget
  cfg = {'max_depth': b['max_depth'], 'budget': b['budget'], 'excl': EXCL}

  def body(pc):
    prog, config = pc
    case = {'src': prog['src'], 'inputs': prog['inputs'], 'config': config, 'mapping': prog['mapping']}
    fails, info = run_case(case)
    used = set(prog['mapping'].values())
    rl = roles(case['src'], used)
    wo = [n for n, r in rl.items() if r == {'write'}]
    rd = [n for n, r in rl.items() if 'read' in r]
    nt = bool(wo) and bool(rd) and info['generated'] >= 3
    cls = ['vocab_names_used=%d' % min(len(used), 8)]
    cls += [k for k in prog['meta'] if k.startswith('excluded:')]
    if wo:
      cls.append('has_write_only_vocab_name')
    if any(prog['mapping'].get(k) for k in ('a', 'b', 'q', 'r')):
      cls.append('role:parameter')
    if any(prog['mapping'].get(k) for k in ('G0', 'G1')):
      cls.append('role:module_global')
    if any(prog['mapping'].get(k) for k in ('c0', 'c1')):
      cls.append('role:closure_variable')
    if any(prog['mapping'].get(k) for k in ('f0', 'f1', 'g0', 'h1', 'h2')):
      cls.append('role:function_name')
    if prog['mapping'].get('ex'):
      cls.append('role:exception_variable')
    if prog['mapping'].get('z'):
      cls.append('role:comprehension_target')
    if any(k[0] in 'ij' and k[1:].isdigit() for k in prog['mapping']):
      cls.append('role:loop_target')
    if info.get('generator_slip'):
      cls.append('generator_slip')
      acc.notes.append(info['generator_slip'])
    sample = {'src': case['src'], 'config': config} if nt and len(acc.samples) < acc.MAX_SAMPLES else None
    acc.case(key=common.h8([case['src'], config]), nontrivial=nt, classes=cls, sample=sample, n=max(1, info['runs']))
    for bkt, d in fails:
      acc.fail(bkt, case, d)

  common.hyp_run(ctx, st.tuples(renamed_programs(cfg), CONFIGS), body, ctx.share('programs'))


def replay(case):
  fails, _ = run_case(case)
  return [{'bucket': b, 'detail': d} for b, d in fails]


def shrink(case, bucket, deadline):
  return shrinker.shrink_case(case, bucket, replay, deadline)
