"""C18 - the A-normal-form transformer preserves evaluation order and yields ANF.

Generated programs (straight-line / if / for[-else] / with / try / trivial while, with logging
calls in every operand position) x ANF configurations (default, spelled-out default, name-all,
default with extra rules in front, random edge-pattern lists, name-every-operand-of-X,
name-every-X, transform-nothing, near-miss rules - a field string next to a real field name (plural / truncated /
re-cased / wrapper-node field / empty) or a type next to an occurring type (name prefix, sibling, pass-through
wrapper) in front of a base configuration - and field-only rules followed by further rules).  The original
source and the source unparsed from anf.transform's output are exec'd against a fresh logging
runtime on the same inputs; an independent re-implementation of the docstring's first-match
edge semantics checks the shape of the output.
"""
import ast
import collections
import re
import signal
import sys

import hypothesis.strategies as st

from malt.pyct import parser
from malt.pyct import transformer
from malt.pyct.common_transformers import anf

from vf import common
from vf import harness
from vf import shrink as shrinker

ID = 'C18'
LEVEL = 'exploration'
TECHNIQUE = ('differential + shape property-based testing: Hypothesis-generated programs with logging calls in every operand '
             'position x generated ANF configurations; original vs transformed source executed on a fresh logging runtime '
             '(result, ordered effect log split at statement markers); independent first-match edge matcher checks that every '
             'position the configuration asks to be named holds a variable; temporaries checked for single assignment; '
             'rejections must be ValueErrors on programs that contain a lazy construct')
RULE = ('programs from the constructive grammar in vf/c18.py (assign / chained / tuple / attribute / subscript targets, augmented '
        'assignment, expression statements, del, return, raise[-from], if/elif/else, for over calls and displays with else, with '
        '(as / multi-item / nested), try/except/else/finally, trivial while and assert, nested def; operands: tracer and recorder '
        'calls with positional / starred / keyword / ** arguments, method calls, call results as callee and attribute base, '
        'attributes, subscripts, slices, + - * unary compare, tuple/list/set/dict displays with * / ** unpacking entries (sources: '
        'local mapping, call result, nested display) as argument / keyword value / starred and ** argument / subscript base / '
        'compare operand / if test / for iterable / element, value or ** source of another display; lazy constructs and/or, '
        'if-expression, chained compare, lambda (also with keyword-only, defaulted, *args and **kwargs parameters), comprehension, '
        'non-trivial while/assert) x configuration family (default, explicit, name-all, default-plus, random rule lists, by-parent, '
        'by-child, none, near_field / near_type = rules whose field string / type is a near miss of an edge of the grammar in front of a base '
        'configuration, by_field = a rule constraining only the field followed by more rules) x 2-3 inputs. One evaluation = one '
        '(program, configuration) pair pushed through anf.transform and all oracle clauses. Non-trivial = the transformer accepted '
        'the program, some statement header holds >= 2 logging calls, some run logged >= 2 effects inside one statement segment '
        '(segments are delimited by mark(i) statements, present in ~40 % of the programs; the whole run otherwise), '
        'and the exact-order clause was asserted for the pair (default or order-safe configuration, no known-finding shape); '
        'distinct by SHA1 of (source, configuration).')
ASSUMPTIONS = [
    'observable behaviour = return value / exception type+args, the ordered log of tracer, recorder, method, context-manager, '
    'attribute-store, item-store/delete effects and the final attributes of o; attribute and item loads, arithmetic and comparisons are pure',
    'a rejection is legitimate only for programs containing a lazy construct (and/or, if-expression, lambda, comprehension, chained '
    'comparison, while, assert); any exception on a program without one is reported',
    'evaluation order is asserted exactly only for the default configuration and for configurations that name every call operand the '
    'default names (or name nothing in a statement); other pairs are held to: same result, same multiset of effects inside every statement segment',
    'expression statements are treated like assignments: their value is exempt from naming (calibration from the code; the docstring lists only Assign/AugAssign/Del)',
    'shapes of the findings F13-F16 and of the new findings (shallow impure operand before a sibling with nested impure operands, '
    'later targets of a multi-target assignment/del with operands to hoist, non-name with-target, annotated assignment) are excluded by '
    'construction (coverage.classes excluded:<flag> counts the redirected draws); order-only shapes are kept in ~12 % of the programs and '
    'under partial configurations, where the exact-order clause is then not asserted (kept_shape_order_unasserted:<flag>)',
]
LEVEL_TEXT = ('Randomised exploration of program x configuration x input space with a differential oracle and an independent shape '
              'checker; every explored case is executed both ways. No claim beyond the cases counted.')
LEVEL_NOTE = ('Trusted: CPython as reference semantics, the logging runtime and the constructive generator in vf/c18.py. Out of reach: '
              'operand positions outside the listed class (decorators, non-constant default arguments, handler types, for/with targets with impure '
              'sub-expressions, f-strings, generators), configurations whose callables inspect more than node types and the callee name.')

TMP_RE = re.compile(r'^tmp_\d+$')

# ================================================================================================
# logging runtime


class E1(Exception):
  pass


class StepLimit(BaseException):
  pass


def _r(v):
  if isinstance(v, (set, frozenset)):
    return '{' + ', '.join(sorted(_r(x) for x in v)) + '}'
  if isinstance(v, tuple):
    return '(' + ', '.join(_r(x) for x in v) + ',)'
  if isinstance(v, list):
    return '[' + ', '.join(_r(x) for x in v) + ']'
  if isinstance(v, dict):
    return '{' + ', '.join('%s: %s' % (_r(k), _r(x)) for k, x in v.items()) + '}'
  if isinstance(v, (bool, int, str, type(None), slice)) or v is Ellipsis:
    return repr(v)
  if isinstance(v, BaseException):
    return '%s(%s)' % (type(v).__name__, ', '.join(_r(x) for x in v.args))
  if isinstance(v, Obj):
    return 'Obj'
  if isinstance(v, Box):
    return 'Box'
  if isinstance(v, CM):
    return 'CM(%s)' % _r(v.k)
  if callable(v):
    return '<callable>'
  return '<%s>' % type(v).__name__


class Box(object):
  __iter__ = None  # total __getitem__ must not make the object an endless iterable
  __contains__ = None

  def __init__(self, log):
    object.__setattr__(self, '_log', log)

  def __getitem__(self, k):
    if isinstance(k, bool) or not isinstance(k, int):
      return 2
    return (k * 3 + 1) % 5

  def __setitem__(self, k, v):
    self._log('setitem %s = %s' % (_r(k), _r(v)))

  def __delitem__(self, k):
    self._log('delitem %s' % _r(k))


class Obj(object):
  def __init__(self, log, depth=0):
    d = self.__dict__
    d['_log'] = log
    d['_tag'] = 'o' + '.sub' * depth
    d['x'] = 1 + depth
    d['b'] = Box(log)
    if depth < 1:
      d['sub'] = Obj(log, depth + 1)

  def __setattr__(self, name, v):
    self._log('setattr %s.%s = %s' % (self._tag, name, _r(v)))
    self.__dict__[name] = v

  def m(self, *a, **k):
    self._log('m %s %s %s' % (self._tag, _r(a), _r(sorted(k.items()))))
    return (len(a) + 2 * len(k)) % 4


class CM(object):
  def __init__(self, log, k, pair):
    self._log, self.k, self.pair = log, k, pair

  def __enter__(self):
    self._log('enter %s' % _r(self.k))
    return (self.k, 1) if self.pair else self.k

  def __exit__(self, et, ev, tb):
    self._log('exit %s %s' % (_r(self.k), et.__name__ if et else None))
    return False


def make_ns():
  log = []

  def emit(s):
    if len(log) > 4000:
      raise StepLimit()
    log.append(s)

  def t(x=0, *a, **k):
    emit('t %s' % _r(x))
    return x

  def rec(*a, **k):
    emit('rec %s %s' % (_r(a), _r(sorted(k.items()))))
    n = len(k)
    for v in a:
      if isinstance(v, int):
        n += v
    return n % 4

  def cm(k=0):
    emit('cm %s' % _r(k))
    return CM(emit, k, False)

  def cmt(k=0):
    emit('cmt %s' % _r(k))
    return CM(emit, k, True)

  def err(k=0):
    emit('err %s' % _r(k))
    return E1(k)

  def call0(f):
    emit('call0')
    return f()

  def callk(f):
    emit('callk')
    return f(k=3)

  def mark(i):
    emit('#%s' % _r(i))

  o = Obj(emit)
  ns = {'t': t, 'rec': rec, 'cm': cm, 'cmt': cmt, 'err': err, 'call0': call0, 'callk': callk, 'mark': mark, 'o': o,
        'E1': E1,
        '__builtins__': __builtins__}
  return ns, log, o


LOGGING_CALLEES = ('t', 'rec', 'cm', 'cmt', 'err', 'call0', 'callk', 'mark')


class _Timeout(BaseException):
  pass


def _alarm(signum, frame):
  raise _Timeout()


def run_src(src, inp, fname='f'):
  """Executes fname(*inp) from src on a fresh runtime. Returns {'outcome', 'log', 'state'}."""
  ns, log, o = make_ns()
  old = signal.signal(signal.SIGALRM, _alarm)
  signal.alarm(60)  # safety net only; the deterministic bound is the line budget below
  budget = [20000]

  def local_trace(frame, event, arg):
    if event == 'line':
      budget[0] -= 1
      if budget[0] < 0:
        raise StepLimit()
    return local_trace

  def global_trace(frame, event, arg):
    return local_trace if frame.f_code.co_filename == '<c18>' else None

  try:
    try:
      code = compile(src, '<c18>', 'exec')
      exec(code, ns)
      sys.settrace(global_trace)
      v = ns[fname](*inp)
      n = 0
      while callable(v) and n < 3:
        log.append('<returned>')
        v = v()
        n += 1
      outcome = ['ok', _r(v)]
    except StepLimit:
      outcome = ['steplimit']
    except _Timeout:
      outcome = ['timeout']
    except Exception as e:
      name = type(e).__name__
      if isinstance(e, NameError):
        name = 'NameError'
      outcome = ['exc', name, _r(e.args) if isinstance(e, E1) else '']
  finally:
    sys.settrace(None)
    signal.alarm(0)
    signal.signal(signal.SIGALRM, old)
  state = [_r(o.__dict__.get('x')), _r(o.sub.__dict__.get('x'))]
  return {'outcome': outcome, 'log': list(log), 'state': state}


def segments(log):
  """Splits the log at statement markers / the <returned> boundary: [(boundary, [entries])]."""
  out = [('', [])]
  for e in log:
    if e.startswith('#') or e == '<returned>':
      out.append((e, []))
    else:
      out[-1][1].append(e)
  return out


# ================================================================================================
# configurations (JSON form <-> anf config) and the independent first-match matcher

DEFAULT_RULES = [
    {'p': 'ANY', 'f': 'ANY', 'c': ['Constant', 'Name'], 'a': 'LEAVE'},
    {'p': 'ANY', 'f': 'ANY', 'c': ['expr'], 'a': 'REPLACE'},
]


def _types(spec):
  return tuple(getattr(ast, n) for n in spec)


def _call_rec(parent, field, child):
  return isinstance(parent, ast.Call) and isinstance(parent.func, ast.Name) and parent.func.id == 'rec'


def _not_call_rec(parent, field, child):
  return not _call_rec(parent, field, child)


ACTIONS = {'REPLACE': anf.REPLACE, 'LEAVE': anf.LEAVE, 'CALL_REC': _call_rec, 'NOT_CALL_REC': _not_call_rec}
MY_ACTIONS = {'REPLACE': lambda p, f, c: True, 'LEAVE': lambda p, f, c: False, 'CALL_REC': _call_rec,
              'NOT_CALL_REC': _not_call_rec}


def build_config(cj):
  """JSON form -> the object handed to anf.transform."""
  if cj is None:
    return None
  out = []
  for r in cj:
    act = ACTIONS[r['a']]
    if r.get('any'):
      out.append((anf.ANY, act))
      continue
    p = anf.ANY if r['p'] == 'ANY' else _types(r['p'])
    f = anf.ANY if r['f'] == 'ANY' else r['f']
    c = anf.ANY if r['c'] == 'ANY' else _types(r['c'])
    out.append((anf.ASTEdgePattern(p, f, c), act))
  return out


def _loose_field(edge_field, rule_field):
  """A sloppy field comparison (substring either way, case ignored): NOT the documented semantics; only used to
  count the cases in which exact string equality is observably different from it."""
  a, b = edge_field.lower(), rule_field.lower()
  return a in b or b in a


def _loose_type(node, spec):
  """A sloppy type comparison (isinstance, or one class name a prefix of the other, case ignored): counting only."""
  if isinstance(node, _types(spec)):
    return True
  a = type(node).__name__.lower()
  return any(a.startswith(n.lower()) or n.lower().startswith(a) for n in spec)


def asks(cj, parent, field, child, loose_field=False, loose_type=False):
  """Own reading of the docstring: rules tested in order, first match governs, no match = leave.
  Parent / child are checked with isinstance, the field name with string equality (the loose_* switches select the
  sloppy comparisons above and are only used for the coverage counters, never by the oracle)."""
  for r in (DEFAULT_RULES if cj is None else cj):
    if not r.get('any'):
      if r['p'] != 'ANY' and not (_loose_type(parent, r['p']) if loose_type else isinstance(parent, _types(r['p']))):
        continue
      if r['f'] != 'ANY' and not (_loose_field(field, r['f']) if loose_field else field == r['f']):
        continue
      if r['c'] != 'ANY' and not (_loose_type(child, r['c']) if loose_type else isinstance(child, _types(r['c']))):
        continue
    return bool(MY_ACTIONS[r['a']](parent, field, child))
  return False


# ================================================================================================
# edges exposed to the configuration

_EXEMPT_STMTS = (ast.Assign, ast.AugAssign, ast.AnnAssign, ast.Delete, ast.Expr)
_HEADER_FIELDS = {ast.If: ('test',), ast.While: ('test',), ast.For: ('iter',), ast.With: ('items',),
                  ast.Return: ('value',), ast.Raise: ('exc', 'cause'), ast.Assert: ('test', 'msg')}


def _unwrap(parent, field, it):
  """Special-purpose wrapper nodes pass the parent and field name on to their children."""
  if it is None:
    return
  if isinstance(it, ast.keyword):
    for e in _unwrap(parent, field, it.value):
      yield e
  elif isinstance(it, ast.Starred):
    for e in _unwrap(parent, field, it.value):
      yield e
  elif isinstance(it, ast.withitem):
    for sub in (it.context_expr, it.optional_vars):
      for e in _unwrap(parent, field, sub):
        yield e
  elif isinstance(it, ast.Slice):
    for sub in (it.lower, it.upper, it.step):
      for e in _unwrap(parent, field, sub):
        yield e
  elif isinstance(it, ast.expr):
    yield (parent, field, it)


def operand_edges(p):
  """(parent, field, child expression) edges of p that a configuration may be asked about."""
  if isinstance(p, ast.stmt):
    fields = _HEADER_FIELDS.get(type(p), ())
  elif isinstance(p, ast.expr):
    if isinstance(p, (ast.Name, ast.Constant, ast.Starred, ast.Slice, ast.JoinedStr, ast.FormattedValue)):
      return
    if isinstance(p, (ast.Tuple, ast.List)) and isinstance(p.ctx, (ast.Store, ast.Del)):
      return
    fields = p._fields
  else:
    return
  for f in fields:
    v = getattr(p, f, None)
    for it in (v if isinstance(v, list) else [v]):
      for e in _unwrap(p, f, it):
        if isinstance(getattr(e[2], 'ctx', None), (ast.Store, ast.Del)):
          continue
        yield e


def _is_trivially_exempt(child):
  return isinstance(child, ast.Name) or (isinstance(child, ast.Constant) and child.value is Ellipsis)


def shape_violations(tree, cj):
  bad = []
  for p in ast.walk(tree):
    for parent, field, child in operand_edges(p):
      if _is_trivially_exempt(child):
        continue
      try:
        want = asks(cj, parent, field, child)
      except Exception:
        want = False
      if want:
        bad.append('%s.%s:%s' % (type(parent).__name__, field, type(child).__name__))
  return bad


def temp_violations(tree):
  """Every tmp_N is assigned exactly once and no read precedes its assignment (block order)."""
  bad = []
  assigned = collections.Counter()
  for n in ast.walk(tree):
    if isinstance(n, ast.Name) and TMP_RE.match(n.id) and isinstance(n.ctx, ast.Store):
      assigned[n.id] += 1
  for k, c in sorted(assigned.items()):
    if c > 1:
      bad.append(('temps:assigned-more-than-once', k))
      break

  def stmt_reads(s):
    """tmp reads in the header of s (not inside nested statement lists)."""
    out = []
    stack = [s]
    while stack:
      n = stack.pop()
      for f, v in ast.iter_fields(n):
        for it in (v if isinstance(v, list) else [v]):
          if isinstance(it, ast.stmt) or isinstance(it, ast.ExceptHandler):
            continue
          if isinstance(it, ast.AST):
            if isinstance(it, ast.Name) and TMP_RE.match(it.id) and isinstance(it.ctx, ast.Load):
              out.append(it.id)
            stack.append(it)
    return out

  def walk(stmts, defined):
    defined = set(defined)
    for s in stmts:
      for r in stmt_reads(s):
        if r not in defined:
          bad.append(('temps:read-before-assignment', r))
      if isinstance(s, ast.Assign):
        for tg in s.targets:
          if isinstance(tg, ast.Name) and TMP_RE.match(tg.id):
            defined.add(tg.id)
      if isinstance(s, (ast.FunctionDef,)):
        walk(s.body, set())
        continue
      for f in ('body', 'orelse', 'finalbody'):
        sub = getattr(s, f, None)
        if isinstance(sub, list) and sub and isinstance(sub[0], ast.stmt):
          walk(sub, defined)
      for h in getattr(s, 'handlers', []) or []:
        walk(h.body, defined)

  for n in ast.walk(tree):
    if isinstance(n, ast.FunctionDef):
      walk(n.body, set())
      break
  return bad[:3]


# ================================================================================================
# input-shape predicates: lazy constructs, order-safety, shapes of the known findings

_LAZY = (ast.BoolOp, ast.IfExp, ast.Lambda, ast.ListComp, ast.SetComp, ast.DictComp, ast.GeneratorExp, ast.While,
         ast.Assert, ast.JoinedStr, ast.Await, ast.YieldFrom, ast.AsyncFor, ast.AsyncWith)


def lazy_kinds(tree):
  out = set()
  for n in ast.walk(tree):
    if isinstance(n, _LAZY):
      out.add(type(n).__name__)
    elif isinstance(n, ast.Compare) and len(n.ops) > 1:
      out.add('ChainedCompare')
  return out


def _has_call(n):
  return n is not None and any(isinstance(x, ast.Call) for x in ast.walk(n))


def _stmts(tree):
  for n in ast.walk(tree):
    if isinstance(n, ast.stmt) and not isinstance(n, ast.FunctionDef):
      yield n


def _header_nodes(s):
  """Expression-ish children of statement s, excluding nested statement lists."""
  for f, v in ast.iter_fields(s):
    for it in (v if isinstance(v, list) else [v]):
      if isinstance(it, ast.AST) and not isinstance(it, (ast.stmt, ast.ExceptHandler)):
        yield f, it


def _header_walk(s):
  for f, it in _header_nodes(s):
    for n in ast.walk(it):
      yield n


def order_safe(tree, cj):
  """Per statement: the configuration names nothing, or names every call operand the default names."""
  if cj is None:
    return True
  for s in _stmts(tree):
    edges = list(operand_edges(s))
    for n in _header_walk(s):
      edges.extend(operand_edges(n))
    edges = [e for e in edges if not _is_trivially_exempt(e[2])]
    asked = [e for e in edges if asks(cj, *e)]
    if not asked:
      continue
    for e in edges:
      if isinstance(e[2], ast.Call) and not asks(cj, *e):
        return False
  return True


_ENSURING = (ast.BoolOp, ast.BinOp, ast.UnaryOp, ast.Lambda, ast.IfExp, ast.Dict, ast.Set, ast.Compare, ast.Call,
             ast.Attribute, ast.Subscript, ast.Yield, ast.Await)


def _hoist_order(n):
  """Calls in the order a post-order walk that names all call operands would hoist them while
  visiting n (only used to characterise the *input shape* of the known order findings)."""
  out = []
  for ch in ast.iter_child_nodes(n):
    out.extend(_hoist_order(ch))
  ens = isinstance(n, _ENSURING) or (isinstance(n, (ast.Tuple, ast.List)) and isinstance(n.ctx, ast.Load)) or (
      isinstance(n, (ast.Return, ast.Raise)))
  if ens:
    out.extend(c for _, _, c in operand_edges(n) if isinstance(c, ast.Call))
  return out


def _py_order(n):
  """Calls of n in Python's evaluation order (lazy operands listed in order; irrelevant when absent)."""
  if n is None:
    return []
  if isinstance(n, ast.Lambda):
    return []
  if isinstance(n, ast.Dict):
    out = []
    for k, v in zip(n.keys, n.values):
      out.extend(_py_order(k))
      out.extend(_py_order(v))
    return out
  if isinstance(n, ast.Assign):
    out = _py_order(n.value)
    for tg in n.targets:
      out.extend(_py_order(tg))
    return out
  out = []
  for ch in ast.iter_child_nodes(n):
    out.extend(_py_order(ch))
  if isinstance(n, ast.Call):
    out.append(n)
  return out


def _stmt_header_copy(s):
  """The statement without its nested statement lists."""
  import copy
  s2 = copy.copy(s)
  for f in ('body', 'orelse', 'finalbody', 'handlers'):
    if hasattr(s2, f):
      setattr(s2, f, [])
  return s2


def finding_shapes(tree):
  """Names of known-finding shapes present in the program (decided from the input alone)."""
  out = set()
  for s in _stmts(tree):
    if isinstance(s, ast.AnnAssign):
      out.add('no_annassign')
    if isinstance(s, ast.With):
      for k, it in enumerate(s.items):
        if it.optional_vars is not None and not isinstance(it.optional_vars, ast.Name):
          out.add('no_with_nonname_target')
        if k > 0 and _has_call(it.context_expr):
          out.add('no_multi_item_with_impure')
    for n in _header_walk(s):
      if isinstance(n, ast.Slice):
        out.add('slice')
    if isinstance(s, (ast.Assign, ast.Delete)):
      leaves = [l for tg in s.targets for l in _target_leaves(tg)]
      for i, l in enumerate(leaves):
        # a later target with anything to hoist: its operands would be evaluated before the stores
        # of the earlier targets (which they may observe through rebinding or object state)
        if i and any(not isinstance(c, (ast.Name, ast.Constant)) for _, _, c in operand_edges(l)):
          out.add('no_multi_target_later_operands')
    if isinstance(s, (ast.Try, ast.Pass, ast.Break, ast.Continue, ast.Global, ast.Nonlocal)):
      continue
    h = _stmt_header_copy(s)
    if isinstance(h, (ast.If, ast.While)):
      hoisted = _hoist_order(h.test) + ([h.test] if isinstance(h.test, ast.Call) else [])
      py = _py_order(h.test)
    elif isinstance(h, ast.For):
      hoisted = _hoist_order(h.iter) + ([h.iter] if isinstance(h.iter, ast.Call) else [])
      py = _py_order(h.iter)
    elif isinstance(h, ast.With):
      hoisted = []
      for it in h.items:
        hoisted.extend(_hoist_order(it))
      hoisted.extend(c for _, _, c in operand_edges(h) if isinstance(c, ast.Call))
      py = []
      for it in h.items:
        py.extend(_py_order(it))
    else:
      hoisted = _hoist_order(h)
      v = getattr(h, 'value', None)
      if isinstance(h, _EXEMPT_STMTS) and isinstance(v, ast.Call):
        hoisted.append(v)
      py = _py_order(h)
    if [id(x) for x in hoisted] != [id(x) for x in py]:
      if isinstance(s, ast.Assign) and _has_call(s.value) and any(_has_call(tg) for tg in s.targets):
        out.add('no_impure_assign_target_with_impure_value')
      elif any(isinstance(n, ast.Dict) and _dict_f13(n) for n in _header_walk(s)):
        out.add('no_dict_multi_impure')
      else:
        out.add('no_shallow_impure_operand_before_nested_impure')
  return out


def _target_leaves(t):
  if isinstance(t, (ast.Tuple, ast.List)):
    return [l for e in t.elts for l in _target_leaves(e)]
  if isinstance(t, ast.Starred):
    return _target_leaves(t.value)
  return [t]


def _dict_f13(d):
  for i, v in enumerate(d.values):
    if _has_call(v) and any(_has_call(k) for k in d.keys[i + 1:]):
      return True
  return False


ORDER_FLAGS = ('no_impure_assign_target_with_impure_value', 'no_dict_multi_impure',
               'no_shallow_impure_operand_before_nested_impure')
# no_annassign (FN3), no_with_nonname_target (FN2) and plain slices (F15) were repaired in /repo (fix: commits)
# and are generated again; no_slice_hoisted now only covers extended slices (F15b)
HARD_FLAGS = ('no_slice_hoisted', 'no_multi_item_with_impure', 'no_multi_target_later_operands')


def slice_hoisted(tree, cj):
  """Would the configuration ask for a Slice node (or anything holding one) to be named? (F15)"""
  for n in ast.walk(tree):
    if isinstance(n, ast.Subscript):
      sl = n.slice
      if isinstance(sl, ast.Slice):
        pass   # F15 fixed: a plain slice is never hoisted as a whole any more
      elif isinstance(sl, ast.Tuple) and any(isinstance(e, ast.Slice) for e in sl.elts):
        return True
  return False


# ================================================================================================
# the oracle


def _ctx():
  info = transformer.EntityInfo(name='f', source_code=None, source_file=None, future_features=(), namespace=None)
  return transformer.Context(info, None, None)


def _logging_calls_per_stmt(tree):
  best = 0
  for s in _stmts(tree):
    n = 0
    for x in _header_walk(s):
      if isinstance(x, ast.Call):
        f = x.func
        if (isinstance(f, ast.Name) and f.id in LOGGING_CALLEES and f.id != 'mark') or (
            isinstance(f, ast.Attribute) and f.attr == 'm'):
          n += 1
    best = max(best, n)
  return best


def run_case(case):
  """Returns (failures [(bucket, detail)], info)."""
  fails = []
  info = {'accepted': False, 'rejected': None, 'order_asserted': False, 'max_seg': 0, 'lazy': [], 'shapes': [],
          'order_safe': False, 'out_src': None, 'ntemps': 0}
  src, cj = case['src'], case.get('config')
  tree0 = ast.parse(src)
  lazy = lazy_kinds(tree0)
  info['lazy'] = sorted(lazy)
  shapes = finding_shapes(tree0)
  if slice_hoisted(tree0, cj):
    shapes.add('no_slice_hoisted')
  shapes.discard('slice')
  info['shapes'] = sorted(shapes)
  info['order_safe'] = order_safe(tree0, cj)
  order_asserted = bool(case.get('force_order')) or (info['order_safe'] and not (shapes & set(ORDER_FLAGS)))
  info['order_asserted'] = order_asserted

  node = parser.parse(src)
  try:
    out = anf.transform(node, _ctx(), config=build_config(cj))
  except Exception as e:
    info['rejected'] = type(e).__name__
    if not lazy:
      fails.append(('reject-without-lazy-construct:' + harness.exc_bucket(e), {'exc': repr(e)[:300]}))
    return fails, info
  info['accepted'] = True
  try:
    src2 = parser.unparse(out, include_encoding_marker=False)
  except Exception as e:
    fails.append(('unparse:' + type(e).__name__, {'exc': repr(e)[:300]}))
    return fails, info
  info['out_src'] = src2
  try:
    compile(src2, '<c18-out>', 'exec')
    tree2 = ast.parse(src2)
  except Exception as e:
    fails.append(('compile:' + type(e).__name__, {'exc': repr(e)[:200], 'out': src2}))
    return fails, info

  bad = shape_violations(tree2, cj)
  if bad:
    fails.append(('shape:' + bad[0], {'unnamed': bad[:6], 'out': src2}))
  tv = temp_violations(tree2)
  if tv:
    fails.append((tv[0][0], {'name': tv[0][1], 'out': src2}))
  info['ntemps'] = len({n.id for n in ast.walk(tree2) if isinstance(n, ast.Name) and TMP_RE.match(n.id)})

  for inp in case['inputs']:
    a = run_src(src, inp)
    b = run_src(src2, inp)
    if a['outcome'][0] in ('timeout', 'steplimit') or b['outcome'][0] == 'timeout':
      # step limit = deterministic line/effect budget; timeout = wall-clock safety net (never evidence)
      info['generator_slip'] = 'original exceeds the step budget (%s/%s) in %s' % (a['outcome'][0], b['outcome'][0], src)
      continue
    if a['outcome'][0] == 'exc' and a['outcome'][1] not in ('E1', 'AssertionError'):
      # the grammar is total apart from explicit raise/assert: an implicit exception in the
      # original is a generator (or shrinker) slip, never evidence about the transformer
      info['generator_slip'] = 'original raises ' + a['outcome'][1] + ' in ' + src
      continue
    sa, sb = segments(a['log']), segments(b['log'])
    info['max_seg'] = max([info['max_seg']] + [len(x[1]) for x in sa])
    if a['outcome'] != b['outcome'] or a['state'] != b['state']:
      fails.append(('result:%s->%s' % (a['outcome'][0] + (':' + a['outcome'][1] if a['outcome'][0] == 'exc' else ''),
                                        b['outcome'][0] + (':' + b['outcome'][1] if b['outcome'][0] == 'exc' else '')),
                    {'input': inp, 'want': a['outcome'] + a['state'], 'got': b['outcome'] + b['state'], 'out': src2}))
      break
    if [x[0] for x in sa] != [x[0] for x in sb] or any(sorted(x[1]) != sorted(y[1]) for x, y in zip(sa, sb)):
      fails.append(('effects:different-effects', {'input': inp, 'want': a['log'][:40], 'got': b['log'][:40], 'out': src2}))
      break
    if order_asserted and a['log'] != b['log']:
      k = next(i for i, (x, y) in enumerate(zip(a['log'], b['log'])) if x != y)
      fails.append(('effects:order', {'input': inp, 'first_diff': k, 'want': a['log'][:40], 'got': b['log'][:40], 'out': src2}))
      break
  return fails, info


# ================================================================================================
# generators

P_POOL = ['Call', 'BinOp', 'UnaryOp', 'Compare', 'Attribute', 'Subscript', 'Tuple', 'List', 'Set', 'Dict', 'Return',
          'Raise', 'If', 'For', 'With', 'BoolOp', 'IfExp', 'Lambda', 'expr', 'stmt', 'ListComp', 'Starred', 'keyword']
C_POOL = ['Call', 'BinOp', 'UnaryOp', 'Compare', 'Attribute', 'Subscript', 'Tuple', 'List', 'Set', 'Dict', 'Constant',
          'Name', 'BoolOp', 'IfExp', 'Lambda', 'Slice', 'expr', 'ListComp', 'SetComp', 'DictComp', 'Starred']
PURE_C = ['BinOp', 'UnaryOp', 'Compare', 'Attribute', 'Subscript', 'Tuple', 'List', 'Set', 'Dict', 'Slice']
F_POOL = ['func', 'args', 'keywords', 'value', 'slice', 'left', 'right', 'operand', 'comparators', 'elts', 'keys',
          'values', 'test', 'iter', 'items', 'exc', 'cause', 'body', 'orelse']
_NON_OPERAND_FIELDS = ('ctx', 'op', 'ops', 'attr', 'id', 'targets', 'target', 'type_comment', 'handlers', 'finalbody',
                       'args_', 'name', 'kind')
FAMILIES = (['default'] * 8 + ['default_explicit'] + ['all_expr'] * 2 + ['default_plus'] * 4 + ['partial'] * 6 + ['none'] +
            ['by_parent'] * 5 + ['by_child'] * 2 + ['near_field'] * 4 + ['near_type'] * 3 + ['by_field'] * 3)

# ---- near-miss rules: rules that sit next to an edge of the program without matching it
# field names under which operand edges are presented to the configuration
OPERAND_FIELDS = ['func', 'args', 'keywords', 'value', 'value', 'slice', 'left', 'right', 'operand', 'comparators', 'elts',
                  'keys', 'values', 'values', 'test', 'iter', 'items', 'exc', 'cause', 'body', 'orelse', 'msg']
# fields of the pass-through wrapper nodes (Starred / keyword / Slice / withitem): their children are presented under the
# field of the wrapper itself (Call.args, Call.keywords, Subscript.slice, With.items), never under these names
WRAPPER_FIELDS = ['lower', 'upper', 'step', 'context_expr', 'optional_vars', 'arg']
FIELD_VARIANTS = ['plural', 'plural', 'drop_last', 'drop_last', 'drop_first', 'underscore_prefix', 'underscore_suffix',
                  'capitalised', 'upper_case', 'first_half', 'doubled', 'wrapper_field', 'empty']


def field_variant(kind, f, k=0):
  """A string that is not f but close to it (it may coincide with ANOTHER real field: value/values, key/keys ...)."""
  if kind == 'plural':
    return f + 's'
  if kind == 'drop_last':
    return f[:-1]
  if kind == 'drop_first':
    return f[1:]
  if kind == 'underscore_prefix':
    return '_' + f
  if kind == 'underscore_suffix':
    return f + '_'
  if kind == 'capitalised':
    return f.capitalize()
  if kind == 'upper_case':
    return f.upper()
  if kind == 'first_half':
    return f[:max(1, len(f) // 2)]
  if kind == 'doubled':
    return f + f
  if kind == 'wrapper_field':
    return WRAPPER_FIELDS[k % len(WRAPPER_FIELDS)]
  return ''


_AST_CLASSES = sorted(n for n in dir(ast) if not n.startswith('_') and n != 'AST' and isinstance(getattr(ast, n), type) and
                      issubclass(getattr(ast, n), ast.AST))
# node types the grammar produces in parent / child position of an operand edge
OCCURRING_TYPES = ['Call', 'BinOp', 'UnaryOp', 'Compare', 'Attribute', 'Subscript', 'Tuple', 'List', 'Set', 'Dict', 'Return',
                   'Raise', 'If', 'For', 'With', 'BoolOp', 'IfExp', 'Lambda', 'Constant', 'Name']
# pass-through wrappers (never a parent, never asked about as a child) and non-expression node kinds
WRAPPER_TYPES = ['Starred', 'keyword', 'Slice', 'withitem', 'expr_context', 'operator', 'cmpop', 'unaryop', 'Load', 'arguments',
                 'comprehension', 'Expr', 'Assign']


def type_neighbours(t):
  """Other AST classes whose name starts with t's name or is a prefix of it (case ignored): List/ListComp, If/IfExp,
  Subscript/Sub, With/withitem, For/FormattedValue, UnaryOp/unaryop ... None of them is a base or subclass of t."""
  a = t.lower()
  cls = getattr(ast, t)
  out = []
  for n in _AST_CLASSES:
    if n != t and (n.lower().startswith(a) or a.startswith(n.lower())):
      other = getattr(ast, n)
      if not issubclass(cls, other) and not issubclass(other, cls):
        out.append(n)
  return out


TYPE_NEIGHBOURS = {t: type_neighbours(t) for t in OCCURRING_TYPES}
# types of the same kind that the grammar produces as well: a rule about one must not catch the other
TYPE_SIBLINGS = {'BinOp': ['BoolOp', 'UnaryOp', 'Compare'], 'UnaryOp': ['BinOp'], 'BoolOp': ['BinOp', 'IfExp'], 'Compare': ['BinOp'],
                 'Tuple': ['List', 'Set'], 'List': ['Tuple', 'Set'], 'Set': ['Dict', 'List'], 'Dict': ['Set'],
                 'Attribute': ['Subscript', 'Name'], 'Subscript': ['Attribute'], 'Call': ['Attribute', 'Lambda'], 'Lambda': ['Call'],
                 'Return': ['Raise', 'Expr'], 'Raise': ['Return'], 'If': ['While', 'For'], 'For': ['While', 'If'], 'With': ['Try', 'For'],
                 'IfExp': ['BoolOp'], 'Constant': ['Name'], 'Name': ['Constant']}


def _owners(f):
  return [t for t in P_POOL if t not in ('expr', 'stmt') and f in getattr(ast, t)._fields]
BY_PARENT = ['Call'] * 6 + ['BinOp', 'BinOp', 'Subscript', 'Attribute', 'Attribute', 'Compare', 'Tuple', 'List', 'Dict',
                            'UnaryOp', 'Return', 'If', 'For', 'With', 'BoolOp', 'IfExp']


@st.composite
def rules(draw, child_pool=None, actions=None):
  if child_pool is None and draw(st.integers(0, 19)) == 0:
    return {'any': True, 'a': draw(st.sampled_from(['REPLACE', 'LEAVE']))}
  p = 'ANY'
  f = 'ANY'
  if draw(st.integers(0, 9)) < 6:
    p = [draw(st.sampled_from(P_POOL))]
    if draw(st.integers(0, 9)) < 2:
      p.append(draw(st.sampled_from(P_POOL)))
  if draw(st.integers(0, 9)) < 4:
    if p != 'ANY' and p[0] not in ('expr', 'stmt'):
      own = [x for x in getattr(ast, p[0])._fields if x in F_POOL]
      f = draw(st.sampled_from(own or F_POOL))
    else:
      f = draw(st.sampled_from(F_POOL))
    if draw(st.integers(0, 9)) < 2:
      # a string next to the field name (it then names another field or none at all)
      f = field_variant(draw(st.sampled_from(FIELD_VARIANTS)), f, draw(st.integers(0, len(WRAPPER_FIELDS) - 1)))
  c = 'ANY'
  pool = child_pool or C_POOL
  if child_pool or draw(st.integers(0, 9)) < 7:
    c = [draw(st.sampled_from(pool))]
    if draw(st.integers(0, 9)) < 3:
      c.append(draw(st.sampled_from(pool)))
  a = draw(st.sampled_from(actions or (['REPLACE'] * 12 + ['LEAVE'] * 5 + ['CALL_REC'] * 2 + ['NOT_CALL_REC'])))
  return {'p': p, 'f': f, 'c': c, 'a': a}


@st.composite
def configs(draw):
  fam = draw(st.sampled_from(FAMILIES))
  if fam == 'default':
    return fam, None, []
  if fam == 'default_explicit':
    return fam, [dict(r) for r in DEFAULT_RULES], []
  if fam == 'all_expr':
    return fam, [{'p': 'ANY', 'f': 'ANY', 'c': ['expr'], 'a': 'REPLACE'}], []
  if fam == 'none':
    return fam, [{'any': True, 'a': 'LEAVE'}], []
  if fam == 'by_parent':
    # "name every operand of X" (the shape of the docstring's and the unit tests' examples)
    return fam, [{'p': [draw(st.sampled_from(BY_PARENT))], 'f': 'ANY', 'c': draw(st.sampled_from(['ANY', ['expr']])),
                  'a': 'REPLACE'}], []
  if fam == 'by_child':
    return fam, [{'p': 'ANY', 'f': 'ANY', 'c': [draw(st.sampled_from(PURE_C + ['Call', 'Call', 'Constant']))], 'a': 'REPLACE'}], []
  if fam in ('near_field', 'near_type'):
    # one or two near-miss rules in front of a base configuration; their directive is (mostly) the opposite of what the
    # base says about the edges they sit next to, so that a rule matching too much is visible
    base_kind = draw(st.sampled_from(['default'] * 5 + ['all_expr'] * 2 + ['empty'] * 2 + ['by_parent', 'leave_all']))
    if base_kind == 'default':
      base = [dict(r) for r in DEFAULT_RULES]
    elif base_kind == 'all_expr':
      base = [{'p': 'ANY', 'f': 'ANY', 'c': ['expr'], 'a': 'REPLACE'}]
    elif base_kind == 'by_parent':
      base = [{'p': [draw(st.sampled_from(BY_PARENT))], 'f': 'ANY', 'c': 'ANY', 'a': 'REPLACE'}]
    elif base_kind == 'leave_all':
      base = [{'any': True, 'a': 'LEAVE'}]
    else:
      base = []
    naming = base_kind in ('default', 'all_expr', 'by_parent')
    pre = []
    tags = ['near_base=' + base_kind]
    for _ in range(draw(st.integers(1, 2))):
      act = 'LEAVE' if naming else 'REPLACE'
      if draw(st.integers(0, 9)) < 2:
        act = 'REPLACE' if naming else 'LEAVE'
      if fam == 'near_field':
        f = draw(st.sampled_from(OPERAND_FIELDS))
        kind = draw(st.sampled_from(FIELD_VARIANTS))
        nf = field_variant(kind, f, draw(st.integers(0, len(WRAPPER_FIELDS) - 1)))
        if nf == 'ANY':
          nf = 'any'
        p = 'ANY'
        own = _owners(f)
        if own and draw(st.integers(0, 9)) < 3:
          p = [draw(st.sampled_from(own))]
        c = draw(st.sampled_from(['ANY', 'ANY', ['expr'], ['Call'], ['Call', 'Attribute', 'Subscript']]))
        pre.append({'p': p, 'f': nf, 'c': c, 'a': act})
        tags.append('near_field_rule=' + kind + ('(a_real_field)' if nf in F_POOL or nf in OPERAND_FIELDS else ''))
      else:
        t = draw(st.sampled_from(OCCURRING_TYPES + [x for x in OCCURRING_TYPES if TYPE_NEIGHBOURS[x]]))
        form = draw(st.sampled_from(['name_neighbour'] * 3 + ['sibling'] * 2 + ['wrapper']))
        if form == 'name_neighbour' and not TYPE_NEIGHBOURS[t]:
          form = 'sibling'
        if form == 'name_neighbour':
          u = draw(st.sampled_from(TYPE_NEIGHBOURS[t]))
        elif form == 'sibling':
          u = draw(st.sampled_from(TYPE_SIBLINGS[t]))
        else:
          u = draw(st.sampled_from(WRAPPER_TYPES))
        slot = draw(st.sampled_from(['p', 'c'] if t not in ('Return', 'Raise', 'If', 'For', 'With', 'Constant', 'Name') else
                                    (['c'] if t in ('Constant', 'Name') else ['p'])))
        r = {'p': 'ANY', 'f': 'ANY', 'c': 'ANY', 'a': act}
        r[slot] = [u]
        other = 'c' if slot == 'p' else 'p'
        if draw(st.integers(0, 9)) < 3:
          r[other] = ['expr'] if other == 'c' else [draw(st.sampled_from(P_POOL))]
        if slot == 'p' and draw(st.integers(0, 9)) < 3:
          own = [x for x in getattr(ast, t)._fields if x in F_POOL]
          if own:
            r['f'] = draw(st.sampled_from(own))
        pre.append(r)
        tags.append('near_type_rule=%s_as_%s' % (form, 'parent' if slot == 'p' else 'child'))
    if draw(st.integers(0, 9)) < 2:
      # an exact rule of the ordinary kind between / before the near-miss rules
      pre.insert(draw(st.integers(0, len(pre))), draw(rules()))
      tags.append('near_with_ordinary_rule')
    return fam, pre + base, tags
  if fam == 'by_field':
    # "name (or leave) everything that hangs under field F", parent and child unconstrained, followed by further rules
    # that must stay reachable for every other field
    f = draw(st.sampled_from(OPERAND_FIELDS))
    first = {'p': 'ANY', 'f': f, 'c': 'ANY', 'a': draw(st.sampled_from(['REPLACE', 'REPLACE', 'LEAVE']))}
    tail_kind = draw(st.sampled_from(['default', 'default', 'all_expr', 'rules', 'rules', 'by_field', 'last']))
    if tail_kind == 'default':
      tail = [dict(r) for r in DEFAULT_RULES]
    elif tail_kind == 'all_expr':
      tail = [{'p': 'ANY', 'f': 'ANY', 'c': ['expr'], 'a': 'REPLACE'}]
    elif tail_kind == 'rules':
      tail = [draw(rules()) for _ in range(draw(st.integers(1, 3)))]
    elif tail_kind == 'by_field':
      tail = [{'p': 'ANY', 'f': draw(st.sampled_from(OPERAND_FIELDS)), 'c': draw(st.sampled_from(['ANY', ['Call'], ['expr']])),
               'a': 'REPLACE'} for _ in range(draw(st.integers(1, 2)))]
    else:
      tail = []
    return fam, [first] + tail, ['by_field_tail=' + tail_kind]
  if fam == 'default_plus':
    pre = []
    for _ in range(draw(st.integers(1, 3))):
      if draw(st.booleans()):
        pre.append(draw(rules(child_pool=PURE_C, actions=['LEAVE'])))
      else:
        pre.append(draw(rules(child_pool=['Constant'], actions=['REPLACE'])))
    return fam, pre + [dict(r) for r in DEFAULT_RULES], []
  return fam, [draw(rules()) for _ in range(draw(st.integers(1, 4)))], []


_INT_STRATS = {}
STR_KEYS = ['k3', 'k4', 'k5']   # disjoint from the explicit keywords k1 / k2 of generated calls
# (callee, parameter list, int-valued parameter names visible in the body); call0 calls f(), callk calls f(k=3)
LAMBDA_FORMS = [('call0', '*, k=1', ['k']), ('call0', 'p=2, *, k=1, k2=0', ['p', 'k', 'k2']), ('call0', '*q, k=1', ['k']),
                ('callk', '*, k', ['k']), ('callk', 'p=1, *, k', ['p', 'k']), ('callk', '*q, k, k2=2', ['k', 'k2']),
                ('callk', 'p=1, *, k2=2, k', ['p', 'k', 'k2']), ('callk', '**kw', []), ('callk', '*, k, **kw', ['k'])]
_HUNDRED = list(range(100))
_DUMMY_SUB = ast.parse('q[u:v]').body[0].value


class Gen(object):
  """Constructive program generator; every choice is a Hypothesis draw."""

  def __init__(self, draw, family, cj, params):
    self.draw = draw
    self.family = family
    self.cj = cj
    self.max_depth = params['depth']
    self.max_nest = params['nest']
    self.budget = draw(st.integers(2, params['stmts']))
    self.lazy_ok = draw(st.integers(0, 99)) < {'partial': 50, 'by_child': 50, 'by_parent': 80}.get(family, 30)
    # a program carries at most two kinds of lazy construct, so that one kind decides acceptance
    self.lazy = set()
    if self.lazy_ok:
      kinds = ['bool', 'bool', 'ifexp', 'ifexp', 'chain', 'lam', 'comp', 'while', 'assert']
      if family in ('partial', 'by_parent', 'by_child'):
        kinds += ['bool', 'bool', 'ifexp', 'ifexp', 'chain']
      self.lazy.add(kinds[draw(st.integers(0, len(kinds) - 1))])
      if draw(st.integers(0, 3)) == 0:
        self.lazy.add(kinds[draw(st.integers(0, len(kinds) - 1))])
    elif family in ('default', 'default_explicit', 'default_plus') and draw(st.integers(0, 99)) < 15:
      # lambdas (mostly with a trivial body, which these configurations accept and name) with non-trivial parameter lists
      self.lazy.add('lam')
    self.markers = draw(st.integers(0, 99)) < 40
    self.keep_order_shapes = family in ('partial', 'none', 'by_parent', 'by_child', 'by_field') or draw(st.integers(0, 99)) < 12
    self.slices_ok = True   # F15 fixed: plain slices are handled under every configuration
    # mapping-valued locals m (int keys) / ms (str keys), bound by plain assignments in the prelude (never lifted):
    # sources for the ** entries of dict displays and for ** call arguments
    self.maps = draw(st.integers(0, 99)) < 50
    self.excluded = collections.Counter()
    self.nmark = 0
    # configurations that name only some edges: lazy operands are mostly nested, so that an edge
    # below the lazy construct's own operands can be the only one asked for
    self.deep_lazy = bool(self.lazy) and family in ('partial', 'by_parent', 'by_child')

  # -- draw helpers
  def pick(self, xs):
    n = len(xs)
    if n == 1:
      return xs[0]
    s = _INT_STRATS.get(n)
    if s is None:
      s = _INT_STRATS[n] = st.integers(0, n - 1)
    return xs[self.draw(s)]

  def pct(self, p):
    return self.pick(_HUNDRED) < p

  def weighted(self, pairs):
    xs = []
    for k, w in pairs:
      xs.extend([k] * w)
    return self.pick(xs)

  # -- expressions
  def atom(self, scope):
    return self.pick(scope + ['0', '1', '2', '3'])

  def base(self, d, scope):
    return self.pick(['o', 'o', 'o', 'o.sub', 't(o)', 't(o).sub'])

  def iexpr(self, d, scope):
    if d <= 0:
      return self.atom(scope)
    kinds = [('atom', 3), ('t', 8), ('rec', 3), ('meth', 2), ('attr', 2), ('sub', 2), ('slice', 1), ('bin', 4),
             ('un', 1), ('cmp', 1), ('coll', 2), ('disp', 2), ('callres', 1)]
    for lk, w in (('bool', 4), ('ifexp', 3), ('chain', 3), ('lam', 2), ('comp', 1)):
      if lk in self.lazy:
        kinds.append((lk, w))
    k = self.weighted(kinds)
    if k == 'atom':
      return self.atom(scope)
    if k == 't':
      return 't(%s)' % self.iexpr(d - 1, scope)
    if k == 'rec':
      return 'rec(%s)' % self.args(d, scope)
    if k == 'meth':
      return '%s.m(%s)' % (self.base(d, scope), self.args(d, scope))
    if k == 'attr':
      return '%s.x' % self.base(d, scope)
    if k == 'slice':
      if self.slices_ok:
        names = [s for s in scope if s.isidentifier()]
        lo, hi = self.pick(names + ['']), self.pick(names)
        st_ = self.pick(['', '', ':' + self.pick(names)])
        return '%s.b[%s:%s%s]' % (self.base(d, scope), lo, hi, st_)
      self.excluded['no_slice_hoisted'] += 1
      k = 'sub'
    if k == 'sub':
      return '%s.b[%s]' % (self.base(d, scope), self.iexpr(d - 1, scope))
    if k == 'bin':
      op = self.pick(['+', '-', '*'])
      if op == '*':
        # one factor is a small constant: values then grow at most geometrically even if a broken
        # transformation turns a bounded loop into one that runs until the step budget
        fac = self.pick(['0', '1', '2', '3'])
        other = self.iexpr(d - 1, scope)
        return '(%s * %s)' % ((fac, other) if self.pct(50) else (other, fac))
      return '(%s %s %s)' % (self.iexpr(d - 1, scope), op, self.iexpr(d - 1, scope))
    if k == 'un':
      return '(%s%s)' % (self.pick(['-', 'not ']), self.iexpr(d - 1, scope))
    if k == 'cmp':
      return '(%s %s %s)' % (self.iexpr(d - 1, scope), self.pick(['<', '<=', '==', '!=', '>']), self.iexpr(d - 1, scope))
    if k == 'coll':
      return 'rec(%s)' % self.coll(d - 1, scope)
    if k == 'disp':
      return self.disp(d - 1, scope)
    if k == 'callres':
      return self.pick(['t(rec)(%s)', 't(o).m(%s)', 't(t)(%s)']) % (
          self.args(d, scope) if self.pct(60) else self.iexpr(d - 1, scope))
    # lazy constructs; trivial operands (accepted by the default configuration) in ~40 % of the draws
    dd = 0 if self.pct(15 if self.deep_lazy else 40) else d - 1
    # the deciding operand is a plain variable in half of the draws, so both paths are taken over the inputs
    first = self.atom(scope) if self.pct(50) else self.iexpr(dd, scope)
    if k == 'bool':
      op = self.pick([' and ', ' or '])
      return '(%s)' % op.join([first] + [self.iexpr(dd, scope) for _ in range(self.pick([1, 1, 2]))])
    if k == 'ifexp':
      return '(%s if %s else %s)' % (self.iexpr(dd, scope), first, self.iexpr(dd, scope))
    if k == 'chain':
      return '(%s %s %s <= %s)' % (first, self.pick(['<', '>', '==']), self.atom(scope) if self.pct(50) else self.iexpr(dd, scope),
                                   self.iexpr(dd, scope))
    if k == 'lam':
      if self.pct(40):
        return 'call0(lambda: %s)' % self.iexpr(dd, scope)
      # parameter lists: keyword-only parameters with / without defaults (kw_defaults holds None for the latter),
      # *args, **kwargs; defaults are constants (default-value operands are outside the listed class)
      callee, params, new = self.pick(LAMBDA_FORMS)
      return '%s(lambda %s: %s)' % (callee, params, self.iexpr(dd, scope + new))
    return 'rec([%s for k in [1, 2]])' % self.iexpr(dd, scope + ['k'])

  def args(self, d, scope):
    parts = []
    for _ in range(self.pick([0, 1, 1, 2, 2, 3])):
      if self.pct(12):
        parts.append(self.pick(['*t([1, 2])', '*[%s, %s]' % (self.iexpr(d - 1, scope), self.iexpr(d - 1, scope)),
                                '*t((3,))']))
      else:
        parts.append(self.iexpr(d - 1, scope))
    for kw in ['k1', 'k2'][:self.pick([0, 0, 0, 1, 1, 2])]:
      parts.append('%s=%s' % (kw, self.iexpr(d - 1, scope)))
    if self.pct(8):
      form = self.pick(['t', 'disp', 'dict'] + (['name'] if self.maps else []))
      if form == 't':
        parts.append("**t({'k3': 1})")
      elif form == 'disp':
        parts.append("**{'k3': %s}" % self.iexpr(d - 1, scope))
      elif form == 'name':
        parts.append('**ms')
      else:
        parts.append('**' + self.dictdisp(d - 1, scope, keys='str'))
    return ', '.join(parts)

  def mapsrc(self, d, scope, keys):
    """A mapping-valued expression (the operand of a ** entry): local name, call result, display."""
    form = self.weighted([('call', 3), ('disp', 2), ('nested', 1 if d > 0 else 0)] + ([('name', 4), ('tname', 1)] if self.maps else []))
    name = 'm' if keys == 'int' else 'ms'
    if form == 'name':
      return name
    if form == 'tname':
      return 't(%s)' % name
    if form == 'call':
      if keys == 'int':
        return self.pick(['t({1: 2})', 't({})', 't({2: 0, 7: 1})', 't({0: %s})' % self.atom(scope)])
      return self.pick(["t({'k3': 1})", 't({})', "t({'k4': %s})" % self.atom(scope)])
    if form == 'nested':
      return self.dictdisp(d - 1, scope, keys)
    k = self.iexpr(d, scope) if keys == 'int' else repr(self.pick(STR_KEYS))
    return '{%s: %s}' % (k, self.iexpr(d, scope))

  def dictdisp(self, d, scope, keys='int', star=35, last=None):
    """A dict display; every entry is a ** unpacking with probability star %."""
    ents = []
    for _ in range(self.pick([1, 2, 2, 3])):
      if self.pct(star):
        ents.append('**' + self.mapsrc(d, scope, keys))
      else:
        k = self.iexpr(d, scope) if keys == 'int' else repr(self.pick(STR_KEYS))
        ents.append('%s: %s' % (k, self.iexpr(d, scope)))
    if last:
      ents.append(last)
    return '{%s}' % ', '.join(ents)

  def disp(self, d, scope):
    """An int/bool-valued expression holding a collection display in an operand position other than
    'sole positional argument of rec': keyword value, starred / ** argument, method argument, subscript
    base, compare operand, element / value / ** source of another display."""
    form = self.weighted([('arg', 3), ('kw', 2), ('star', 2), ('dstar', 3), ('index', 3), ('in', 2), ('eq', 1), ('nest', 3)])
    if form == 'arg':
      return self.pick(['o.m(%s)', 'rec(0, %s)', 't(o).m(%s)', 'len(%s)']) % self.coll(d, scope)
    if form == 'kw':
      return self.pick(['rec(k1=%s)', 'o.m(1, k2=%s)']) % self.coll(d, scope)
    if form == 'star':
      return self.pick(['rec(*%s)', 'o.m(*%s)', 'rec(1, *%s)']) % self.coll(d, scope)
    if form == 'dstar':
      return self.pick(['rec(**%s)', 'rec(1, k1=2, **%s)', 'o.m(**%s)']) % self.dictdisp(d, scope, keys='str', star=50)
    if form == 'index':
      kind = self.pick(['dict', 'dict', 'list', 'tuple'])
      if kind == 'dict':
        return '%s[9]' % self.dictdisp(d, scope, star=50, last='9: %s' % self.iexpr(d, scope))
      first = '*t([1, 2])' if self.pct(25) else self.iexpr(d, scope)
      body = '%s, %s' % (first, self.iexpr(d, scope))
      return ('[%s][%s]' if kind == 'list' else '(%s)[%s]') % (body, self.pick(['0', '1', '-1']))
    if form == 'in':
      return '(%s in %s)' % (self.iexpr(d, scope), self.coll(d, scope))
    if form == 'eq':
      return '(%s %s %s)' % (self.coll(max(d - 1, 0), scope), self.pick(['==', '!=']), self.coll(max(d - 1, 0), scope))
    inner = self.coll(d, scope) if self.pct(50) else self.dictdisp(d, scope, star=50)
    outer = self.pick(['[%(c)s, %(e)s]', '(%(e)s, %(c)s)', '[*%(c)s, %(e)s]', '{%(e)s: %(c)s}', '{**{%(e)s: %(c)s}}',
                       '{%(e)s, *%(c)s}'])
    return 'rec(%s)' % (outer % {'c': inner, 'e': self.iexpr(d, scope)})

  def coll(self, d, scope):
    kind = self.pick(['tuple', 'list', 'set', 'dict', 'dict'])
    n = self.pick([1, 2, 2, 3])
    if kind == 'dict':
      return self.dictdisp(d, scope)
    elts = []
    for _ in range(n):
      elts.append('*t([1, 2])' if self.pct(10) else self.iexpr(d, scope))
    if kind == 'tuple':
      return '(%s,)' % ', '.join(elts)
    if kind == 'list':
      return '[%s]' % ', '.join(elts)
    return '{%s}' % ', '.join(elts)

  def expr(self, scope, lo=1):
    if self.deep_lazy and lo < 2:
      lo = 2
    return self.iexpr(self.pick(list(range(lo, self.max_depth + 1))), scope)

  # -- exclusion of known-finding shapes
  def flagged(self, text):
    tree = ast.parse(text)
    shapes = finding_shapes(tree)
    if 'slice' in shapes and slice_hoisted(tree, self.cj):
      shapes.add('no_slice_hoisted')
    shapes.discard('slice')
    for f in HARD_FLAGS:
      if f in shapes:
        return f
    if not self.keep_order_shapes:
      for f in ORDER_FLAGS:
        if f in shapes:
          return f
    return None

  def accepted(self, make, suffix='', fallback='x = t(1)', tries=5):
    """Draws a statement (header) until it is outside every excluded shape (<= 5 draws). Every
    draw that had to be redirected is counted once, under the flag of the first shape it hit."""
    first = None
    for _ in range(tries):
      text = make()
      f = self.flagged(text + suffix)
      if f is None:
        if first:
          self.excluded[first] += 1
          self.excluded['redirected:redrawn'] += 1
        return text
      first = first or f
    self.excluded[first] += 1
    self.excluded['redirected:fallback'] += 1
    return fallback

  # -- statements
  def target(self, scope, names):
    k = self.weighted([('name', 5), ('attr', 2), ('sub', 2), ('callattr', 1)])
    if k == 'name':
      return self.pick(names)
    if k == 'attr':
      return self.pick(['o.x', 'o.sub.x'])
    if k == 'sub':
      return '%s.b[%s]' % (self.base(1, scope), self.expr(scope, 0) if self.pct(70) else self.atom(scope))
    return self.pick(['t(o).x', 't(o).sub.x', 't(o).b[%s]' % self.atom(scope)])

  def simple(self, scope, names, in_loop, in_def):
    kinds = [('assign', 7), ('aug', 2), ('expr', 4), ('del', 1), ('ret', 1), ('raise', 1), ('ann', 1), ('pass', 1)]
    if in_loop:
      kinds.append(('jump', 1))
    if 'assert' in self.lazy:
      kinds.append(('assert', 3))
    if 'lam' in self.lazy and not in_def:
      kinds.append(('retlam', 1))
    if 'lam' in self.lazy:
      kinds.append(('lamcall', 4))
    k = self.weighted(kinds)
    if k == 'assign':
      form = self.weighted([('one', 6), ('chain', 1), ('tuple', 1), ('mixed', 1), ('coll', 1)])
      if form == 'one':
        return self.accepted(lambda: '%s = %s' % (self.target(scope, names), self.expr(scope)))
      if form == 'chain':
        return self.accepted(lambda: '%s = %s = %s' % (self.target(scope, names), self.target(scope, names), self.expr(scope)))
      if form == 'tuple':
        return self.accepted(lambda: '%s, %s = %s, %s' % (names[0], names[-1], self.expr(scope), self.expr(scope)))
      if form == 'mixed':
        return self.accepted(lambda: '%s, %s = %s, %s' % (self.target(scope, names), self.target(scope, names),
                                                         self.expr(scope), self.expr(scope)))
      return self.accepted(lambda: '%s = rec(%s)' % (self.pick(names), self.coll(self.draw(st.integers(0, self.max_depth - 1)), scope)))
    if k == 'aug':
      return self.accepted(lambda: '%s %s= %s' % (self.target(scope, names), self.pick(['+', '-', '+', '-', '|', '^']), self.expr(scope)))
    if k == 'expr':
      return self.accepted(lambda: self.pick(['t(%s)' % self.expr(scope, 0), 'rec(%s)' % self.args(self.max_depth, scope),
                                              'o.m(%s)' % self.args(self.max_depth, scope), self.expr(scope)]))
    if k == 'del':
      return self.accepted(lambda: 'del ' + ', '.join('%s.b[%s]' % (self.base(1, scope), self.expr(scope, 0))
                                                     for _ in range(self.pick([1, 1, 2]))))
    if k == 'ret' and in_def:
      return self.accepted(lambda: 'return %s' % self.expr(scope), fallback='return p')
    if k == 'ret':
      return self.accepted(lambda: self.pick(['return %s' % self.expr(scope), 'return %s' % self.coll(self.max_depth - 1, scope),
                                              'return %s, %s' % (self.expr(scope), self.expr(scope))]))
    if k == 'raise':
      return self.accepted(lambda: self.pick(['raise err(%s)' % self.expr(scope, 0),
                                              'raise err(%s) from err(%s)' % (self.expr(scope, 0), self.expr(scope, 0))]))
    if k == 'ann':
      return self.accepted(lambda: '%s: int = %s' % (self.pick(names), self.expr(scope)),
                           fallback='%s = %s' % (self.pick(names), self.atom(scope)), tries=1)
    if k == 'jump':
      return self.pick(['break', 'continue'])
    if k == 'assert':
      return self.pick(['assert %s' % self.atom(scope), "assert %s, 'm'" % self.pick(names), 'assert t(1), t(2)'])
    if k == 'retlam':
      return 'return lambda: %s' % self.expr(scope)
    if k == 'lamcall':
      # a lambda with a non-trivial parameter list as a call argument; the body is trivial (accepted) in ~75 % of the draws
      callee, params, new = self.pick(LAMBDA_FORMS)
      body = self.atom(scope + new) if self.pct(75) else self.expr(scope + new)
      return self.pick(['%s = %%s' % self.pick(names), 'return %s', 'rec(%s, 1)', 'return t(%s), 2']) % (
          '%s(lambda %s: %s)' % (callee, params, body))
    return 'pass'

  def block(self, nest, scope, names, in_loop, in_def, n=None):
    lines = []
    for _ in range(n if n is not None else self.pick([1, 1, 2, 2, 3])):
      if self.budget <= 0:
        break
      lines.extend(self.stmt(nest, scope, names, in_loop, in_def))
    return lines or ['pass']

  def indent(self, lines):
    return ['  ' + l for l in lines]

  def stmt(self, nest, scope, names, in_loop, in_def):
    self.budget -= 1
    out = []
    if self.markers:
      self.nmark += 1
      out.append('mark(%d)' % self.nmark)
    kinds = [('simple', 10)]
    if nest < self.max_nest:
      kinds += [('if', 3), ('for', 3), ('with', 3), ('try', 2), ('while', 4 if 'while' in self.lazy else 1)]
      if not in_def:
        kinds.append(('def', 1))
    k = self.weighted(kinds)
    if k == 'simple':
      s = self.simple(scope, names, in_loop, in_def)
      if s.startswith(('break', 'continue')):
        return out + ['if %s:' % self.atom(scope), '  ' + s]
      return out + s.split('\n')
    sub = lambda sc=scope, loop=in_loop: self.indent(self.block(nest + 1, sc, names, loop, in_def))
    if k == 'if':
      out.append(self.accepted(lambda: 'if %s:' % (self.coll(self.pick([0, 1, 2]), scope) if self.pct(10) else self.expr(scope, 0)),
                               ' pass', 'if t(a):'))
      out += sub()
      if self.pct(25):
        out.append('el' + self.accepted(lambda: 'if %s:' % self.expr(scope, 0), ' pass', 'if t(b):'))
        out += sub()
      if self.pct(45):
        out.append('else:')
        out += sub()
      return out
    if k == 'for':
      v = 'i' if 'i' not in scope else ('j' if 'j' not in scope else 'i')
      def mk():
        it = self.weighted([('range', 3), ('list', 3), ('tuple', 1), ('tl', 2), ('dict', 2), ('starred', 1)])
        if it == 'range':
          e = 'range(t(%s))' % self.pick(['0', '1', '2', '2', '3'])
        elif it == 'list':
          e = '[%s]' % ', '.join(self.expr(scope, 0) for _ in range(self.pick([1, 2, 2, 3])))
        elif it == 'tuple':
          e = '(%s, %s)' % (self.expr(scope, 0), self.expr(scope, 0))
        elif it == 'dict':
          e = self.dictdisp(self.pick([0, 1, 2]), scope, star=50)
        elif it == 'starred':
          e = self.pick(['[*t([1, 2]), %s]', '(%s, *t((3,)))', '[*[%s]]']) % self.expr(scope, 0)
        else:
          e = self.pick(['t([1, 2])', 't([])', 't((%s,))' % self.atom(scope)])
        return 'for %s in %s:' % (v, e)
      out.append(self.accepted(mk, ' pass', 'for %s in t([1]):' % v))
      out += sub(scope + [v], True)
      if self.pct(35):
        out.append('else:')
        out += sub()
      return out
    if k == 'with':
      form = self.weighted([('one', 4), ('as', 4), ('multi', 2), ('names', 1), ('tup', 1)])
      if form == 'names':
        out.append(self.accepted(lambda: 'c1 = cm(%s)' % self.expr(scope, 0), fallback='c1 = cm(1)'))
        out.append(self.accepted(lambda: 'c2 = cm(%s)' % self.expr(scope, 0), fallback='c2 = cm(2)'))
        out.append(self.pick(['with c1 as q, c2:', 'with c1, c2 as q:', 'with c1, c2:']))
        out += sub(scope + ['q'] if ' as q' in out[-1] else scope)
        return out
      def mk():
        if form == 'one':
          return 'with cm(%s):' % self.expr(scope, 0)
        if form == 'as':
          return 'with cm(%s) as q:' % self.expr(scope, 0)
        if form == 'multi':
          return 'with cm(%s) as q, cm(%s):' % (self.expr(scope, 0), self.expr(scope, 0))
        return self.pick(['with cmt(%s) as (q, r):', 'with cm(%s) as o.x:', 'with cm(%s) as o.b[1]:']) % self.expr(scope, 0)
      hdr = self.accepted(mk, ' pass', 'with cm(1) as q:', tries=1 if form in ('multi', 'tup') else 5)
      if form == 'multi' and hdr == 'with cm(1) as q:':
        # redirected to the nested form, which is what the single-statement form means
        out.append(self.accepted(lambda: 'with cm(%s) as q:' % self.expr(scope, 0), ' pass', 'with cm(1) as q:'))
        inner = self.accepted(lambda: 'with cm(%s):' % self.expr(scope, 0), ' pass', 'with cm(2):')
        out += self.indent([inner] + sub(scope + ['q']))
        return out
      out.append(hdr)
      out += sub(scope + ['q'] if ' as q' in hdr and '(q' not in hdr else scope)
      return out
    if k == 'try':
      out.append('try:')
      out += sub()
      fin = self.pct(35)
      if self.pct(80) or not fin:
        out.append(self.pick(['except E1:', 'except E1 as e:', 'except (E1, KeyError):']))
        out += sub()
        if self.pct(25):
          out.append('else:')
          out += sub()
      if fin:
        out.append('finally:')
        out += sub()
      return out
    if k == 'while':
      # one counter per nesting level (an inner loop left by break must not disturb the outer count)
      w = [c for c in ('w', 'v', 'u', 'n') if c not in scope][0]
      out.append('%s = %s' % (w, self.pick(['0', '1', '2', '3'])))
      if 'while' in self.lazy and self.pct(60):
        out.append(self.pick(['while t(%s):', 'while (%s - t(0)):', 'while o.b[%s + 3]:', 'while t(t(%s)):']) % w)
      else:
        out.append('while %s:' % w)
      out.append('  %s = %s - 1' % (w, w))
      out += sub(scope + [w], True)
      return out
    # nested def
    out.append('def g(p):')
    body = self.block(nest + 1, ['p', 'a', 'b'], ['p'], False, True)
    out += self.indent(body + ['return p'])
    out.append(self.accepted(lambda: '%s = g(%s)' % (self.pick(names), self.expr(scope, 0)), fallback='x = g(1)'))
    return out

  def program(self):
    body = []
    while self.budget > 0:
      body.extend(self.stmt(0, ['a', 'b', 'x', 'y'], ['x', 'y'], False, False))
    pre = ['  m = {0: a, 5: 2}', "  ms = {'k3': b}"] if self.maps else []
    lines = ['def f(a, b):', '  x = 1', '  y = 2'] + pre + self.indent(body) + ['  return (x, y)']
    return '\n'.join(lines) + '\n'


INPUTS = [[0, 0], [0, 1], [1, 0], [2, 3], [3, 1]]


@st.composite
def cases(draw, params):
  fam, cj, tags = draw(configs())
  g = Gen(draw, fam, cj, params)
  src = g.program()
  inputs = draw(st.lists(st.sampled_from(INPUTS), min_size=2, max_size=3, unique_by=lambda x: tuple(x)))
  return {'case': {'src': src, 'inputs': inputs, 'config': cj}, 'family': fam, 'excluded': dict(g.excluded),
          'markers': g.markers, 'kept': g.keep_order_shapes, 'maps': g.maps, 'cfg_tags': tags}


# ================================================================================================
# runner API


def budget(tier):
  if tier == 'thorough':
    return {'programs': 48000, 'depth': 4, 'nest': 3, 'stmts': 12, 'shrink_s': 60, 'wall_cap': 1500}
  return {'programs': 4800, 'depth': 3, 'nest': 2, 'stmts': 8, 'shrink_s': 15, 'wall_cap': 600}


_HAS = {ast.If: 'if', ast.For: 'for', ast.With: 'with', ast.Try: 'try', ast.While: 'while', ast.AugAssign: 'augassign',
        ast.Delete: 'del', ast.Raise: 'raise', ast.Starred: 'starred', ast.keyword: 'keyword', ast.Dict: 'dict',
        ast.Set: 'set', ast.List: 'list', ast.Tuple: 'tuple', ast.Slice: 'slice', ast.Compare: 'compare',
        ast.UnaryOp: 'unary', ast.BinOp: 'binop', ast.Subscript: 'subscript', ast.Attribute: 'attribute'}


def structure(tree):
  out = set()
  for n in ast.walk(tree):
    k = _HAS.get(type(n))
    if k:
      out.add('has:' + k)
    if isinstance(n, ast.For) and n.orelse:
      out.add('has:for-else')
    if isinstance(n, ast.Try) and n.finalbody:
      out.add('has:try-finally')
    if isinstance(n, ast.With) and len(n.items) > 1:
      out.add('has:with-multi-item')
    if isinstance(n, ast.FunctionDef) and n.name == 'g':
      out.add('has:nested-def')
    if isinstance(n, ast.Raise) and n.cause is not None:
      out.add('has:raise-from')
    if isinstance(n, ast.keyword) and n.arg is None:
      out.add('has:double-star')
    if isinstance(n, ast.Call) and isinstance(n.func, ast.Call):
      out.add('has:call-result-as-callee')
    if isinstance(n, ast.Attribute) and isinstance(n.value, ast.Call):
      out.add('has:call-as-attribute-base')
    if isinstance(n, (ast.Assign, ast.AugAssign)):
      tg = n.targets if isinstance(n, ast.Assign) else [n.target]
      if isinstance(n, ast.Assign) and len(tg) > 1:
        out.add('has:chained-assign')
      for t_ in tg:
        if isinstance(t_, (ast.Attribute, ast.Subscript)):
          out.add('has:%s-target' % type(t_).__name__.lower())
          if _has_call(t_):
            out.add('has:impure-target')
        if isinstance(t_, ast.Tuple):
          out.add('has:tuple-target')
    if isinstance(n, ast.Dict) and any(k is None for k in n.keys):
      out.add('has:dict-unpack')
      if len(n.keys) > 1 and n.keys[-1] is None:
        out.add('has:dict-unpack-after-pairs-or-other-unpack')
      for k, v in zip(n.keys, n.values):
        if k is None:
          out.add('dict-unpack-source=' + ('name' if isinstance(v, ast.Name) else 'call' if isinstance(v, ast.Call) else
                                           'display' if isinstance(v, ast.Dict) else 'other'))
    if isinstance(n, ast.Lambda):
      a = n.args
      if a.kwonlyargs:
        out.add('has:lambda-kwonly-params')
      if any(x is None for x in a.kw_defaults):
        out.add('has:lambda-kwonly-param-without-default')
      if a.vararg or a.kwarg:
        out.add('has:lambda-vararg-or-kwarg')
    for parent, field, child in operand_edges(n):
      if isinstance(child, _DISPLAYS) and isinstance(getattr(child, 'ctx', None) or ast.Load(), ast.Load):
        holder = getattr(parent, field)
        holder = holder if isinstance(holder, list) else [holder]
        via = ''
        for it in holder:
          if isinstance(it, ast.Starred) and it.value is child:
            via = '*'
          if isinstance(it, ast.keyword) and it.value is child:
            via = '**' if it.arg is None else 'kw='
        if isinstance(parent, ast.Dict) and field == 'values' and parent.keys[parent.values.index(child)] is None:
          via = '**'
        out.add('display-at:%s.%s%s' % (type(parent).__name__, field, ':' + via if via else ''))
  return out


_DISPLAYS = (ast.Dict, ast.Set, ast.List, ast.Tuple)


def _has_none_entry(n):
  for x in ast.walk(n):
    for f, v in ast.iter_fields(x):
      if isinstance(v, list) and any(it is None for it in v):
        return type(x).__name__ + '.' + f
  return None


def named_none_entries(tree, cj):
  """Edges the configuration asks to be named whose child subtree has a list field with a None entry
  (Dict.keys of a ** entry, arguments.kw_defaults of a keyword-only parameter without default): the
  shapes whose hoisting must carry positional None placeholders along."""
  out = set()
  for p in ast.walk(tree):
    for parent, field, child in operand_edges(p):
      if _is_trivially_exempt(child):
        continue
      w = _has_none_entry(child)
      if w:
        try:
          if asks(cj, parent, field, child):
            out.add(w)
        except Exception:
          pass
  return out


_REAL_FIELDS = set(f for n in _AST_CLASSES for f in getattr(ast, n)._fields)


def config_classes(tree, cj):
  """Coverage labels about the rule list itself and about how close it comes to the edges of the program."""
  out = set()
  if cj is None:
    return out
  specific = [r for r in cj if not r.get('any')]
  for i, r in enumerate(specific):
    if r['f'] != 'ANY':
      out.add('rule_field:' + ('names_an_operand_field' if r['f'] in OPERAND_FIELDS else
                               'names_a_non_operand_ast_field' if r['f'] in _REAL_FIELDS else 'names_no_ast_field'))
      if r['p'] == 'ANY' and r['c'] == 'ANY' and r is not cj[-1]:
        out.add('rule_with_only_a_field_followed_by_more_rules')
    for slot in ('p', 'c'):
      if r[slot] != 'ANY' and any(n in WRAPPER_TYPES or n in ('ListComp', 'SetComp', 'DictComp') or
                                  not issubclass(getattr(ast, n), (ast.expr, ast.stmt)) for n in r[slot]):
        out.add('rule_type:wrapper_or_non_operand_type_as_' + ('parent' if slot == 'p' else 'child'))
  lf = lt = 0
  pairs = set()
  for p in ast.walk(tree):
    for e in operand_edges(p):
      if _is_trivially_exempt(e[2]):
        continue
      try:
        exact = asks(cj, *e)
        if asks(cj, *e, loose_field=True) != exact:
          lf += 1
          for r in specific:
            if r['f'] != 'ANY' and r['f'] != e[1] and _loose_field(e[1], r['f']):
              pairs.add('rule_field_is_empty' if not r['f'] else 'rule_field_contains_edge_field' if e[1] in r['f'] else
                        'edge_field_contains_rule_field' if r['f'] in e[1] else 'fields_differ_in_case')
        if asks(cj, *e, loose_type=True) != exact:
          lt += 1
      except Exception:
        pass
  if lf:
    out.add('exact_field_equality_observable')   # some edge is decided differently by a substring / case-blind comparison
    for x in sorted(pairs):
      out.add('exact_field_equality_observable:' + x)
  if lt:
    out.add('isinstance_vs_type_name_prefix_observable')
  return out


def shard(ctx, acc):
  b = ctx.budget
  n = ctx.share('programs')
  params = {'depth': b.get('depth', 3), 'nest': b.get('nest', 2), 'stmts': b.get('stmts', 8)}

  def body(g):
    case = g['case']
    fails, info = run_case(case)
    tree0 = ast.parse(case['src'])
    classes = ['family=' + g['family']]
    classes.append('accepted' if info['accepted'] else 'rejected:' + str(info['rejected']))
    if info['accepted']:
      classes.append('order_clause=' + ('exact' if info['order_asserted'] else 'multiset-per-segment'))
      if info['order_safe'] and case['config'] is not None:
        classes.append('order_safe_nondefault_config')
      for s in info['shapes']:
        classes.append('kept_shape_order_unasserted:' + s)
      classes.append('temps=%s' % ('0' if not info['ntemps'] else '1-4' if info['ntemps'] < 5 else '5-19' if info['ntemps'] < 20 else '20+'))
      classes.extend(sorted(structure(tree0)))
      for w in sorted(named_none_entries(tree0, case['config'])):
        classes.append('named_subtree_with_None_list_entry:' + w)
      classes.extend(sorted(config_classes(tree0, case['config'])))
      classes.extend(g.get('cfg_tags') or [])
    for k in info['lazy']:
      classes.append('lazy:' + k + (':accepted' if info['accepted'] else ':rejected'))
    if g['markers']:
      classes.append('statement_markers')
    if g.get('maps'):
      classes.append('mapping_locals_in_prelude')
    if g['family'] in ('partial', 'default_plus', 'by_parent', 'by_child') and info['accepted']:
      classes.append('%s_config_%s' % (g['family'], 'names_something' if info['ntemps'] else 'names_nothing_here'))
    if info.get('generator_slip'):
      classes.append('generator_slip')
      acc.notes.append(info['generator_slip'])
    for k, v in g['excluded'].items():
      acc.count(k if k.startswith('redirected:') else 'excluded:' + k, v)
    ncalls = _logging_calls_per_stmt(tree0)
    nontriv = bool(info['accepted'] and info['order_asserted'] and ncalls >= 2 and info['max_seg'] >= 2)
    size = len(case['src'])
    sample = None
    if nontriv and (len(acc.samples) < acc.MAX_SAMPLES or size > (acc.biggest[0] if acc.biggest else 0)):
      sample = {'src': case['src'], 'config': case['config'], 'inputs': case['inputs'], 'out': info['out_src']}
    acc.case(key=common.h8([case['src'], case['config']]), nontrivial=nontriv, classes=classes, sample=sample, size=size)
    for bkt, d in fails:
      acc.fail(bkt, case, d)

  common.hyp_run(ctx, cases(params), body, n)


def replay(case):
  fails, info = run_case(case)
  return [{'bucket': b, 'detail': d} for b, d in fails]


def shrink(case, bucket, deadline):
  return shrinker.shrink_case(case, bucket, replay, deadline)
