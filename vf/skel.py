"""Control-flow skeletons with a decision oracle (C05; also used by C06/C07 exhaustive parts).

A skeleton is a nested tuple structure; render() turns it into a function

    def f():
      ...   tests are `dec()`, for loops iterate `trips()`, raises raise E1()/E2()

so that (skeleton, decision vector) fixes exactly one execution; all decision vectors up to a
bound can be enumerated.
"""
import functools
import itertools

import hypothesis.strategies as st

# statement forms:
#  ('s',) ('break',) ('continue',) ('return',) ('raise', k)
#  ('if', body, orelse) ('while', body, orelse) ('for', body, orelse)
#  ('try', body, handlers, orelse, final)   handlers: tuple of (type_index, as_name?, body)
#  ('with', body, as_name?) ('def', body) ('lam',) ('class',)

HANDLER_TYPES = ['E1', 'E2', '(E1, E2)', 'Exception']


def render(block, ind=1, counter=None):
  counter = counter if counter is not None else itertools.count()
  out = []
  sp = '  ' * ind
  for s in block:
    k = s[0]
    if k == 's':
      out.append('%sv%d = nop()' % (sp, next(counter) % 3))
    elif k in ('break', 'continue', 'return'):
      out.append(sp + k)
    elif k == 'raise':
      out.append('%sraise E%d()' % (sp, s[1]))
    elif k == 'if':
      out.append('%sif dec():' % sp)
      out += render(s[1], ind + 1, counter)
      if s[2] is not None:
        out.append('%selse:' % sp)
        out += render(s[2], ind + 1, counter)
    elif k == 'while':
      out.append('%swhile dec():' % sp)
      out += render(s[1], ind + 1, counter)
      if s[2] is not None:
        out.append('%selse:' % sp)
        out += render(s[2], ind + 1, counter)
    elif k == 'for':
      out.append('%sfor i%d in trips():' % (sp, ind))
      out += render(s[1], ind + 1, counter)
      if s[2] is not None:
        out.append('%selse:' % sp)
        out += render(s[2], ind + 1, counter)
    elif k == 'try':
      out.append('%stry:' % sp)
      out += render(s[1], ind + 1, counter)
      for ti, as_, hb in s[2]:
        out.append('%sexcept %s%s:' % (sp, HANDLER_TYPES[ti], ' as ex' if as_ else ''))
        out += render(hb, ind + 1, counter)
      if s[3] is not None:
        out.append('%selse:' % sp)
        out += render(s[3], ind + 1, counter)
      if s[4] is not None:
        out.append('%sfinally:' % sp)
        out += render(s[4], ind + 1, counter)
    elif k == 'with':
      out.append('%swith cm()%s:' % (sp, ' as c' if s[2] else ''))
      out += render(s[1], ind + 1, counter)
    elif k == 'def':
      n = next(counter)
      out.append('%sdef g%d():' % (sp, n))
      out += render(s[1], ind + 1, counter)
      out.append('%sg%d()' % (sp, n))
    elif k == 'lam':
      out.append('%sh = lambda: dec()' % sp)
    elif k == 'class':
      out.append('%sclass K:' % sp)
      out.append('%s  x = nop()' % sp)
    else:
      raise AssertionError(k)
  return out


def source(block, name='f'):
  return 'def %s():\n' % name + '\n'.join(render(block)) + '\n'


PRELUDE = '''
class E1(Exception): pass
class E2(Exception): pass
_D = []
def dec():
  return bool(_D.pop(0)) if _D else False
def trips():
  return range(_D.pop(0)) if _D else range(0)
def nop():
  return 0
class cm(object):
  def __enter__(self): return 1
  def __exit__(self, *a): return False
'''


def size(block):
  n = 0
  for s in block:
    n += 1
    for part in s[1:]:
      if isinstance(part, tuple) and part and isinstance(part[0], tuple):
        if s[0] == 'try' and part is s[2]:
          for h in part:
            n += size(h[2])
        else:
          n += size(part)
  return n


# ---- bounded-exhaustive enumeration ------------------------------------------------------------

def _splits(n, k):
  """All ways to write n as an ordered sum of k positive ints."""
  if k == 1:
    yield (n,)
    return
  for first in range(1, n - k + 2):
    for rest in _splits(n - first, k - 1):
      yield (first,) + rest


@functools.lru_cache(maxsize=None)
def blocks(n, in_loop, in_finally):
  """All blocks with exactly n statement nodes (tuple of tuples). Statements after a jump in
  the same block are not generated."""
  if n == 0:
    return ((),)
  out = []
  for first_size in range(1, n + 1):
    for s in stmts(first_size, in_loop, in_finally):
      rest_n = n - first_size
      if rest_n == 0:
        out.append((s,))
      elif s[0] in ('break', 'continue', 'return', 'raise'):
        continue
      else:
        for rest in blocks(rest_n, in_loop, in_finally):
          out.append((s,) + rest)
  return tuple(out)


@functools.lru_cache(maxsize=None)
def stmts(n, in_loop, in_finally):
  """All single statements with exactly n nodes in total."""
  out = []
  if n == 1:
    out.append(('s',))
    if not in_finally:
      out.append(('return',))
      out.append(('raise', 1))
      if in_loop:
        out.append(('break',))
        out.append(('continue',))
    return tuple(out)
  m = n - 1
  # if without else
  for b in blocks(m, in_loop, in_finally):
    out.append(('if', b, None))
  # loops: bodies may use break/continue
  for b in blocks(m, True, in_finally):
    out.append(('while', b, None))
    out.append(('for', b, None))
  for b in blocks(m, in_loop, in_finally):
    out.append(('with', b, False))
  # if / else
  for a in range(1, m):
    for b1 in blocks(a, in_loop, in_finally):
      for b2 in blocks(m - a, in_loop, in_finally):
        out.append(('if', b1, b2))
  # try/finally
  for a in range(1, m):
    for b1 in blocks(a, in_loop, in_finally):
      for b2 in blocks(m - a, in_loop, True):
        out.append(('try', b1, (), None, b2))
  # try/except E1
  for a in range(1, m):
    for b1 in blocks(a, in_loop, in_finally):
      for b2 in blocks(m - a, in_loop, in_finally):
        out.append(('try', b1, ((0, False, b2),), None, None))
  # try/except/finally
  for a, b, c in (sp for sp in _splits(m, 3)) if m >= 3 else ():
    for b1 in blocks(a, in_loop, in_finally):
      for b2 in blocks(b, in_loop, in_finally):
        for b3 in blocks(c, in_loop, True):
          out.append(('try', b1, ((0, False, b2),), None, b3))
  return tuple(out)


def count_enumerated(maxn):
  return sum(len(blocks(n, False, False)) for n in range(1, maxn + 1))


def enumerated(maxn):
  for n in range(1, maxn + 1):
    for b in blocks(n, False, False):
      yield b


def vectors(maxlen, maxval=2):
  """All decision vectors over {0..maxval} of length <= maxlen, without trailing zeros
  (an exhausted vector reads as 0, so trailing zeros are redundant)."""
  yield ()
  for n in range(1, maxlen + 1):
    for v in itertools.product(range(maxval + 1), repeat=n):
      if v[-1] != 0:
        yield v


# ---- random skeletons (Hypothesis) -------------------------------------------------------------

@st.composite
def skeletons(draw, max_depth=4, max_block=4, jumps_in_handlers=True):
  def block(depth, in_loop, in_fin, allow_handler_jump=True):
    n = draw(st.integers(1, max_block))
    out = []
    for _ in range(n):
      s = stmt(depth, in_loop, in_fin, allow_handler_jump)
      out.append(s)
      if s[0] in ('break', 'continue', 'return', 'raise'):
        break
    return tuple(out)

  def stmt(depth, in_loop, in_fin, ahj):
    kinds = ['s', 's', 's']
    if not in_fin and ahj:
      kinds += ['return', 'raise', 'raise']
      if in_loop:
        kinds += ['break', 'continue', 'break', 'continue']
    elif not in_fin:
      kinds += ['raise']
    if depth < max_depth:
      kinds += ['if', 'if', 'ifelse', 'while', 'for', 'try', 'try', 'try', 'with', 'def', 'lam', 'class', 'whileelse', 'forelse']
    k = draw(st.sampled_from(kinds))
    d = depth + 1
    if k in ('s', 'break', 'continue', 'return', 'lam', 'class'):
      return (k,)
    if k == 'raise':
      return ('raise', draw(st.integers(1, 2)))
    if k == 'if':
      return ('if', block(d, in_loop, in_fin, ahj), None)
    if k == 'ifelse':
      return ('if', block(d, in_loop, in_fin, ahj), block(d, in_loop, in_fin, ahj))
    if k == 'while':
      return ('while', block(d, True, in_fin, ahj), None)
    if k == 'for':
      return ('for', block(d, True, in_fin, ahj), None)
    if k == 'whileelse':
      return ('while', block(d, True, in_fin, ahj), block(d, in_loop, in_fin, ahj))
    if k == 'forelse':
      return ('for', block(d, True, in_fin, ahj), block(d, in_loop, in_fin, ahj))
    if k == 'with':
      return ('with', block(d, in_loop, in_fin, ahj), draw(st.booleans()))
    if k == 'def':
      return ('def', block(d, False, False, True))
    if k == 'try':
      has_fin = draw(st.booleans())
      nh = draw(st.integers(0 if has_fin else 1, 2))
      body = block(d, in_loop, in_fin, ahj)
      hs = []
      for _ in range(nh):
        hj = ahj and (jumps_in_handlers or not has_fin)
        hs.append((draw(st.integers(0, 3)), draw(st.booleans()), block(d, in_loop, in_fin, hj)))
      orelse = block(d, in_loop, in_fin, ahj) if nh and draw(st.integers(0, 3)) == 0 else None
      fin = block(d, in_loop, True, ahj) if has_fin else None
      return ('try', body, tuple(hs), orelse, fin)
    raise AssertionError(k)

  return block(0, False, False)
