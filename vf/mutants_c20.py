"""Hand-written sensitivity mutants for C20, end-to-end embedding part (entity kinds x entry points).

m1-m5 predate this table and exist as patch files only (mutants/C20/)."""
MUTANTS = {
 'C20': [
  # the converted entity is a lambda: its scope is opened with the call options instead of the requested ones
  ('m6_lambda_entity_embeds_call_options', 'malt/converters/functions.py',
   "          template,\n          options=self._function_scope_options(fn_scope).to_ast(),\n          function_context=function_context_name,\n          function_context_name=ast.Constant(function_context_name),",
   "          template,\n          options=self.ctx.user.options.call_options().to_ast(),\n          function_context=function_context_name,\n          function_context_name=ast.Constant(function_context_name),"),
  # internal_convert, ENABLED context: the user_requested argument is not forwarded (twin of seeded C20-F)
  ('m7_internal_convert_enabled_ctx_drops_user_requested', 'malt/impl/api.py',
   "  if ctx.status == ag_ctx.Status.ENABLED:\n    wrapper_factory = convert(\n        recursive=True, user_requested=user_requested, conversion_ctx=ctx)",
   "  if ctx.status == ag_ctx.Status.ENABLED:\n    wrapper_factory = convert(recursive=True, conversion_ctx=ctx)"),
  # to_graph ignores recursive=False
  ('m8_to_graph_always_recursive', 'malt/impl/api.py',
   "            recursive=recursive,\n            user_requested=True,\n            optional_features=experimental_optional_features))",
   "            recursive=True,\n            user_requested=True,\n            optional_features=experimental_optional_features))"),
  # a functools.partial is unwrapped and its function converted as if it were a callee
  ('m9_partial_unwrapped_with_call_options', 'malt/impl/api.py',
   "        caller_fn_scope=caller_fn_scope,\n        options=options)",
   "        caller_fn_scope=caller_fn_scope,\n        options=options.call_options())"),
  # user code reached without recursion is converted anyway when it was not user requested
  ('m10_internal_convert_user_code_ignored_for_callees', 'malt/impl/api.py',
   "  if not options.internal_convert_user_code:\n    return _call_unconverted(f, args, kwargs, options)",
   "  if not options.internal_convert_user_code and options.user_requested:\n    return _call_unconverted(f, args, kwargs, options)"),
  # the inline (lambda) function scope is opened with the call options at run time
  ('m11_with_function_scope_opens_call_options', 'malt/operators/function_wrappers.py',
   "  with FunctionScope('lambda_', scope_name, options) as scope:",
   "  with FunctionScope('lambda_', scope_name, options.call_options()) as scope:"),
  # the convert decorator drops the feature set when the conversion is not user requested
  ('m12_convert_decorator_drops_features_for_library_requests', 'malt/impl/api.py',
   "          user_requested=user_requested,\n          optional_features=optional_features)",
   "          user_requested=user_requested,\n          optional_features=optional_features if user_requested else None)"),
  # the function scope computes the options for its callees from the standard options
  ('m13_scope_callopts_lose_features', 'malt/operators/function_wrappers.py',
   "    self.callopts = options.call_options()",
   "    self.callopts = converter.ConversionOptions(recursive=options.recursive, user_requested=False,\n                                                internal_convert_user_code=options.recursive,\n                                                optional_features=None)"),
 ],
}
