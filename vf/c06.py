"""C06 - reaching definitions and defined-on-entry sets are sound (trace oracle, see vf/dataflow.py)."""
import hypothesis.strategies as st

from vf import common
from vf import dataflow
from vf import harness
from vf import progen
from vf import shrink as shrinker

ID = 'C06'
LEVEL = 'exploration'
TECHNIQUE = ('property-based testing with a dynamic trace oracle: generated total programs are AST-instrumented and executed; '
             'every read event is checked against the DEFINITIONS of that Name (last-writer tracking), every compound-statement '
             'entry against DEFINED_VARS_IN, plus re-evaluation of the transfer equations (fixed point)')
RULE = ('programs from vf.progen with implicit exceptions excluded (no possibly-unbound reads), run on 3-6 input pairs. '
        'One evaluation = one (program, input) instrumented run. Non-trivial = some read in the run has >= 2 reaching definitions '
        'attached, and the program has a loop or a branch assigning a variable that is read later; distinct by SHA1 of source.')
ASSUMPTIONS = [
    'reads of enclosing-function variables from nested functions carry no definitions by design (known finding F12): only reads of the reading function\'s own locals are checked',
    'a variable rebound by a callee through nonlocal is not demanded until the owner rebinds it (calibration)',
    'for-loop targets are fresh, never rebound names (known finding F03b: the header node kills the target definition on the exit edge)',
    'except-clause names are outside the property; lambda bodies are not instrumented',
    'checking of an activation stops where a finally runs during propagation or an exception arrives from a call',
]
LEVEL_TEXT = ('Randomised exploration: each executed read / statement entry of each generated program is a concrete soundness test of the '
              'analysis result computed by the current tree; the fixed-point clause is checked on every graph.')
LEVEL_NOTE = 'Trusted: CPython executing the instrumented copy; vf/instrument.py event placement; the mapping write site -> gen_map entry.'

GEN = {'unbound_reads': False, 'excl': ('no_for_target_rebind',)}


def budget(tier):
  if tier == 'thorough':
    return {'programs': 12000, 'max_depth': 4, 'budget': 36, 'shrink_s': 60, 'wall_cap': 3000}
  return {'programs': 4000, 'max_depth': 3, 'budget': 26, 'shrink_s': 20, 'wall_cap': 600}


def run_case(case):
  fails, stats = [], {'runs': 0}
  try:
    p = dataflow.prepare(case['src'], ('rd',))
  except Exception as e:
    return [('analysis:' + harness.exc_bucket(e), {'exc': repr(e)[:400]})], stats
  dataflow.check_rd_fixpoint(p, fails)
  for inp in case['inputs']:
    tr, outcome = dataflow.run(p, inp)
    stats['runs'] += 1
    stats.setdefault('outcomes', set()).add(outcome.split(':')[0])
    dataflow.check_rd(p, tr, fails, stats)
    if fails:
      break
  out, seen = [], set()
  for b, d in fails:
    if b not in seen:
      seen.add(b)
      out.append((b, d))
  return out, stats


def shard(ctx, acc):
  b = ctx.budget
  cfg = dict(GEN, max_depth=b['max_depth'], budget=b['budget'])

  def body(prog):
    case = {'src': prog['src'], 'inputs': prog['inputs']}
    fails, stats = run_case(case)
    nt = stats.get('multi_def_reads', 0) > 0
    cls = ['has:' + k for k in prog['meta'] if not k.startswith(('stmt:', 'helper:'))]
    if stats.get('stopped'):
      cls.append('activation_stopped_at_exempt_region')
    if nt:
      cls.append('read_with>=2_reaching_defs')
    sample = {'src': case['src'], 'inputs': case['inputs']} if nt and len(acc.samples) < acc.MAX_SAMPLES else None
    acc.case(key=common.h8(case['src']), nontrivial=nt, classes=cls, sample=sample, n=max(1, stats.get('runs', 1)))
    acc.count('reads_checked', stats.get('reads', 0))
    acc.count('entries_checked', stats.get('entries', 0))
    for bkt, d in fails:
      acc.fail(bkt, case, d)

  common.hyp_run(ctx, progen.programs(cfg), body, ctx.share('programs'))


def replay(case):
  fails, _ = run_case(case)
  return [{'bucket': b, 'detail': d} for b, d in fails]


def shrink(case, bucket, deadline):
  return shrinker.shrink_case(case, bucket, replay, deadline)
