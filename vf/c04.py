"""C04 - every overloadable construct is routed through its operator.

(a) static: the AST of malt.to_code(f) may contain no native if/while/for/break/continue/and/or/
    not/conditional expression, no early return and no native call, apart from the documented
    exemptions; (b) dynamic: a counting backend must observe at least as many operator invocations
    of each kind as the instrumented original executed constructs of that kind.
"""
import ast
import re

import hypothesis.strategies as st

import malt
from vf import backends
from vf import common
from vf import diffobs
from vf import harness
from vf import progen
from vf import rt
from vf import shrink as shrinker

ID = 'C04'
LEVEL = 'exploration'
TECHNIQUE = ('property-based testing over generated programs with constructs in every syntactic context: static scan of the generated code '
             '(forbidden node kinds, native calls, early returns) plus a differential count oracle (operator invocations seen by a counting '
             'backend >= construct executions of the instrumented original, per kind)')
RULE = ('programs from vf.progen (constructs occur in loop/branch/try/except/finally/with bodies, nested defs, lambda bodies, comprehension '
        'elements and clauses, operands of other overloaded expressions, decorators and default values) x option sets. One evaluation = one '
        '(program, option set) static scan plus its dynamic runs. Non-trivial = the function under test contains >= 3 construct kinds and '
        'at least one construct in a non-statement context (lambda body, comprehension, default value, decorator, operand of another '
        'overloaded expression); distinct by SHA1 of (source, options).')
ASSUMPTIONS = [
    'documented exemptions: the call of a with-item expression, debugger entry calls, print when BUILTIN_FUNCTIONS is off',
    'generated helper functions are recognised by the absence of a FunctionScope block; the single tail return of a converted function is the generated one',
    'the dynamic clause sees executed paths only; lowering may add operator calls, so counts are compared with >=',
]
LEVEL_TEXT = ('Every generated program is scanned exactly (what to_code prints is what is loaded, see C17) and executed under a counting backend; '
              'an escaped construct is a concrete node in the generated code.')
LEVEL_NOTE = 'Trusted: ast.parse of the to_code text; the construct counter instrumentation in this module.'

GEN = {'def_extras': 60, 'excl': ('no_for_target_rebind', 'no_lambda_capture_across_rebind', 'no_impure_chain_middle',
                                   )}
_KEEP = []
FORBIDDEN = (ast.If, ast.While, ast.For, ast.Break, ast.Continue, ast.IfExp, ast.BoolOp)
HELPER_RETURNING = re.compile(r'^(get_state|loop_test|extra_test)(_\d+)?$')


def budget(tier):
  if tier == 'thorough':
    return {'programs': 9000, 'max_depth': 4, 'budget': 36, 'shrink_s': 60, 'wall_cap': 3000}
  return {'programs': 800, 'max_depth': 3, 'budget': 26, 'shrink_s': 20, 'wall_cap': 600}


# ---- static scan ------------------------------------------------------------------------------------

def _is_ag_attr(f):
  return isinstance(f, ast.Attribute) and isinstance(f.value, ast.Name) and f.value.id.startswith('ag__')


def _has_scope(fn):
  for s in fn.body:
    if isinstance(s, ast.With):
      for it in s.items:
        c = it.context_expr
        if isinstance(c, ast.Call) and _is_ag_attr(c.func) and c.func.attr == 'FunctionScope':
          return s
  return None


def static_scan(code_text, builtins_on, fails):
  try:
    tree = ast.parse(code_text)
  except SyntaxError as e:
    fails.append(('static:to_code-does-not-parse', repr(e)))
    return
  parent = {}
  for n in ast.walk(tree):
    for c in ast.iter_child_nodes(n):
      parent[c] = n
  scope_names = set()
  for n in ast.walk(tree):
    if isinstance(n, ast.With):
      for it in n.items:
        c = it.context_expr
        if isinstance(c, ast.Call) and _is_ag_attr(c.func) and c.func.attr == 'FunctionScope' and isinstance(it.optional_vars, ast.Name):
          scope_names.add(it.optional_vars.id)
    if isinstance(n, ast.Call) and _is_ag_attr(n.func) and n.func.attr == 'with_function_scope':
      # lambda scope: ag__.with_function_scope(lambda lscope: body, 'lscope', opts)
      if n.args and isinstance(n.args[0], ast.Lambda) and n.args[0].args.args:
        scope_names.add(n.args[0].args.args[0].arg)
  for n in ast.walk(tree):
    if isinstance(n, FORBIDDEN):
      fails.append(('static:native-%s' % type(n).__name__, ast.unparse(n)[:160]))
    elif isinstance(n, ast.UnaryOp) and isinstance(n.op, ast.Not):
      fails.append(('static:native-Not', ast.unparse(n)[:160]))
    elif isinstance(n, ast.Compare) and len(n.ops) > 1:
      fails.append(('static:native-chained-Compare', ast.unparse(n)[:160]))
    elif isinstance(n, ast.Call):
      f = n.func
      ok = False
      if _is_ag_attr(f):
        ok = True
      elif isinstance(f, ast.Attribute) and isinstance(f.value, ast.Name) and f.value.id in scope_names and f.attr == 'ret':
        ok = True
      elif isinstance(f, ast.Name) and f.id == 'dict':
        p = parent.get(n)
        ok = (isinstance(p, ast.Call) and _is_ag_attr(p.func) and p.func.attr == 'converted_call' and len(p.args) >= 3 and p.args[2] is n)
      elif _inside_withitem(parent, n):
        ok = True   # documented: with-item expressions are not converted
      elif isinstance(f, ast.Name) and f.id == 'tuple' and _is_arg_packing(parent, n):
        ok = True   # generated packing of *args for converted_call
      elif (not builtins_on and isinstance(f, ast.Call) and _is_ag_attr(f.func) and f.func.attr == 'ld' and f.args
            and isinstance(f.args[0], ast.Name) and f.args[0].id == 'print'):
        ok = True   # documented: print stays native when builtin overloading is off
      if not ok:
        fails.append(('static:native-call', ast.unparse(n)[:160]))
    elif isinstance(n, ast.FunctionDef):
      w = _has_scope(n)
      if w is not None:
        rets = [r for r in ast.walk(w) if isinstance(r, ast.Return) and _owner(parent, r) is n]
        for r in rets:
          if not (w.body and w.body[-1] is r):
            fails.append(('static:early-return-survives', ast.unparse(r)[:120]))
      else:
        rets = [r for r in ast.walk(n) if isinstance(r, ast.Return) and _owner(parent, r) is n]
        if rets and not (HELPER_RETURNING.match(n.name) and len(rets) == 1 and n.body[-1] is rets[0]):
          # top-level wrappers (outer_factory / inner_factory) are not part of to_code output
          fails.append(('static:return-in-generated-body-function', n.name))


def _inside_withitem(parent, node):
  cur = parent.get(node)
  while cur is not None and not isinstance(cur, ast.stmt):
    if isinstance(cur, ast.withitem):
      return True
    cur = parent.get(cur)
  return False


def _is_arg_packing(parent, node):
  cur, child = parent.get(node), node
  while isinstance(cur, (ast.BinOp, ast.Tuple)):
    cur, child = parent.get(cur), cur
  return (isinstance(cur, ast.Call) and _is_ag_attr(cur.func) and cur.func.attr == 'converted_call' and len(cur.args) >= 2
          and cur.args[1] is child)


def _owner(parent, node):
  cur = parent.get(node)
  while cur is not None and not isinstance(cur, (ast.FunctionDef, ast.Lambda)):
    cur = parent.get(cur)
  return cur


# ---- construct counting in the original ---------------------------------------------------------------

class _CountIns(ast.NodeTransformer):
  """Wraps constructs of the ORIGINAL program with counters (exec'd copy)."""

  def __init__(self, builtins_on):
    self.builtins_on = builtins_on
    self.in_fn = 0

  def _c(self, kind, expr):
    return ast.Call(func=ast.Name(id='__vf_cnt', ctx=ast.Load()), args=[ast.Constant(kind), expr], keywords=[])

  def _s(self, kind):
    return ast.Expr(value=ast.Call(func=ast.Name(id='__vf_cnt', ctx=ast.Load()), args=[ast.Constant(kind), ast.Constant(None)], keywords=[]))

  def visit_FunctionDef(self, node):
    if node.name in ('make', 'cells') or node.name.startswith('h'):
      if node.name == 'make':
        self.generic_visit(node)
      return node
    self.in_fn += 1
    self.generic_visit(node)
    self.in_fn -= 1
    return node

  def visit_If(self, node):
    self.generic_visit(node)
    if self.in_fn:
      node.test = self._c('if_stmt', node.test)   # counted once the test has been evaluated
    return node

  def visit_While(self, node):
    self.generic_visit(node)
    return [self._s('while_stmt'), node] if self.in_fn else node

  def visit_For(self, node):
    self.generic_visit(node)
    if self.in_fn:
      node.iter = self._c('for_stmt', node.iter)  # counted once the iterable has been evaluated
    return node

  def visit_BoolOp(self, node):
    self.generic_visit(node)
    kind = 'and_' if isinstance(node.op, ast.And) else 'or_'
    return self._c(kind, node) if self.in_fn else node

  def visit_UnaryOp(self, node):
    self.generic_visit(node)
    if self.in_fn and isinstance(node.op, ast.Not):
      return self._c('not_', node)
    return node

  def visit_IfExp(self, node):
    self.generic_visit(node)
    return self._c('if_exp', node) if self.in_fn else node

  def visit_With(self, node):
    # with-item expressions are exempt (documented): nothing inside them is counted
    node.body = self._block(node.body)
    return node

  def _block(self, stmts):
    out = []
    for s in stmts:
      r = self.visit(s)
      if isinstance(r, list):
        out.extend(r)
      else:
        out.append(r)
    return out

  def visit_Call(self, node):
    self.generic_visit(node)
    if not self.in_fn:
      return node
    if isinstance(node.func, ast.Name) and node.func.id == '__vf_cnt':
      return node
    if isinstance(node.func, ast.Name) and node.func.id == 'print' and not self.builtins_on:
      return node
    return self._c('converted_call', node)


def count_original(src, inp, builtins_on):
  tree = ast.parse(src)
  tree = _CountIns(builtins_on).visit(tree)
  ast.fix_missing_locations(tree)
  counts = {}

  def cnt(kind, value):
    counts[kind] = counts.get(kind, 0) + 1
    return value

  ns = {'__vf_cnt': cnt, '__name__': 'vf_c04_count'}
  exec(compile(tree, '<c04-count>', 'exec'), ns)
  rt.reset()
  prog, cells = ns['make']()
  try:
    with diffobs.time_limit(10):
      prog(*diffobs.fresh_args(inp))
  except diffobs.Timeout:
    return None
  except BaseException:  # noqa
    pass
  return counts


# ---- case -------------------------------------------------------------------------------------------

def kinds_in(src):
  """(set of construct kinds in prog, has a construct in a non-statement context)."""
  tree = ast.parse(src)
  prog = [n for n in ast.walk(tree) if isinstance(n, ast.FunctionDef) and n.name == 'prog']
  if not prog:
    return set(), False
  kinds, nonstmt = set(), False

  def rec(n, ctx):
    nonlocal nonstmt
    k = None
    if isinstance(n, ast.If):
      k = 'if'
    elif isinstance(n, ast.While):
      k = 'while'
    elif isinstance(n, ast.For):
      k = 'for'
    elif isinstance(n, (ast.Break, ast.Continue)):
      k = type(n).__name__.lower()
    elif isinstance(n, ast.BoolOp):
      k = 'boolop'
    elif isinstance(n, ast.UnaryOp) and isinstance(n.op, ast.Not):
      k = 'not'
    elif isinstance(n, ast.IfExp):
      k = 'ifexp'
    elif isinstance(n, ast.Call):
      k = 'call'
    if k:
      kinds.add(k)
      if ctx:
        nonstmt = True
    for f, v in ast.iter_fields(n):
      vs = v if isinstance(v, list) else [v]
      for c in vs:
        if not isinstance(c, ast.AST):
          continue
        c2 = ctx
        if isinstance(n, ast.Lambda) or isinstance(n, (ast.ListComp, ast.SetComp, ast.DictComp, ast.GeneratorExp)):
          c2 = True
        if isinstance(n, ast.FunctionDef) and f in ('decorator_list',):
          c2 = True
        if isinstance(n, ast.arguments):
          c2 = True
        if isinstance(n, (ast.BoolOp, ast.IfExp)) or (isinstance(n, ast.UnaryOp) and isinstance(n.op, ast.Not)):
          c2 = True
        rec(c, c2)

  rec(prog[0], False)
  return kinds, nonstmt


def run_case(case):
  fails = []
  info = {'runs': 0}
  src, config = case['src'], case['config']
  try:
    mod = harness.load_module(src)
  except Exception as e:
    info['generator_slip'] = repr(e)
    return fails, info
  _KEEP.append(mod)
  builtins_on = 'BUILTIN_FUNCTIONS' in config['features']
  feats = diffobs.features_arg(config['features'], 'tuple')
  try:
    prog, cells = mod.make()
    try:
      code = malt.to_code(prog, recursive=config['recursive'], experimental_optional_features=feats)
    except Exception as e:
      fails.append(('convert:' + harness.exc_bucket(e), {'exc': repr(e)[:400]}))
      return fails, info
    sf = []
    static_scan(code, builtins_on, sf)
    seen = set()
    for b, d in sf:
      if b not in seen:
        seen.add(b)
        fails.append((b, {'node': d}))
    # dynamic count oracle
    cnt = backends.Counter()
    tr = harness.PrivateTranspiler(cnt.overrides())
    opts = harness.options(recursive=False, user_requested=True, features=feats)
    for inp in case['inputs']:
      oc = count_original(src, inp, builtins_on)
      if oc is None:
        continue
      prog2, cells2 = mod.make()
      try:
        conv = harness.convert_private(tr, prog2, opts)
      except Exception as e:
        fails.append(('convert:' + harness.exc_bucket(e), {'exc': repr(e)[:400]}))
        break
      cnt.counts = {}
      diffobs.observe(conv, inp, mod, cells2, 10.0)
      info['runs'] += 1
      for k, n in oc.items():
        if cnt.counts.get(k, 0) < n:
          fails.append(('dynamic:fewer-%s-than-executed' % k, {'executed_in_original': n, 'operator_calls': cnt.counts.get(k, 0), 'input': inp}))
          break
      if fails:
        break
  finally:
    harness.forget_generated(mod)
  return fails, info


CONFIGS = st.fixed_dictionaries({
    'recursive': st.booleans(),
    'features': st.sampled_from([[], [], ['BUILTIN_FUNCTIONS'], ['EQUALITY_OPERATORS'], ['BUILTIN_FUNCTIONS', 'EQUALITY_OPERATORS']]),
})


def shard(ctx, acc):
  b = ctx.budget
  cfg = dict(GEN, max_depth=b['max_depth'], budget=b['budget'])

  def body(pc):
    prog, config = pc
    case = {'src': prog['src'], 'inputs': prog['inputs'][:3], 'config': config}
    fails, info = run_case(case)
    kinds, nonstmt = kinds_in(case['src'])
    nt = len(kinds) >= 3 and nonstmt
    cls = ['kind:' + k for k in sorted(kinds)] + ['features=' + '+'.join(config['features'])]
    cls += [k for k in prog['meta'] if k.startswith('excluded:')]
    if nonstmt:
      cls.append('construct_in_non_statement_context')
    for k in ('lambda_def', 'lambda_call', 'comprehension', 'def_with_default_and_decorator', 'nested_def', 'with', 'try', 'finally'):
      if k in prog['meta']:
        cls.append('context:' + k)
    # shape classes of the shared generator (frequencies of the escape / def-position / subscript / nested-global / kw-partial families)
    cls += ['has:' + k for k in prog['meta'] if k.startswith(('escape', 'escaped_fn_name:', 'shape:', 'subscript_target', 'nested_global_decl',
                                                                'kwpartial', 'module_kwpartial', 'optional_fn', 'local_container',
                                                                'call_of_enclosing_local_fn', 'call_through:'))]
    acc.count('programs')
    sample = {'src': case['src'], 'config': config} if nt and len(acc.samples) < acc.MAX_SAMPLES else None
    acc.case(key=common.h8([case['src'], config]), nontrivial=nt, classes=cls, sample=sample, n=1 + info['runs'])
    for bkt, d in fails:
      acc.fail(bkt, case, d)

  common.hyp_run(ctx, st.tuples(progen.programs(cfg), CONFIGS), body, ctx.share('programs'))


def replay(case):
  fails, _ = run_case(case)
  return [{'bucket': b, 'detail': d} for b, d in fails]


def shrink(case, bucket, deadline):
  return shrinker.shrink_case(case, bucket, replay, deadline)
