"""C01, LISTS sub-tier - conversion preserves Python semantics when the optional LISTS feature is on.

The property's quantifier admits LISTS "only for list operations on local variables and parameters".
This module generates programs of exactly that class on top of the constructive generator vf.progen
(class LGen extends progen.Gen): list literals bound to locals, the list parameter `l`, append, pop
(with and without index, as statement / assigned value / operand / call argument / if test), index
reads and writes (constant, negative, computed `e % len(xs)`, `for i in range(len(xs))` indexes),
slice reads and slice assignment, len/sum/in/count/index/max, iteration (direct, over copies, reversed,
enumerate), unconverted list methods (extend/insert/reverse/sort/clear, `xs += [...]`, `del xs[i]`),
list-valued returns, module-level helpers that take a list parameter - all mixed with the control flow
of the C01 class. Oracle = C01's (diffobs.observe / diffobs.compare, same exemptions).

Totality by construction: every list variable carries a statically tracked *minimum length*;
an index is generated only inside that bound, a pop only when the bound stays above the *floor* of
the enclosing region (loop bodies start from the floor, try bodies may not go below their entry
state, so handlers / loop exits / break paths stay inside the bound), lists under direct iteration
are frozen, helper functions never shrink a list parameter. Lists are never aliased.

Two program modes: 'trace' (tracer t / methods / helpers with effects; recursive=False because the
runtime vf.rt appends to a *module global* LOG, a list operation on a non-local that LISTS rewrites
into a local rebinding - outside the class) and 'rec' (no call into vf.rt other than the builtin
print to SINK; helpers do list operations on their own parameters/locals only; recursive in {F,T}).

Calibrations (shapes outside the documented LISTS class, never generated; each was seen to fail and triaged):
  * list operations on *non-local* lists: module globals (vf.rt's LOG under recursive=True) and variables of an
    enclosing function inside a nested def / lambda (l.append(q), l[0] = q, xs.pop() there): LISTS rewrites them
    into a rebinding `l = ag__.list_append(l, q)`, which makes the name local -> UnboundLocalError. Nested defs
    therefore do not see o/d/l and own a list of their own (us<depth>); this was the untriaged NameError of the
    first probe (the base grammar emits l.append / l[0] = .. inside nested defs).
  * in 'rec' mode nothing that is converted recursively may reach vf.rt (no tracer/method/ext calls, no try
    (tryin/fin), no decorators (deco); the drain of shared iterators goes to print(..., file=SINK)).
  * targets of list operations are plain names and elements are ints: `[4, 5].pop()` (invalid generated code),
    `xs[0].append(4)` / `xs.pop().pop()` on nested lists (documented TODO in converters/lists.py) are not generated.
  * append is generated as an expression statement only (its value is None; inside a lambda body it crashes the
    conversion - not a list operation "on a local variable" in statement form).
  * `x = y = e` raises NotImplementedError('multiple assignment') under LISTS: explicit, documented TODO in
    converters/slices.py (loud refusal, not a silent divergence); the grammar has no chained assignment.
  * a list iterated through a copy may not grow in the loop body, and l is iterated only in 'rec' mode (the base
    grammar appends to l): doubling per execution is exponential under nesting (generator totality, not malt).
  * generator self-test (dev): cfg 'debug_lens' turns every tracked minimum length into a run-time assertion;
    30 000 programs ran without AssertionError / IndexError / timeout.

Findings inside the class (exclusion flags LIST_EXCL, replays replays/C01/L<nn>_*.json): L01 append whose argument
pops, L02 pop inside try/except/finally blocks, L03 pop in a while test, L04 pop in lazy positions, L05 pop after
an operand that depends on the list, L06 (= F19) subscript augmented assignment, L07 list display as assignment
target, L08 subscript stores evaluate the subscript before the value.
"""
import re

import hypothesis.strategies as st

from vf import common
from vf import diffobs
from vf import harness
from vf import progen
from vf import shrink as shrinker

C01_EXCL = ('no_for_target_rebind', 'no_lambda_capture_across_rebind', 'no_impure_chain_middle',
            )
# exclusion flags of the LISTS findings (see the L<nn> replays under replays/C01)
LIST_EXCL = (
    # (repaired in /repo, generated again) 'no_index_augassign',             # F19 / L06: xs[i] += e -> ag__.update_item_with_op, which no module defines
    # (repaired in /repo, generated again) 'no_pop_in_append_statement',     # L01: ys.append(xs.pop()) crashes the conversion
    # (repaired in /repo, generated again) 'no_pop_in_try',                  # L02: pop inside try/except/finally blocks is hoisted in front of the try statement
    'no_pop_in_loop_test',            # L03: pop inside a while test is hoisted in front of the loop (evaluated once)
    'no_pop_in_lazy_position',        # L04: pop inside and/or operands / conditional expressions is evaluated eagerly
    'no_pop_after_dependent_operand',  # L05: pop is hoisted in front of operands evaluated before it
    # (repaired in /repo, generated again) 'no_list_display_target',         # L07: [x, y] = ... (list display as assignment target) becomes ag__.new_list(...) = ...
    'no_impure_index_in_store',       # L08: xs[i] = v / xs[i:j] = v evaluate i, j before v (Python: v first)
)
_AUGSUB = re.compile(r"^(\s*)(\w+\[[^\]=]*\]) ([-+*])= (.*)$")
LIST_OPS = ('new_list', 'list_append', 'list_pop', 'get_item', 'set_item')
_KEEP = []
LSPY = diffobs.Spy()


def budget_share(tier):
  return 4000 if tier == 'thorough' else 250


def _has(env):
  return getattr(env, 'lists', None) is not None


def _setlen(env, n, m):
  e = env.copy()
  e.lists = dict(env.lists)
  e.lists[n] = m
  return e


class LGen(progen.Gen):
  """progen.Gen + list variables with statically tracked minimum lengths."""

  def __init__(self, draw, cfg, mode):
    c = {'list_pct': 45}
    c.update(cfg or {})
    super(LGen, self).__init__(draw, c)
    self.mode = mode            # 'trace' | 'rec'
    self.frames = []            # per compound statement: envs at sub-block entry and exit
    self.lhelpers = []          # names of list helpers  hlN(ys, x)
    self.ihelpers = []          # (name, nparams) of int helpers callable in rec mode
    self.no_mutators = 0        # > 0: expressions may not call list helpers (they append to their argument)

  # ---- environment plumbing ------------------------------------------------------------------
  def init_lists(self, env, ind, lines):
    """A fresh function environment (nested def): gets one local list of its own."""
    e = env.copy()
    n = 'us%d' % env.fn_depth
    k = self.integer(0, 3)
    elts = [self.choice(['q', '1', '0', '3']) for _ in range(k)]
    lines.append('%s%s = [%s]' % ('  ' * ind, n, ', '.join(elts)))
    e.lists = {n: k}
    e.floor = {n: 0}
    e.frozen = frozenset()
    e.growonly = frozenset()
    e.validx = frozenset()
    e.nogrow = frozenset()
    e.in_try = 0
    return e

  def block(self, env, ind, lines, top=False):
    if not _has(env):
      env = self.init_lists(env, ind, lines)
    out = super(LGen, self).block(env, ind, lines, top)
    if self.frames:
      self.frames[-1].append(out)
    return out

  def sub(self, env, **kw):
    e = super(LGen, self).sub(env, **kw)
    if _has(env):
      if kw.get('trydepth', env.trydepth) > env.trydepth or 'in_finally' in kw:
        # try body / handler / finally: nothing may drop below its minimum at entry of the try
        # statement, so that handlers and the finally body can start from the entry state
        e.floor = dict(env.lists)
        e.in_try = env.in_try + 1
      if 'loop' in kw:
        # loop body: executed 0..n times. Lists drawn as shrinkable restart from their floor, the
        # others keep their minimum as the floor of the body
        fl, ls = {}, {}
        for n in sorted(env.lists):
          shr = n not in env.frozen and n not in env.growonly and self.chance(50)
          fl[n] = env.floor.get(n, 0) if shr else env.lists[n]
          ls[n] = fl[n]
        e.floor, e.lists = fl, ls
      if self.frames:
        self.frames[-1].append(e)
    return e

  def compound(self, method, env, ind, lines):
    self.frames.append([])
    try:
      out = method(env, ind, lines)
    finally:
      recs = self.frames.pop()
    if out is None or not _has(env):
      return out
    ls = dict(env.lists)
    for r in recs:
      if r is None or not _has(r):
        continue
      for n in ls:
        if n in r.lists:
          ls[n] = min(ls[n], r.lists[n])
    out = out.copy()
    out.lists = ls
    for k in ('floor', 'frozen', 'growonly', 'validx', 'nogrow', 'in_try'):
      setattr(out, k, getattr(env, k))
    return out

  def if_stmt(self, env, ind, lines):
    return self.compound(super(LGen, self).if_stmt, env, ind, lines)

  def while_stmt(self, env, ind, lines):
    return self.compound(super(LGen, self).while_stmt, env, ind, lines)

  def for_stmt(self, env, ind, lines):
    return self.compound(super(LGen, self).for_stmt, env, ind, lines)

  def try_stmt(self, env, ind, lines):
    return self.compound(super(LGen, self).try_stmt, env, ind, lines)

  def with_stmt(self, env, ind, lines):
    return self.compound(super(LGen, self).with_stmt, env, ind, lines)

  def def_stmt(self, env, ind, lines):
    # nested functions do no list operation on enclosing variables (l.append / l[0] = .. inside a
    # nested def would be rewritten into a local rebinding of l): o, d, l are hidden from them
    e = env.copy()
    e.has_o = False
    self.frames.append([])
    try:
      out = super(LGen, self).def_stmt(e, ind, lines)
    finally:
      self.frames.pop()
    if out is not None:
      out = out.copy()
      out.has_o = env.has_o
    return out

  # ---- predicates ----------------------------------------------------------------------------
  def can_shrink(self, env, n, by=1):
    return (n not in env.frozen and n not in env.growonly and env.lists[n] - by >= env.floor.get(n, 0)
            and env.lists[n] - by >= 0)

  def can_grow(self, env, n):
    return n not in env.frozen and n not in env.nogrow

  def const_index(self, env, n):
    m = env.lists[n]
    return str(self.integer(-m, m - 1))

  def index(self, env, n, effects=None):
    """An always-valid index expression for list n (requires minimum length >= 1)."""
    vi = sorted(i for i, ln in env.validx if ln == n)
    k = self.choice(['const'] * 3 + ['dyn'] + (['var'] * 4 if vi else []))
    if k == 'var' or env.lists[n] < 1:
      self.note('lists:index_loop_variable')
      return self.choice(vi)
    if k == 'dyn':
      self.note('lists:index_computed')
      return '%s %% len(%s)' % (self.expr(env, 1, effects), n)
    return self.const_index(env, n)

  def indexable(self, env):
    return sorted(n for n in env.lists if env.lists[n] >= 1 or any(ln == n for _, ln in env.validx))

  def tracer(self, text):
    """Makes a value observable: tracer call in trace mode, print to SINK in rec mode."""
    if self.mode == 'rec' or not self.cfg['tracer']:
      return 'print(%s, file=SINK)' % text
    return self.choice(['t(%s)', 't(%s)', 'print(%s, file=SINK)']) % text

  # ---- expressions ---------------------------------------------------------------------------
  def expr(self, env, depth=0, effects=None):
    if _has(env) and env.lists and depth < 2 and self.chance(22):
      return self.list_int_expr(env, depth, effects)
    if self.mode == 'rec' and self.ihelpers and depth < 2 and self.chance(6):
      name, n = self.choice(self.ihelpers)
      self.note('helper_call')
      return '%s(%s)' % (name, ', '.join(self.expr(env, depth + 1, effects) for _ in range(n)))
    return super(LGen, self).expr(env, depth, effects)

  def list_int_expr(self, env, depth, effects):
    """An int/bool valued total expression reading a list."""
    names = sorted(env.lists)
    idx = self.indexable(env)
    kinds = ['len'] * 3 + ['sum', 'in', 'count', 'slicelen', 'slicesum', 'truth', 'eq', 'compsum', 'complen']
    if idx:
      kinds += ['item'] * 8 + ['max', 'indexof', 'sliceitem']
    eff = (self.cfg['tracer'] and not self.cfg['pure']) if effects is None else effects
    if self.lhelpers and effects is not False and not self.no_mutators and (eff or self.mode == 'rec'):
      kinds += ['lhelper'] * 3
    k = self.choice(kinds)
    e = lambda: self.expr(env, depth + 1, effects)
    self.note('lists:read_' + k)
    if k in ('item', 'max', 'indexof', 'sliceitem'):
      n = self.choice(idx)
      if k == 'item':
        return '%s[%s]' % (n, self.index(env, n, effects))
      if k == 'max':
        if env.lists[n] < 1:
          return '%s[%s]' % (n, self.index(env, n, effects))
        return self.choice(['max(%s)', 'min(%s)']) % n
      if k == 'indexof':
        return '%s.index(%s[%s])' % (n, n, self.index(env, n, effects))
      if env.lists[n] < 1:
        return '%s[%s]' % (n, self.index(env, n, effects))
      return self.choice(['%s[:][0]', '%s[::-1][0]', '%s[0:1][0]', '%s[-1:][0]', 'list(%s)[-1]', 'sorted(%s)[0]']) % n
    n = self.choice(names)
    if k == 'len':
      return 'len(%s)' % n
    if k == 'sum':
      return 'sum(%s)' % n
    if k == 'in':
      return '(%s %s %s)' % (e(), self.choice(['in', 'not in']), n)
    if k == 'count':
      return '%s.count(%s)' % (n, e())
    if k == 'slicelen':
      return 'len(%s[%s:%s])' % (n, self.choice(['', '0', '1', '-1', '-2']), self.choice(['', '1', '2', '-1', '5']))
    if k == 'slicesum':
      return 'sum(%s[%s:%s])' % (n, self.choice(['', e(), e()]), self.choice(['', e()]))
    if k == 'truth':
      return self.choice(['bool(%s)', '(not %s)', '(1 if %s else 2)']) % n
    if k == 'eq':
      return '(%s %s [%s])' % (n, self.choice(['==', '!=']), ', '.join(e() for _ in range(self.integer(0, 2))))
    if k == 'compsum':
      self.note('comprehension')
      return 'sum([(z * %d) for z in %s])' % (self.integer(-1, 3), n)
    if k == 'complen':
      self.note('comprehension')
      return 'len([z for z in %s if z > %s])' % (n, e())
    if k == 'lhelper':
      h = self.choice(self.lhelpers)
      self.note('lists:list_helper_call')
      arg = n if (self.can_grow(env, n) and not any(ln == n for _, ln in env.validx)) else n + '[:]'
      if self.chance(25):
        arg = n + '[:]'
      return '%s(%s, %s)' % (h, arg, e())
    raise AssertionError(k)

  def list_expr(self, env, depth=0):
    """A fresh (never aliased) list valued expression. Returns (text, minimum length)."""
    names = sorted(env.lists)
    kinds = ['lit'] * 4
    if names:
      kinds += ['slice', 'concat', 'copy', 'sorted', 'comp', 'rev', 'tail']
    k = self.choice(kinds)
    e = lambda: self.expr(env, 1)
    if k == 'lit':
      c = self.integer(0, 4)
      return '[%s]' % ', '.join(e() for _ in range(c)), c
    n = self.choice(names)
    m = env.lists[n]
    self.note('lists:listexpr_' + k)
    if k == 'slice':
      return '%s[%s:%s]' % (n, self.choice(['', '0', '1', e()]), self.choice(['', '2', '-1', e()])), 0
    if k == 'tail':
      c = self.integer(0, 2)
      return '%s[%d:]' % (n, c), max(0, m - c)
    if k == 'concat':
      c = self.integer(1, 2)
      return '%s + [%s]' % (n, ', '.join(e() for _ in range(c))), m + c
    if k == 'copy':
      return self.choice(['list(%s)', '%s[:]', '%s * 1', '%s.copy()']) % n, m
    if k == 'sorted':
      return 'sorted(%s)' % n, m
    if k == 'rev':
      return self.choice(['%s[::-1]', 'list(reversed(%s))']) % n, m
    if k == 'comp':
      self.note('comprehension')
      if self.chance(50):
        return '[(z + %s) for z in %s]' % (e(), n), m
      return '[z for z in %s if z %s %s]' % (n, self.choice(['>', '<=', '!=']), e()), 0
    raise AssertionError(k)

  def retexpr(self, env):
    if _has(env) and env.lists and not env.int_return and self.chance(45):
      n = self.choice(sorted(env.lists))
      self.note('lists:returns_list')
      k = self.choice(['name', 'name', 'tuple', 'expr', 'pair'])
      if k == 'name':
        return n
      if k == 'tuple':
        return '(%s, %s)' % (self.expr(env), n)
      if k == 'pair':
        return '(%s, %s)' % (n, self.choice(sorted(env.lists)))
      return self.list_expr(env)[0]
    return super(LGen, self).retexpr(env)

  # ---- statements ----------------------------------------------------------------------------
  def stmt(self, env, ind, lines):
    if self.cfg.get('debug_lens') and _has(env):
      # generator self-test (dev only): the tracked minimum lengths become run-time assertions
      for n in sorted(env.lists):
        lines.append('%sassert len(%s) >= %d, "minlen %s"' % ('  ' * ind, n, env.lists[n], n))
    if _has(env) and env.lists and self.chance(self.cfg['list_pct']):
      return self.list_stmt(env, ind, lines)
    mark = len(lines)
    out = super(LGen, self).stmt(env, ind, lines)
    if self.mode == 'rec':
      # the base grammar drains shared iterators through the tracer whatever the 'tracer' knob says
      for i in range(mark, len(lines)):
        if lines[i].lstrip().startswith('t(list(it'):
          lines[i] = lines[i].replace('t(list(', 'print(list(', 1)[:-1] + ', file=SINK)'
    if self.excl('no_index_augassign'):
      # the base grammar's  d['k'] -= e  is a subscript augmented assignment too (F19 covers every subscript)
      for i in range(mark, len(lines)):
        m = _AUGSUB.match(lines[i])
        if m:
          self.note('excluded:no_index_augassign')
          lines[i] = '%s%s = %s %s %s' % (m.group(1), m.group(2), m.group(2), m.group(3), m.group(4))
    return out

  def store_parts(self, env, n, slice_bounds=False):
    """(index text, value text) of a subscript store. Python evaluates the value first, then the
    subscript; L08: the converted code evaluates the subscript first. With the exclusion on, a
    computed subscript is free of effects and the value calls nothing that changes a list length."""
    guarded = self.excl('no_impure_index_in_store')
    saved = self.cfg['unbound_reads']
    if guarded:
      self.cfg['unbound_reads'] = False   # a NameError raised by the subscript would come before the value's effects
    try:
      if slice_bounds:
        idx = '%s:%s' % (self.expr(env, 1, False if guarded else None), self.expr(env, 1, False if guarded else None))
        computed = True
      else:
        idx = self.index(env, n, False if guarded else None)
        computed = not idx.lstrip('-').isdigit()
    finally:
      self.cfg['unbound_reads'] = saved
    if guarded and computed:
      self.note('excluded:no_impure_index_in_store')
      self.no_mutators += 1
      try:
        val = self.expr(env, 0, False if ('len(' in idx) else None)
      finally:
        self.no_mutators -= 1
    else:
      if computed:
        self.note('lists:store_with_computed_subscript')
      val = self.expr(env)
    return idx, val

  def list_stmt(self, env, ind, lines):
    cfg = self.cfg
    sp = '  ' * ind
    L = env.lists
    names = sorted(L)
    grow = [n for n in names if self.can_grow(env, n)]
    shr = [n for n in names if self.can_shrink(env, n)]
    idx = self.indexable(env)
    rebindable = [n for n in names if n not in env.frozen and n not in env.growonly and n not in env.nogrow]
    deep = env.depth < cfg['max_depth'] and self.budget > 1
    kinds = ['observe'] * 3
    if grow:
      kinds += ['append'] * 6 + ['method'] * 2
    if shr:
      kinds += ['pop'] * 8
    if idx:
      kinds += ['setitem'] * 5 + ['augitem'] * 2 + ['swap']
    if rebindable:
      kinds += ['rebind'] * 2 + ['sliceassign'] * 3
    if deep:
      kinds += ['lfor'] * 4 + ['lwhile'] * 2 + ['lif'] * 3
    if any(L[n] >= 2 for n in names):
      kinds += ['unpack']
    k = self.choice(kinds)
    self.note('stmt:list_' + k)
    e = lambda en=env: self.expr(en)

    if k == 'observe':
      n = self.choice(names)
      form = self.choice(['%s', 'len(%s)', 'list(%s)', '%s[:2]', 'sum(%s)'])
      lines.append(sp + self.tracer(form % n))
      return env
    if k == 'append':
      n = self.choice(grow)
      lines.append('%s%s.append(%s)' % (sp, n, e()))
      return _setlen(env, n, L[n] + 1)
    if k == 'method':
      n = self.choice(grow)
      forms = ['extend', 'insert', 'reverse', 'sort', 'iadd']
      if self.can_shrink(env, n) and env.floor.get(n, 0) == 0:
        forms += ['clear']
      if self.can_shrink(env, n):
        forms += ['delitem', 'remove']
      f = self.choice(forms)
      self.note('lists:method_' + f)
      if f == 'extend':
        c = self.integer(0, 2)
        lines.append('%s%s.extend([%s])' % (sp, n, ', '.join(e() for _ in range(c))))
        return _setlen(env, n, L[n] + c)
      if f == 'insert':
        lines.append('%s%s.insert(%s, %s)' % (sp, n, self.choice(['0', '1', '-1', 'len(%s)' % n]), e()))
        return _setlen(env, n, L[n] + 1)
      if f == 'iadd':
        c = self.integer(0, 2)
        lines.append('%s%s += [%s]' % (sp, n, ', '.join(e() for _ in range(c))))
        return _setlen(env, n, L[n] + c)
      if f == 'clear':
        lines.append('%s%s.clear()' % (sp, n))
        return _setlen(env, n, 0)
      if f == 'delitem':
        lines.append('%sdel %s[%s]' % (sp, n, self.const_index(env, n)))
        return _setlen(env, n, L[n] - 1)
      if f == 'remove':
        lines.append('%s%s.remove(%s[%s])' % (sp, n, n, self.const_index(env, n)))
        return _setlen(env, n, L[n] - 1)
      lines.append('%s%s.%s()' % (sp, n, f))
      return env
    if k == 'pop':
      return self.pop_stmt(env, ind, lines, shr)
    if k == 'setitem':
      n = self.choice(idx)
      lines.append('%s%s[%s] = %s' % ((sp, n) + self.store_parts(env, n)))
      return env
    if k == 'augitem':
      n = self.choice(idx)
      i = self.index(env, n, False)
      op = self.choice(['+', '-', '*'])
      if self.excl('no_index_augassign'):
        self.note('excluded:no_index_augassign')
        lines.append('%s%s[%s] = %s[%s] %s %s' % (sp, n, i, n, i, op, self.expr(env, 1)))
      else:
        self.note('lists:index_augassign')
        lines.append('%s%s[%s] %s= %s' % (sp, n, i, op, self.expr(env, 1)))
      return env
    if k == 'swap':
      n = self.choice(idx)
      i, j = self.index(env, n, False), self.index(env, n, False)
      lines.append('%s%s[%s], %s[%s] = %s[%s], %s[%s]' % (sp, n, i, n, j, n, j, n, i))
      return env
    if k == 'unpack':
      n = self.choice([x for x in names if L[x] >= 2])
      x, y = self.target(env), self.target(env)
      if x == y:
        lines.append('%s%s = %s[1]' % (sp, x, n))
        return self.bind(env, x)
      form = self.choice(['%s, %s = %s[0], %s[1]', '%s, %s = %s[:2]', '%s, %s = %s[-2:]', '[%s, %s] = %s[0:2]'])
      if form.startswith('['):
        if self.excl('no_list_display_target'):
          self.note('excluded:no_list_display_target')
          form = '(%s, %s) = %s[0:2]'
        else:
          self.note('lists:list_display_target')
      lines.append(sp + form % ((x, y, n, n) if form.count('%s') == 4 else (x, y, n)))
      return self.bind(self.bind(env, x), y)
    if k == 'rebind':
      n = self.choice(rebindable)
      txt, m = self.list_expr(env)
      if m < env.floor.get(n, 0):
        c = env.floor.get(n, 0)
        txt, m = '[%s]' % ', '.join(e() for _ in range(c)), c
      lines.append('%s%s = %s' % (sp, n, txt))
      return _setlen(env, n, m)
    if k == 'sliceassign':
      return self.slice_assign(env, ind, lines, rebindable)
    if k == 'lif':
      return self.compound(self.lif_stmt, env, ind, lines)
    if k == 'lwhile':
      return self.compound(self.lwhile_stmt, env, ind, lines)
    if k == 'lfor':
      return self.compound(self.lfor_stmt, env, ind, lines)
    raise AssertionError(k)

  def slice_assign(self, env, ind, lines, cands):
    sp = '  ' * ind
    n = self.choice(cands)
    m = env.lists[n]
    c = self.integer(0, 3)
    rhs = '[%s]' % ', '.join(self.expr(env, 1) for _ in range(c))
    form = self.choice(['insert', 'all', 'prefix', 'tail', 'range', 'dyn'])
    if form == 'insert':
      p = self.integer(0, 3)
      sl, new = '%d:%d' % (p, p), m + c
    elif form == 'all':
      sl, new = ':', c
    elif form == 'prefix':
      p = self.integer(0, 2)
      sl, new = ':%d' % p, max(c, m - p + c)
    elif form == 'tail':
      p = self.integer(0, 2)
      sl, new = '%d:' % p, min(p, m) + c
    elif form == 'range':
      p = self.integer(0, 2)
      q = p + self.integer(0, 2)
      sl, new = '%d:%d' % (p, q), max(c, m - (q - p) + c)
    else:
      sl, rhs1 = self.store_parts(env, n, slice_bounds=True)
      rhs, c, new = '[%s]' % rhs1, 1, 1
    if new < env.floor.get(n, 0):
      # would break the floor of the region: insert instead
      sl, new = '0:0', m + c
    self.note('lists:slice_assign')
    lines.append('%s%s[%s] = %s' % (sp, n, sl, rhs))
    return _setlen(env, n, new)

  def pop_arg(self, env, n, effects=False):
    m = env.lists[n]
    k = self.choice(['', '', '', 'const', 'const', 'dyn'])
    if k == 'const' and m >= 1:
      self.note('lists:pop_index')
      return self.const_index(env, n)
    if k == 'dyn':
      self.note('lists:pop_index')
      return '%s %% len(%s)' % (self.expr(env, 1, effects), n)
    return ''

  def pop_stmt(self, env, ind, lines, shr):
    sp = '  ' * ind
    n = self.choice(shr)
    L = env.lists
    after = _setlen(env, n, L[n] - 1)
    if env.in_try and self.excl('no_pop_in_try'):
      self.note('excluded:no_pop_in_try')
      lines.append('%s%s.append(%s)' % (sp, n, self.expr(env)))
      return _setlen(env, n, L[n] + 1)
    if env.in_try:
      self.note('lists:pop_in_try')
    forms = ['assign'] * 4 + ['bare', 'first_operand', 'call_arg', 'call_arg', 'pure_before', 'if_test',
                              'append_arg', 'dependent_before', 'lazy']
    if self.cfg['jumps'] and not env.in_finally:
      forms += ['ret']
    if any(self.can_shrink(after, x) for x in L):
      forms += ['two'] * 3
    if any(after.lists[x] >= 1 for x in L):
      forms += ['setitem_rhs']
    deep = env.depth < self.cfg['max_depth'] and self.budget > 1
    if deep and env.floor.get(n, 0) <= L[n] - 1:
      forms += ['loop_test']
    f = self.choice(forms)
    redirect = {'append_arg': 'no_pop_in_append_statement', 'dependent_before': 'no_pop_after_dependent_operand',
                'lazy': 'no_pop_in_lazy_position', 'loop_test': 'no_pop_in_loop_test'}
    if f in redirect and self.excl(redirect[f]):
      self.note('excluded:' + redirect[f])
      f = 'assign'
    if f == 'if_test' and not deep:
      f = 'assign'
    self.note('lists:pop_' + f)
    pop = '%s.pop(%s)' % (n, self.pop_arg(env, n))
    if f == 'assign':
      x = self.target(env)
      lines.append('%s%s = %s' % (sp, x, pop))
      return self.bind(after, x)
    if f == 'bare':
      lines.append(sp + pop)
      return after
    if f == 'first_operand':
      x = self.target(env)
      lines.append('%s%s = %s %s %s' % (sp, x, pop, self.choice(['+', '-', '<', '==']), self.expr(after, 1)))
      return self.bind(after, x)
    if f == 'pure_before':
      x = self.target(env)
      atoms = sorted(self.int_atoms(env)) + ['1', '2']
      lines.append('%s%s = %s %s %s' % (sp, x, self.choice(atoms), self.choice(['+', '-', '*']), pop))
      return self.bind(after, x)
    if f == 'call_arg':
      lines.append(sp + self.tracer(pop))
      return after
    if f == 'ret':
      self.note('return')
      if env.loop or env.depth:
        self.note('early_return')
      lines.append('%sreturn %s' % (sp, pop))
      return None
    if f == 'two':
      n2 = self.choice(sorted(x for x in L if self.can_shrink(after, x)))
      if self.can_shrink(after, n) and self.chance(50):
        n2 = n   # the same list twice: the order of the two pops is observable
      x = self.target(env)
      lines.append('%s%s = %s %s %s.pop()' % (sp, x, pop, self.choice(['-', '+']), n2))
      return self.bind(_setlen(after, n2, after.lists[n2] - 1), x)
    if f == 'setitem_rhs':
      n2 = self.choice(sorted(x for x in L if after.lists[x] >= 1))
      lines.append('%s%s[%s] = %s' % (sp, n2, self.const_index(after, n2), pop))
      return after
    if f == 'if_test':
      hdr = 'if %s %s %s:' % (pop, self.choice(['>', '<=', '==']), self.expr(after, 1))
      return self.compound(lambda en, i, ls: self.cond_stmt(en, i, ls, hdr, en, en), after, ind, lines)
    if f == 'append_arg':
      tg = self.choice(sorted(x for x in L if self.can_grow(env, x)) or [n])
      lines.append('%s%s.append(%s%s)' % (sp, tg, pop, self.choice(['', ' + 1'])))
      return _setlen(after, tg, after.lists[tg] + 1)
    if f == 'dependent_before':
      x = self.target(env)
      pre = self.choice(['%s[-1]' % n, 'len(%s)' % n, 'sum(%s)' % n])
      lines.append('%s%s = %s %s %s.pop()' % (sp, x, pre, self.choice(['+', '-']), n))
      return self.bind(after, x)
    if f == 'lazy':
      x = self.target(env)
      c = self.expr(env, 1)
      form = self.choice(['%s and %s.pop()', '%s or %s.pop()', '(%s.pop() if %s else 0)', '(0 if %s else %s.pop())'])
      lines.append('%s%s = %s' % (sp, x, form % ((n, c) if form.startswith('(%s.pop') else (c, n))))
      return self.bind(after, x)
    if f == 'loop_test':
      return self.compound(lambda en, i, ls: self.lwhile_stmt(en, i, ls, pop_in_test=n), env, ind, lines)
    raise AssertionError(f)

  def cond_stmt(self, env, ind, lines, header, env_true, env_false):
    """if <header>: block [else: block]; branch environments given by the caller."""
    sp = '  ' * ind
    self.note('if')
    lines.append(sp + header)
    self.assign_stack.append(set())
    o1 = self.block(self.sub(env_true), ind + 1, lines)
    a1 = self.assign_stack.pop()
    outs = [o1]
    assigned = [a1]
    if self.chance(50):
      mark = len(lines)
      lines.append(sp + 'else:')
      self.assign_stack.append(set())
      o2 = self.block(self.sub(env_false), ind + 1, lines)
      a2 = self.assign_stack.pop()
      if (a1 & a2) and (env.depth >= 1 or self.meta.get('return')) and self.excl('no_all_branch_rebind_in_nested_block'):
        self.note('excluded:no_all_branch_rebind_in_nested_block')
        del lines[mark:]
        outs.append(env_false)
      else:
        outs.append(o2)
        assigned.append(a2)
    else:
      outs.append(env_false)
    for a_ in assigned:
      self.mark(*a_)
    if all(o is None for o in outs):
      return None
    j = progen._join(outs, env)
    j.depth = env.depth
    return self.restore(j, env)

  def lif_stmt(self, env, ind, lines):
    n = self.choice(sorted(env.lists))
    m = env.lists[n]
    k = self.integer(0, 3)
    form = self.choice(['gt', 'gt', 'truth', 'not', 'ge'])
    self.note('lists:len_guard_if')
    if form == 'gt':
      return self.cond_stmt(env, ind, lines, 'if len(%s) > %d:' % (n, k), _setlen(env, n, max(m, k + 1)), env)
    if form == 'ge':
      return self.cond_stmt(env, ind, lines, 'if %d <= len(%s):' % (k, n), _setlen(env, n, max(m, k)), env)
    if form == 'truth':
      return self.cond_stmt(env, ind, lines, 'if %s:' % n, _setlen(env, n, max(m, 1)), env)
    return self.cond_stmt(env, ind, lines, 'if not %s:' % n, env, _setlen(env, n, max(m, 1)))

  def _after_loop(self, env, assigned):
    e = env.copy()
    for x in assigned:
      if e.bound.get(x) == 'int':
        del e.bound[x]
      if x not in e.bound:
        e.maybe.add(x)
    return e

  def lwhile_stmt(self, env, ind, lines, pop_in_test=None):
    """while <counter bound> and len(xs) > k [and xs.pop() ...]: the body may consume xs."""
    sp = '  ' * ind
    self.note('while')
    self.note('lists:len_guard_while')
    if env.loop:
      self.note('nested_loop')
    w = 'w%d' % self.wcount
    self.wcount += 1
    bound = self.integer(0, self.cfg['wbound'])
    lines.append('%s%s = 0' % (sp, w))
    env = env.copy()
    env.bound[w] = 'wcounter'
    n = pop_in_test or self.choice(sorted(env.lists))
    k = self.integer(0, 2)
    body_env = self.sub(env, loop=env.loop + 1)
    fl = body_env.floor.get(n, 0)
    if pop_in_test:
      # the floor of n must survive the pop of the test in every evaluation of the test
      k = max(k, env.floor.get(n, 0))
      body_env.floor = dict(body_env.floor)
      body_env.floor[n] = env.floor.get(n, 0)
      fl = body_env.floor[n]
      if self.frames:
        self.frames[-1].append(_setlen(body_env, n, fl))
      lines.append('%swhile %s < %d and len(%s) > %d and %s.pop() %s %s:' % (
          sp, w, bound, n, k, n, self.choice(['>', '<=', '!=']), self.expr(env, 1, False)))
      body_env = _setlen(body_env, n, max(fl, k))
    else:
      lines.append('%swhile %s < %d and len(%s) > %d:' % (sp, w, bound, n, k))
      body_env = _setlen(body_env, n, max(body_env.lists[n], k + 1))
    lines.append('%s  %s += 1' % (sp, w))
    self.assign_stack.append(set())
    self.block(body_env, ind + 1, lines)
    assigned = self.assign_stack.pop()
    return self._after_loop(env, assigned)

  def lfor_stmt(self, env, ind, lines):
    sp = '  ' * ind
    self.note('for')
    if env.loop:
      self.note('nested_loop')
    # the base grammar appends to l (trace mode): iterating l, even a copy of it, while the body
    # appends to it doubles it per execution - exponential under nesting
    names = sorted(x for x in env.lists if x != 'l' or self.mode == 'rec')
    n = self.choice(names)
    direct_ok = n != 'l' and n not in env.growonly
    forms = ['copy', 'copy', 'range_len', 'range_len', 'enumerate_copy']
    if direct_ok:
      forms += ['direct'] * 3 + ['reversed', 'enumerate']
    f = self.choice(forms)
    self.note('lists:for_' + f)
    x = 'i%d' % self.newk()
    y = 'j%d' % self.kcount
    targets = [x]
    tg = x
    frozen = set(env.frozen)
    validx = set(env.validx)
    nogrow = set(env.nogrow) | {n}   # a list iterated through a copy may shrink in the body, never grow
    if f == 'copy':
      it = self.choice(['%s[:]', 'list(%s)', '%s[1:]', '%s[::-1]', 'sorted(%s)', '%s + [1]']) % n
    elif f == 'direct':
      it = n
      frozen.add(n)
    elif f == 'reversed':
      it = 'reversed(%s)' % n
      frozen.add(n)
    elif f == 'range_len':
      it = 'range(len(%s))' % n
      frozen.add(n)
      validx.add((x, n))
    elif f == 'enumerate':
      it = 'enumerate(%s)' % n
      tg, targets = '%s, %s' % (x, y), [x, y]
      frozen.add(n)
      validx.add((x, n))
    else:
      it = 'enumerate(%s[:])' % n
      tg, targets = '%s, %s' % (x, y), [x, y]
    lines.append('%sfor %s in %s:' % (sp, tg, it))
    pre = env.copy()
    pre.frozen = frozenset(frozen)
    pre.validx = frozenset(validx)
    pre.nogrow = frozenset(nogrow)
    body_env = self.sub(pre, loop=env.loop + 1, for_targets=env.for_targets + tuple(targets))
    for t_ in targets:
      body_env.bound[t_] = 'int'
      body_env.maybe.discard(t_)
    body_env.readonly = set(body_env.readonly) | set(targets)
    self.assign_stack.append(set(targets))
    self.mark(*targets)
    self.block(body_env, ind + 1, lines)
    assigned = self.assign_stack.pop()
    return self._after_loop(env, assigned)


# ----------------------------------------------------------------------------------------------
# modules


def _fresh_env(**kw):
  env = progen._Env()
  env.lists = {}
  env.floor = {}
  env.frozen = frozenset()
  env.growonly = frozenset()
  env.validx = frozenset()
  env.nogrow = frozenset()
  env.in_try = 0
  for k, v in kw.items():
    setattr(env, k, v)
  return env


def _list_literal(g, atoms, lo=0, hi=4):
  c = g.integer(lo, hi)
  return '[%s]' % ', '.join(g.choice(atoms + ['0', '1', '2', '-1', '5']) for _ in range(c)), c


def _module(draw, cfg, mode):
  cfg = dict(cfg or {})
  if mode == 'rec':
    # nothing that would be converted recursively may touch vf.rt's module-global LOG list:
    # no tracer / methods / ext calls, no try (tryin/fin), no decorators (deco)
    cfg.update({'tracer': False, 'try': False, 'def_extras': 0})
  g = LGen(draw, cfg, mode)
  cfg = g.cfg
  lines = ['import malt', 'from vf.rt import *', 'G0 = 0', 'G1 = 5', '']
  saved = dict((k, cfg[k]) for k in ('defs', 'composites', 'globals', 'nonlocals', 'unbound_reads', 'lambdas', 'try', 'names', 'list_pct'))
  # int helpers (as in progen): no list variables at all
  nh = draw(st.integers(0, cfg['helpers'])) if cfg['helpers'] else 0
  for i in range(nh):
    name = 'h%d' % (i + 1)
    n = draw(st.integers(1, 2))
    params = ['x', 'y'][:n]
    env = _fresh_env(has_o=False, int_return=True)
    for p in params:
      env.bound[p] = 'int'
    cfg.update(defs=False, composites=False, unbound_reads=False, lambdas=False, names=['r0', 'r1'] + params)
    cfg['try'] = False
    body = g.function(name, params, 0, env, budget=8)
    cfg.update(saved)
    lines.append('def %s(%s):' % (name, ', '.join(params)))
    lines.extend(body)
    lines.append('')
    g.helpers.append((name, n))
    if mode == 'rec':
      g.ihelpers.append((name, n))
  # list helpers: list operations on their own parameter (never shrunk) and on a local list
  nl = draw(st.integers(0, 2))
  for i in range(nl):
    name = 'hl%d' % (i + 1)
    env = _fresh_env(has_o=False, int_return=True)
    env.bound['x'] = 'int'
    lit, c = _list_literal(g, ['x'], 0, 3)
    env.lists = {'ys': 0, 'zs': c}
    env.floor = {'ys': 0, 'zs': 0}
    env.growonly = frozenset(['ys'])
    cfg.update(defs=False, composites=False, unbound_reads=False, lambdas=False, names=['r0', 'r1', 'x'], list_pct=65)
    cfg['try'] = False
    body = g.function(name, ['ys', 'x'], 0, env, budget=7)
    cfg.update(saved)
    lines.append('def %s(ys, x):' % name)
    lines.append('  zs = %s' % lit)
    lines.extend(body)
    lines.append('')
    g.lhelpers.append(name)
  helper_meta = dict(g.meta)
  g.meta = {}
  lines.append('def make():')
  lines.append('  c0 = 10')
  lines.append('  c1 = 20')
  lines.append('  def prog(a, b, o, d, l):')
  env = _fresh_env()
  for p in ('a', 'b'):
    env.bound[p] = 'int'
  if cfg['globals'] and draw(st.integers(0, 99)) < 20:
    lines.append('    global G0')
    env.declared.add('G0')
    g.note('global_decl')
  if cfg['nonlocals'] and draw(st.integers(0, 99)) < 20:
    lines.append('    nonlocal c0')
    env.declared.add('c0')
    g.note('nonlocal_decl')
  for n in ('c0', 'c1', 'G0', 'G1'):
    env.bound[n] = 'int'
  env.readonly = {'c0', 'c1', 'G0', 'G1'}
  if cfg['defs'] and draw(st.integers(0, 99)) < 20:
    g.note('predefined_local_fns')
    for f in cfg['fn_names']:
      lines.append('    def %s(q):' % f)
      lines.append('      return q')
      env.bound[f] = 'fn'
  # the list variables of the function under test: the parameter l ([1, 2, 3], never below one
  # element because the base grammar reads l[0] / l[-1]) and one or two local lists
  env.lists = {'l': 3}
  env.floor = {'l': 1}
  for i in range(draw(st.integers(1, 2))):
    lit, c = _list_literal(g, ['a', 'b'])
    lines.append('    xs%d = %s' % (i, lit))
    env.lists['xs%d' % i] = c
    env.floor['xs%d' % i] = 0
  body = g.function('prog', ['a', 'b', 'o', 'd', 'l'], 1, env)
  lines.extend(body)
  lines.append('  def cells():')
  lines.append('    return (c0, c1)')
  lines.append('  return prog, cells')
  lines.append('')
  meta = dict(g.meta)
  for k, v in helper_meta.items():
    meta['helper:' + k] = v
  meta['nhelpers'] = nh
  meta['nlisthelpers'] = nl
  return '\n'.join(lines) + '\n', meta


FEATURES = [['LISTS'], ['LISTS'], ['LISTS', 'BUILTIN_FUNCTIONS'], ['BUILTIN_FUNCTIONS', 'LISTS'], ['LISTS', 'EQUALITY_OPERATORS'],
            ['EQUALITY_OPERATORS', 'LISTS']]


@st.composite
def programs(draw, cfg=None, excl=LIST_EXCL):
  """Strategy: {'src', 'inputs', 'meta', 'config'} for one LISTS case."""
  mode = draw(st.sampled_from(['trace', 'trace', 'trace', 'rec', 'rec']))
  c = dict(cfg or {})
  c['excl'] = tuple(C01_EXCL) + tuple(excl)
  src, meta = _module(draw, c, mode)
  n = draw(st.integers(3, 5))
  inputs = [[0, 0], [3, 2]]
  for _ in range(n - 2):
    inputs.append([draw(st.integers(-2, 5)), draw(st.integers(-2, 5))])
  config = {
      'entry': draw(st.sampled_from(['to_graph', 'to_graph', 'convert'])),
      # recursive conversion only when the program calls nothing that appends to a non-local list
      # (every vf.rt function logs with LOG.append on the module global LOG)
      'recursive': draw(st.sampled_from([True, True, False])) if mode == 'rec' else False,
      'features': draw(st.sampled_from(FEATURES)),
      'spelling': draw(st.sampled_from(['tuple', 'single', 'list'])),
  }
  meta['mode=' + mode] = 1
  return {'src': src, 'inputs': inputs, 'meta': meta, 'config': config}


# ----------------------------------------------------------------------------------------------
# oracle (C01's)


def run_case(case, limit=10.0):
  """Executes C01's oracle on one case. Returns (failures [(bucket, detail)], info)."""
  fails = []
  info = {'runs': 0, 'exempt': 0, 'spy': 0, 'lspy': {}, 'helper_converted': False, 'outcomes': []}
  src, config = case['src'], case['config']
  try:
    mod = harness.load_module(src)
  except Exception as e:
    info['generator_slip'] = repr(e)
    return fails, info
  try:
    diffobs.SPY.install()
    LSPY.install(names=LIST_OPS)
    for inp in case['inputs']:
      prog, cells = mod.make()
      o = diffobs.observe(prog, inp, mod, cells, limit)
      prog2, cells2 = mod.make()
      diffobs.SPY.reset()
      LSPY.reset()
      try:
        with diffobs.time_limit(30):
          conv = diffobs.convert_entry(prog2, config)
      except diffobs.Timeout:
        fails.append(('convert:timeout', {'input': inp}))
        break
      except Exception as e:
        fails.append(('convert:' + harness.exc_bucket(e), {'exc': repr(e)[:600]}))
        break
      c = diffobs.observe(conv, inp, mod, cells2, limit)
      info['runs'] += 1
      info['spy'] += sum(diffobs.SPY.counts.values())
      for k, v in LSPY.counts.items():
        info['lspy'][k] = info['lspy'].get(k, 0) + v
      if any(n.startswith('ag__h') for n in (diffobs.SPY.callers | LSPY.callers)):
        info['helper_converted'] = True
      info['outcomes'].append(o['outcome'][0] if o['outcome'][0] != 'exc' else 'exc:' + o['outcome'][1])
      if o['prop'] is not None:
        info['exempt'] += 1
      r = diffobs.compare(o, c)
      if r is not None:
        b, d = r
        d = dict(d) if isinstance(d, dict) else {'detail': d}
        d['input'] = inp
        fails.append((b, d))
        break
  finally:
    _KEEP.append(mod)
    harness.forget_generated(mod)
  return fails, info


def run_shard(ctx, acc, excl=LIST_EXCL):
  b = ctx.budget
  total = b.get('list_programs', budget_share(ctx.tier))
  n = max(1, -(-int(total) // ctx.nshards))
  cfg = {'max_depth': b.get('max_depth', 3), 'budget': b.get('budget', 26)}
  strat = programs(cfg, excl)

  def body(prog):
    config = prog['config']
    case = {'kind': 'lists', 'src': prog['src'], 'inputs': prog['inputs'], 'config': config, 'hashseed': ctx.hashseed}
    fails, info = run_case(case)
    nest, jump, ncomp = diffobs.structure(case['src'])
    nlist = sum(info['lspy'].values())
    nontriv = (jump or nest >= 2) and info['spy'] >= 1 and nlist >= 1
    meta = prog['meta']
    classes = ['lists:entry=' + config['entry'], 'lists:recursive=%s' % config['recursive'],
               'lists:features=' + '+'.join(config['features'])]
    classes += ['lists:' + k for k in meta if k.startswith('mode=')]
    classes += ['lists:has:' + k[6:] for k in meta if k.startswith('lists:')]
    classes += ['lists:stmt:' + k[10:] for k in meta if k.startswith('stmt:list_')]
    classes += ['lists:ctx:' + k for k in ('try', 'with', 'nested_def', 'nested_loop', 'early_return', 'break', 'continue', 'finally',
                                           'closure_nonlocal_write', 'helper_call') if k in meta]
    classes += ['lists:' + k for k in meta if k.startswith('excluded:')]
    classes += ['lists:op:' + k for k, v in info['lspy'].items() if v]
    if info.get('generator_slip'):
      classes.append('lists:generator_slip')
      acc.notes.append(info['generator_slip'])
    if info['helper_converted']:
      classes.append('lists:helper_converted_recursively')
    if info['exempt']:
      classes.append('lists:run_with_exempt_finally_propagation')
    for oc in set(info['outcomes']):
      classes.append('lists:orig_outcome=' + oc)
    if nontriv:
      classes.append('lists:nontrivial')
    sample = None
    if nontriv and (len(acc.samples) < acc.MAX_SAMPLES or ncomp > (acc.biggest[0] if acc.biggest else 0)):
      sample = {'src': case['src'], 'inputs': case['inputs'], 'config': config}
    acc.case(key=common.h8([case['src'], config]), nontrivial=nontriv, classes=classes, sample=sample, size=ncomp,
             n=max(1, info['runs']))
    acc.count('lists:programs')
    for bkt, d in fails:
      acc.fail('lists:' + bkt, case, d)

  common.hyp_run(ctx, strat, body, n, extra_seed=3)


def replay(case):
  fails, info = run_case(case)
  return [{'bucket': 'lists:' + b, 'detail': d} for b, d in fails]


def shrink(case, bucket, deadline):
  return shrinker.shrink_case(case, bucket, replay, deadline)
