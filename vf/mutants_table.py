"""Hand-written sensitivity mutants (DESIGN 1.6): {ID: [(name, file, old, new)]}."""
MUTANTS = {
 'C01': [
  ('m1_continue_guard_not_propagated', 'malt/converters/continue_statements.py',
   "      block.create_guard_next = True\n      if block.is_loop_type:", "      block.create_guard_next = block.is_loop_type\n      if block.is_loop_type:"),
  ('m2_while_return_guard_dropped', 'malt/converters/return_statements.py',
   "      while not do_return and cond:", "      while cond:"),
  ('m3_lazy_and_eager', 'malt/operators/logical.py',
   "  return cond and b()", "  b_val = b()\n  return cond and b_val"),
  ('m4_nonlocals_clause_dropped', 'malt/converters/control_flow.py',
   "      if s in live_in or s in live_out or s in nonlocals:", "      if s in live_in or s in live_out:"),
  ('m5_for_extra_test_not_checked_first', 'malt/operators/control_flow.py',
   "    if guarded_extra_test():\n      for target in iter_:\n        body(target)\n        if not guarded_extra_test():\n          break",
   "    for target in iter_:\n      body(target)\n      if not guarded_extra_test():\n        break"),
  ('m6_ifexp_eager', 'malt/operators/conditional_expressions.py',
   "def _py_if_exp(cond, if_true, if_false):", "def _py_if_exp(cond, if_true, if_false):\n  if_false_val = if_false() if not cond else None"),
  ('m8_ld_silent', 'malt/operators/variables.py',
   "  if isinstance(v, Undefined):\n    return v.read()\n  return v", "  return v"),
 ],
}
