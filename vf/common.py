"""Shared runner machinery: sharding, seeds, accumulation, replay, known findings, evidence.

Every check module `vf.cNN` exposes
    ID, LEVEL, RULE, ASSUMPTIONS, TECHNIQUE
    budget(tier) -> dict                 (numbers used by shard())
    shard(ctx, acc) -> None              (generate + check; records into acc, never raises for
                                          a property failure)
    replay(case) -> list[dict]           (re-executes the oracle on one saved case without
                                          Hypothesis; [] = holds; each dict has 'bucket','detail')
optional
    NSHARDS(tier) -> int, HASHSEEDS(tier) -> list[str], shrink(case, bucket, deadline) -> case
"""
import collections
import hashlib
import importlib
import json
import os
import subprocess
import sys
import tempfile
import time
import traceback

ROOT = os.path.dirname(os.path.dirname(os.path.abspath(__file__)))
REPO = os.environ.get('VF_REPO', '/repo')
OUT = os.environ.get('VF_OUT', ROOT)  # evidence + found replays (sensitivity runs redirect this)
PY = sys.executable


def h8(obj):
  if not isinstance(obj, (bytes, str)):
    obj = json.dumps(obj, sort_keys=True, default=repr)
  if isinstance(obj, str):
    obj = obj.encode()
  return hashlib.sha1(obj).hexdigest()[:12]


# failure buckets that only say a time budget was hit (never a violation)
INCONCLUSIVE = ('convert:timeout',)

class Ctx(object):
  def __init__(self, d):
    self.tier = d['tier']
    self.seed = int(d['seed'])
    self.shard = int(d['shard'])
    self.nshards = int(d['nshards'])
    self.budget = d.get('budget', {})
    self.hashseed = d.get('hashseed', '0')
    self.extra = d.get('extra', {})

  @property
  def hseed(self):
    """Seed handed to Hypothesis for this shard."""
    return self.seed * 1000 + self.shard

  def share(self, key, default=None):
    """Per-shard share of a budget entry (ceil)."""
    n = self.budget.get(key, default)
    if n is None:
      return None
    return max(1, -(-int(n) // self.nshards))


class Acc(object):
  """Accumulator of what a shard did. JSON-serialisable via dump()."""

  MAX_SAMPLES = 4
  MAX_FAILS_PER_BUCKET = 3
  MAX_BUCKETS = 12

  def __init__(self):
    self.evaluations = 0
    self.nontrivial = set()
    self.classes = collections.Counter()
    self.samples = []
    self.biggest = None  # (size, sample)
    self.failures = collections.OrderedDict()  # bucket -> [ {case, detail} ]
    self.notes = []

  def case(self, key=None, nontrivial=False, classes=(), sample=None, size=0, n=1):
    """Record n executed cases. key identifies the case for distinct counting."""
    self.evaluations += n
    if nontrivial:
      self.nontrivial.add(key if isinstance(key, str) and len(key) == 12 else h8(key))
      if sample is not None:
        if len(self.samples) < self.MAX_SAMPLES:
          self.samples.append(sample)
        if self.biggest is None or size > self.biggest[0]:
          self.biggest = (size, sample)
    for c in classes:
      self.classes[c] += 1

  def count(self, cls, n=1):
    self.classes[cls] += n

  def fail(self, bucket, case, detail):
    if bucket.startswith(INCONCLUSIVE):
      # a time budget was hit: inconclusive, counted, never a violation
      self.classes['inconclusive:' + bucket] += 1
      return
    lst = self.failures.setdefault(bucket, [])
    if len(self.failures) > self.MAX_BUCKETS and not lst:
      del self.failures[bucket]
      self.classes['failures_dropped_bucket_overflow'] += 1
      return
    self.classes['failures_total'] += 1
    if len(lst) < self.MAX_FAILS_PER_BUCKET:
      lst.append({'case': case, 'detail': detail})

  def dump(self):
    samples = list(self.samples)
    if self.biggest is not None and self.biggest[1] not in samples:
      samples.append(self.biggest[1])
    return {
        'evaluations': self.evaluations,
        'nontrivial': sorted(self.nontrivial),
        'classes': dict(self.classes),
        'samples': samples,
        'failures': self.failures,
        'notes': self.notes,
    }


def hyp_run(ctx, strategy, body, max_examples, extra_seed=0):
  """Runs `body(case)` on max_examples Hypothesis draws of `strategy`, generate phase only.

  body must record property failures in the accumulator and must not raise for them: an
  exception escaping body is a harness error.
  """
  import hypothesis
  from hypothesis import HealthCheck, Phase, given, settings

  @hypothesis.seed(ctx.hseed * 7 + extra_seed)
  @settings(max_examples=max_examples, database=None, deadline=None, derandomize=False,
            phases=[Phase.generate], report_multiple_bugs=False,
            suppress_health_check=list(HealthCheck))
  @given(strategy)
  def run(case):
    body(case)

  run()


# ----------------------------------------------------------------------------------------------
# known findings


def load_known():
  p = os.path.join(ROOT, 'known_findings.json')
  if not os.path.exists(p):
    return []
  with open(p) as f:
    return json.load(f).get('findings', [])


def committed_replays(pid):
  d = os.path.join(ROOT, 'replays', pid)
  out = []
  if os.path.isdir(d):
    for n in sorted(os.listdir(d)):
      if n.endswith('.json'):
        out.append(os.path.join(d, n))
  return out


# ----------------------------------------------------------------------------------------------
# worker entry


def worker_main(argv):
  import warnings
  warnings.filterwarnings('ignore', category=SyntaxWarning)
  modname, ctxfile, outfile = argv
  with open(ctxfile) as f:
    ctx = Ctx(json.load(f))
  mod = importlib.import_module('vf.' + modname)
  acc = Acc()
  t0 = time.time()
  mod.shard(ctx, acc)
  d = acc.dump()
  d['wall_s'] = time.time() - t0
  with open(outfile, 'w') as f:
    json.dump(d, f, default=repr)
  return 0


# ----------------------------------------------------------------------------------------------
# parent


def _spawn_workers(modname, ctxs, tmpdir, wall_cap):
  procs = []
  for i, c in enumerate(ctxs):
    cf = os.path.join(tmpdir, 'ctx%d.json' % i)
    of = os.path.join(tmpdir, 'out%d.json' % i)
    lf = os.path.join(tmpdir, 'log%d.txt' % i)
    with open(cf, 'w') as f:
      json.dump(c, f)
    env = dict(os.environ)
    env['PYTHONHASHSEED'] = str(c.get('hashseed', '0'))
    env['TMPDIR'] = os.path.join(tmpdir, 'w%d' % i)
    os.makedirs(env['TMPDIR'], exist_ok=True)
    log = open(lf, 'w')
    p = subprocess.Popen([PY, '-m', 'vf.worker', modname, cf, of], env=env, stdout=log,
                         stderr=subprocess.STDOUT, cwd=ROOT)
    procs.append((p, of, lf, log))
  results, errors = [], []
  deadline = time.time() + wall_cap
  for p, of, lf, log in procs:
    try:
      rc = p.wait(timeout=max(1, deadline - time.time()))
    except subprocess.TimeoutExpired:
      p.kill()
      p.wait()
      rc = 'timeout'
    log.close()
    if rc == 0 and os.path.exists(of):
      with open(of) as f:
        results.append(json.load(f))
    else:
      with open(lf) as f:
        errors.append((rc, f.read()[-4000:]))
  return results, errors


def write_evidence(mod, tier, seed, wall, cov, violations, assumptions=None):
  ev = {
      'property_id': mod.ID,
      'tier': tier,
      'seed': seed,
      'level': mod.LEVEL,
      'coverage': cov,
      'assumptions': list(assumptions if assumptions is not None else mod.ASSUMPTIONS),
      'wall_s': round(wall, 2),
      'violations': violations,
  }
  os.makedirs(os.path.join(OUT, 'evidence'), exist_ok=True)
  p = os.path.join(OUT, 'evidence', mod.ID + '.json')
  tmp = p + '.tmp'
  with open(tmp, 'w') as f:
    json.dump(ev, f, indent=1, default=repr)
  os.replace(tmp, p)


def save_replay(pid, bucket, case, detail, found=True):
  d = os.path.join(OUT, 'replays', 'found') if found else os.path.join(ROOT, 'replays', pid)
  os.makedirs(d, exist_ok=True)
  p = os.path.join(d, '%s-%s.json' % (pid, h8(bucket)))
  with open(p, 'w') as f:
    json.dump({'property': pid, 'bucket': bucket, 'case': case, 'detail': detail}, f, indent=1,
              default=repr)
  return p


def bucket_matches(bucket, pattern):
  return bucket == pattern or bucket.startswith(pattern)


class _Deadline(BaseException):
  pass


class deadline(object):
  """Bounds a step that runs in the parent process (replays, shrinking): a change of the tested code that makes it
  loop forever must not hang the check. Hitting the bound is inconclusive, never a violation."""

  def __init__(self, seconds):
    self.seconds = seconds

  def __enter__(self):
    import signal

    def on_alarm(signum, frame):
      raise _Deadline()
    self.old = signal.signal(signal.SIGALRM, on_alarm)
    signal.setitimer(signal.ITIMER_REAL, self.seconds)
    return self

  def __exit__(self, *a):
    import signal
    signal.setitimer(signal.ITIMER_REAL, 0)
    signal.signal(signal.SIGALRM, self.old)
    return False


REPLAY_LIMIT_S = 60


def run_replay_file(mod, path):
  with open(path) as f:
    rec = json.load(f)
  try:
    with deadline(REPLAY_LIMIT_S):
      fails = [f for f in mod.replay(rec['case']) if not f['bucket'].startswith(INCONCLUSIVE)]
  except _Deadline:
    print('INCONCLUSIVE: replay %s did not finish within %ds' % (os.path.relpath(path, ROOT), REPLAY_LIMIT_S))
    fails = []
  return rec, fails


def main(argv):
  """Entry point; everything the run writes to a temp dir goes under one private directory that is
  removed on exit (generated modules, malt's generated files, worker scratch)."""
  import shutil
  base = tempfile.mkdtemp(prefix='vf_run_')
  os.environ['TMPDIR'] = base
  tempfile.tempdir = base
  try:
    return _main(argv)
  finally:
    tempfile.tempdir = None
    shutil.rmtree(base, ignore_errors=True)


def _main(argv):
  import logging
  import warnings
  warnings.filterwarnings('ignore', category=SyntaxWarning)
  logging.getLogger().setLevel(logging.ERROR)   # malt's fallback warnings during shrinking are noise here
  if not argv:
    print('usage: check <ID> [quick|thorough] [--replay path]')
    return 2
  pid = argv[0].upper()
  modname = pid.lower()
  tier = os.environ.get('VERIF_TIER', 'quick')
  replay_path = None
  rest = argv[1:]
  while rest:
    a = rest.pop(0)
    if a in ('quick', 'thorough'):
      tier = a
    elif a == '--replay':
      replay_path = rest.pop(0)
    else:
      print('unknown argument', a)
      return 2
  if tier not in ('quick', 'thorough'):
    tier = 'quick'
  try:
    seed = int(os.environ.get('VERIF_SEED', '1'))
  except ValueError:
    seed = 1
  try:
    mod = importlib.import_module('vf.' + modname)
  except Exception:
    traceback.print_exc()
    print('HARNESS-ERROR: cannot import check module for', pid)
    return 2

  if replay_path is not None:
    try:
      rec, fails = run_replay_file(mod, replay_path)
    except Exception:
      traceback.print_exc()
      print('HARNESS-ERROR: replay crashed')
      return 2
    if fails:
      for f in fails:
        print('REPLAY-FAIL bucket=%s detail=%s' % (f['bucket'], json.dumps(f['detail'], default=repr)[:1500]))
      print('VIOLATION property=%s replay=%s' % (pid, replay_path))
      return 1
    print('replay holds:', replay_path)
    return 0

  t0 = time.time()
  violations = []  # (bucket, path)
  known_lines = []
  known = [k for k in load_known() if k['property'] == pid]
  known_by_replay = {os.path.normpath(os.path.join(ROOT, k['replay'])): k for k in known if k.get('replay')}
  replayed = 0
  harness_errors = []

  # 1. replay tier ----------------------------------------------------------------------------
  for path in committed_replays(pid):
    try:
      rec, fails = run_replay_file(mod, path)
    except Exception:
      harness_errors.append('replay %s crashed:\n%s' % (path, traceback.format_exc()))
      continue
    replayed += 1
    k = known_by_replay.get(os.path.normpath(path))
    if k is not None and k.get('status') == 'known':
      pats = k.get('buckets') or [k.get('bucket', '')]
      matching = [f for f in fails if any(bucket_matches(f['bucket'], p) for p in pats)]
      other = [f for f in fails if f not in matching]
      if matching:
        known_lines.append('KNOWN-FINDING: property=%s %s: %s' % (pid, k['id'], k['what']))
      else:
        print('NOTE: known finding %s no longer reproduces on %s' % (k['id'], os.path.relpath(path, ROOT)))
      for f in other:
        violations.append((f['bucket'], path, f['detail']))
    else:
      for f in fails:
        violations.append((f['bucket'], path, f['detail']))

  # 2. generated tier -------------------------------------------------------------------------
  budget = mod.budget(tier)
  nshards = getattr(mod, 'NSHARDS', lambda t: 16)(tier)
  hashseeds = getattr(mod, 'HASHSEEDS', lambda t, s: ['0'])(tier, seed)
  ctxs = []
  for i in range(nshards):
    ctxs.append({'tier': tier, 'seed': seed, 'shard': i, 'nshards': nshards, 'budget': budget,
                 'hashseed': hashseeds[i % len(hashseeds)]})
  wall_cap = float(os.environ.get('VERIF_WALL_CAP', budget.get('wall_cap', 3000)))
  tmpdir = tempfile.mkdtemp(prefix='vf_%s_' % pid)
  merged = Acc()
  merged_fail = collections.OrderedDict()
  try:
    results, errors = _spawn_workers(modname, ctxs, tmpdir, wall_cap)
    inconclusive_shards = 0
    for rc, txt in errors:
      if rc == 'timeout' and results:
        # a shard hit the wall cap (slow or loaded machine): its part of the search is inconclusive
        inconclusive_shards += 1
        print('INCONCLUSIVE: a shard of %s hit the wall cap of %ds; its cases are not counted' % (pid, wall_cap))
        continue
      harness_errors.append('worker rc=%s\n%s' % (rc, txt))
    if inconclusive_shards:
      merged.classes['inconclusive:shards_over_wall_cap'] += inconclusive_shards
    shard_walls = []
    for r in results:
      merged.evaluations += r['evaluations']
      merged.nontrivial.update(r['nontrivial'])
      merged.classes.update(r['classes'])
      for s in r['samples']:
        if len(merged.samples) < 5:
          merged.samples.append(s)
      merged.notes.extend(r.get('notes', []))
      shard_walls.append(r.get('wall_s', 0))
      for b, lst in r['failures'].items():
        merged_fail.setdefault(b, []).extend(lst)

    # 3. shrink + save generated failures -----------------------------------------------------
    shrink_budget = budget.get('shrink_s', 20)
    nb = 0
    for b, lst in merged_fail.items():
      nb += 1
      case, detail = lst[0]['case'], lst[0]['detail']
      # skip if the failing input is exactly a listed known finding's input
      if nb <= 4 and hasattr(mod, 'shrink') and not os.environ.get('VF_NOSHRINK'):
        try:
          with deadline(shrink_budget * 4 + 120):
            case2 = mod.shrink(case, b, time.time() + shrink_budget)
            if case2 is not None:
              f2 = [f for f in mod.replay(case2) if f['bucket'] == b]
              if f2:
                case, detail = case2, f2[0]['detail']
        except _Deadline:
          print('NOTE: shrinking did not finish in time, unshrunk case saved')
        except Exception:
          print('NOTE: shrinking crashed, unshrunk case saved\n' + traceback.format_exc())
      path = save_replay(pid, b, case, detail)
      violations.append((b, path, detail))
  finally:
    import shutil
    shutil.rmtree(tmpdir, ignore_errors=True)

  # 4. evidence --------------------------------------------------------------------------------
  wall = time.time() - t0
  cov = {
      'evaluations': merged.evaluations,
      'distinct_nontrivial': len(merged.nontrivial),
      'rule': mod.RULE,
      'samples': merged.samples,
      'classes': dict(sorted(merged.classes.items())),
      'shards': nshards,
      'hashseeds': sorted(set(hashseeds)),
      'budget': budget,
      'replays_executed': replayed,
      'known_findings_replayed': [k['id'] for k in known if k.get('status') == 'known'],
      'fixed_findings_regression_replays': [k['id'] for k in known if k.get('status') == 'fixed'],
      'failure_buckets': [b for b, _, _ in violations],
  }
  if getattr(mod, 'EXHAUSTIVE', False):
    cov['exhaustive'] = True
  extra_cov = getattr(mod, 'extra_coverage', None)
  if extra_cov:
    cov.update(extra_cov(merged, tier))
  if harness_errors:
    cov['harness_errors'] = [e[-1500:] for e in harness_errors]
  if merged.notes:
    cov['notes'] = merged.notes[:20]
  try:
    write_evidence(mod, tier, seed, wall, cov, len(violations))
  except Exception:
    traceback.print_exc()
    harness_errors.append('evidence write failed')

  for l in known_lines:
    print(l)
  print('%s %s seed=%d: %d cases, %d distinct non-trivial, %d replays, %.1fs' %
        (pid, tier, seed, merged.evaluations, len(merged.nontrivial), replayed, wall))
  if violations:
    for b, path, detail in violations:
      print('FAIL bucket=%s detail=%s' % (b, json.dumps(detail, default=repr)[:1200]))
      print('VIOLATION property=%s replay=%s' % (pid, path))
    return 1
  if harness_errors:
    for e in harness_errors:
      print('HARNESS-ERROR:', e[-3000:])
    return 2
  return 0
