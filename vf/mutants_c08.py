"""Hand-written sensitivity mutants for C08 (DESIGN 4.8 "must kill" + realistic neighbours)."""
A = 'malt/pyct/static_analysis/activity.py'
MUTANTS = {
 'C08': [
  # ---- DESIGN must-kill
  ('m1_finalize_drops_globals', A,
   "        self.parent.globals.update(self.globals)\n", ""),
  # m2 is NOT killed and is kept as documentation: the property text speaks about the *classification* of names, which
  # the oracle derives as bound - globals - nonlocals - params and read - (bound - globals - nonlocals); both are
  # invariant under dropping a declared nonlocal from `bound` (and by the language reference `nonlocal` is not a binding).
  # The only observable effect is that `def H` now exports the read to the enclosing function - closer to CPython.
  ('m2_nonlocal_not_bound', A,
   "      self.scope.read.add(qn)\n      self.scope.bound.add(qn)\n      self.scope.nonlocals.add(qn)",
   "      self.scope.read.add(qn)\n      self.scope.nonlocals.add(qn)"),
  ('m3_augassign_write_only', A,
   "      if self._in_aug_assign:\n        self.scope.read.add(qn)\n", ""),
  ('m4_isolated_scope_exports_all_reads', A,
   "        self.parent.read.update(self.read - self.bound)\n        self.parent.annotations.update(self.annotations - self.bound)",
   "        self.parent.read.update(self.read)\n        self.parent.annotations.update(self.annotations - self.bound)"),
  # ---- neighbours
  ('m5_finalize_drops_nonlocals', A,
   "        self.parent.nonlocals.update(self.nonlocals)\n", ""),
  ('m6_global_statement_not_a_read', A,
   "      self.scope.read.add(qn)\n      self.scope.globals.add(qn)", "      self.scope.globals.add(qn)"),
  ('m7_del_not_recorded_as_deleted', A,
   "      self.scope.bound.add(qn)\n      self.scope.deleted.add(qn)", "      self.scope.bound.add(qn)"),
  ('m8_import_as_binds_module_name', A,
   "      qn = qual_names.QN(node.asname)", "      qn = qual_names.QN(node.name.split('.')[0])"),
  ('m9_for_iterate_scope_misses_target', A,
   "    self._enter_scope(False)\n    self.visit(node.target)\n    if anno.hasanno(node, anno.Basic.EXTRA_LOOP_TEST):",
   "    self._enter_scope(False)\n    if anno.hasanno(node, anno.Basic.EXTRA_LOOP_TEST):"),
  ('m10_class_name_not_modified', A,
   "      self.scope.modified.add(qual_names.QN(node.name))\n      self.scope.bound.add(qual_names.QN(node.name))\n      node.bases",
   "      self.scope.bound.add(qual_names.QN(node.name))\n      node.bases"),
  ('m11_comprehension_variables_not_isolated', A,
   "    for l in self.state[_Comprehension]:\n      if qn in l.targets:\n        return\n      if qn.owner_set & set(l.targets):\n        return\n",
   "    for l in self.state[_Comprehension]:\n      if qn in l.targets and isinstance(node.ctx, ast.Store):\n        return\n"),
  ('m12_function_name_not_bound', A,
   "      self.scope.modified.add(function_name)\n      self.scope.bound.add(function_name)",
   "      self.scope.modified.add(function_name)"),
  ('m13_kwonly_parameters_not_declared', A,
   "    node.args.kwonlyargs = self._visit_node_list(node.args.kwonlyargs)\n    if node.args.kwarg is not None:",
   "    if node.args.kwarg is not None:"),
  ('m14_block_bound_not_propagated', A,
   "        self.parent.bound.update(self.bound - self.isolated_names)\n", ""),
  ('m15_composite_store_not_modified', A,
   "      self.scope.modified.add(qn)\n      self.scope.bound.add(qn)\n      if qn.is_composite and composite_writes_alter_parent:",
   "      if not qn.is_composite():\n        self.scope.modified.add(qn)\n      self.scope.bound.add(qn)\n      if qn.is_composite and composite_writes_alter_parent:"),
  ('m16_with_target_not_visited', A,
   "  def visit_withitem(self, node):\n    return self._process_statement(node)",
   "  def visit_withitem(self, node):\n    self._enter_scope(False)\n    node.context_expr = self.visit(node.context_expr)\n    self._exit_and_record_scope(node)\n    return node"),
  ('m17_parallel_blocks_lose_first_branch', A,
   "    for after_child in after_children:\n      self.scope.merge_from(after_child)\n    return parent",
   "    for after_child in after_children[1:]:\n      self.scope.merge_from(after_child)\n    return parent"),
  ('m18_lambda_defaults_read_in_lambda_scope', A,
   "      self._enter_scope(False)\n      node = self._visit_arg_annotations(node)\n      self._exit_and_record_scope(node)\n\n      # A separate Scope tracks the actual function definition.\n      self._enter_scope(True)\n",
   "      self._enter_scope(False)\n      self._exit_and_record_scope(node)\n\n      # A separate Scope tracks the actual function definition.\n      self._enter_scope(True)\n      node = self._visit_arg_annotations(node)\n"),
 ],
}
