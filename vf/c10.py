"""C10 - the conversion cache is coherent, converts once, and is thread-safe.

Three generators share one executable *history interpreter* (class History): a case is a list of
JSON operations (load a module from source, take / derive function objects from it, request a
conversion through a public entry point, drop + garbage collect, ...), so every failure replays
without Hypothesis.

 (a) histories   hypothesis.stateful.RuleBasedStateMachine whose rules append operations: define a
                 module from a template, take f / loop / lam / helper, closures of one factory
                 (shared code object, other cell), functools.wraps wrappers (shared code object,
                 other target - user function, do_not_convert function, copy.copy), bound methods,
                 clones with other globals / defaults / keyword defaults (types.FunctionType on the
                 same code object), redefinition (same names, new source), equal-code twins (same
                 function text in another module), in-place `f.__code__ = g.__code__`, drop + gc,
                 requests through to_graph / convert(...)() / converted_call / PyToPy.transform with
                 an option set from a pool of 8, re-calling an earlier result, a conversion that fails
                 half way (loader fault) followed by a normal request, a request made from inside a
                 do_not_convert function (conversion DISABLED in the calling context only; on the same
                 thread or on a helper thread, operation `dreq`) followed later by ordinary requests of
                 the same function object under the same option set.
 (b) schedules   harness-owned: 2..4 threads each run one PyToPy.transform on a transpiler whose
                 cache and lock are scheduler-aware proxies; every `has`, cache read, cache write,
                 lock acquire and transform_ast entry/exit is a scheduling point that blocks until the
                 test grants it, so the interleaving is a Hypothesis-drawn list of thread ids
                 (deterministic, replayable).  A thread that cannot get the lock is disabled until it
                 is free (no drawn schedule can deadlock the harness).
 (c) stress      free running: 1..32 threads, grouped start barriers, drawn spin delays and switch
                 interval, request lists through the public entry points plus define-convert-drop
                 churn of unrelated functions.

Oracle (all parts): every request is repeated in a *fresh world* (new transpiler instance with an
empty cache, new allowlist cache) on the very same function object with the very same options and
argument; outcome, the options every function scope of the running converted code received, and
the sequence of operator calls (if/while/for with their state symbols and directive options,
converted_call callee names, eq/list operators) must be identical.  The counting transpiler flags a
second run of transform_ast for the same live code object (identity) under equal options.
"""
import collections
import contextlib
import copy
import gc
import os
import sys
import threading
import time
import types
import weakref

from hypothesis import strategies as st

from malt.core import converter
from malt.impl import api
from malt.impl import conversion
from malt.pyct import cache as cache_mod
from malt.pyct import transpiler as transpiler_mod
from vf import common
from vf import harness

ID = 'C10'
LEVEL = 'exploration'
TECHNIQUE = ('model-based stateful property testing (Hypothesis RuleBasedStateMachine over a pool of functions sharing / '
             'not sharing code objects x 8 option sets x 4 entry points) with a fresh-conversion reference model and a '
             'transform counter; harness-owned thread schedules drawn by Hypothesis at 7 scheduling points of '
             'PyToPy.transform_function (scheduler-aware lock and cache proxies); free-running multi-thread stress')
RULE = ('evaluations = oracle-compared requests (each one executed against the accumulated caches and again in a fresh '
        'world). A history is non-trivial when it contains a request answered from the cache (no transform ran) for a '
        'function whose code object was converted before through ANOTHER function object with a different closure / '
        'globals / defaults, or two requests on one code object under option sets differing in exactly one field. A '
        'schedule case is non-trivial when two threads were inside transform_function for the same (code, options) key '
        'at the same time (second thread passed its first cache check before the first thread finished). A stress case is '
        'non-trivial when >= 2 threads requested the same (code object, options). Distinct by hash of the operation list / '
        'schedule case / stress case.')
ASSUMPTIONS = [
    'observable equivalence = outcome (repr of result / exception type) + options seen by every FunctionScope of the running '
    'converted code + ordered operator-call trace (if/while/for_stmt with state symbol names and loop options, converted_call '
    'callee names, eq/not_eq/new_list/list_append), recorded by spies installed on the ag__ module of a counting subclass of '
    'api.PyToPy that replaces api._TRANSPILER (and a fresh conversion._ALLOWLIST_CACHE) for the duration of one case',
    'the reference ("fresh conversion") is the same request run with a new transpiler instance and a new allowlist cache',
    'every (re)definition lives in its own source file (a redefinition reuses the names, not the path); functions are pure',
    'owned schedules interleave only at the listed points (has / cache read / cache write / lock acquire / transform_ast '
    'entry+exit); a green run is evidence for the locking protocol at those points, not for races inside WeakKeyDictionary, '
    'linecache or the loader; the stress part samples free interleavings and cannot enumerate them',
    'shapes of the listed known findings are excluded by construction (coverage.classes excluded:*): an equal-code twin is never '
    'dropped while another twin stays alive, a redefinition always changes live code, a clone never rebinds the module through '
    'which a directive is resolved',
]
LEVEL_TEXT = ('Randomised exploration of request histories, of thread schedules at owned scheduling points and of free-running '
              'thread interleavings; every request is compared with a fresh conversion, so a divergence on an explored case is a '
              'concrete counterexample. No claim beyond the cases counted; interleavings are sampled, not enumerated.')
LEVEL_NOTE = ('Trusted: CPython function/code object semantics, the spies on the ag__ module, the fresh-world reference. Out of '
              'reach: races between the scheduling points, caches of other processes, source files edited in place.')

EXCLUDE = {'twin_partial_drop': True, 'dead_code_only_redefinition': True, 'directive_via_clone_globals': True}
for _f in os.environ.get('VF_C10_NOEXCL', '').split(','):
  if _f in EXCLUDE:
    EXCLUDE[_f] = False          # dev only: lets the search rediscover a listed finding

WAIT_S = 600.0                   # safety net for the owned scheduler (never decides a result)


def budget(tier):
  if tier == 'thorough':
    return {'machines': 1600, 'steps': 40, 'schedules': 3200, 'stress': 220, 'max_threads': 32, 'sched_threads': 4,
            'wall_cap': 3000, 'shrink_s': 60}
  return {'machines': 150, 'steps': 30, 'schedules': 300, 'stress': 20, 'max_threads': 32, 'sched_threads': 3,
          'wall_cap': 900, 'shrink_s': 12}


# ------------------------------------------------------------------------------------------------
# observation: spies on the ag__ module of the transpiler under test

_TL = threading.local()


def _rec(ev):
  lst = getattr(_TL, 'events', None)
  if lst is not None:
    lst.append(ev)


def opt_list(o):
  try:
    return [bool(o.recursive), bool(o.user_requested), bool(o.internal_convert_user_code),
            sorted(f.name for f in o.optional_features)]
  except Exception:
    return [repr(o)]


def _fname(f):
  return getattr(f, '__name__', type(f).__name__)


def _opts_repr(d):
  try:
    return sorted([str(k), repr(v)] for k, v in dict(d).items())
  except Exception:
    return [repr(d)]


def _install_spies(ag):
  real_fs = ag.FunctionScope

  class SpyScope(real_fs):

    def __init__(self, function_name, scope_name, options):
      _rec(['scope', function_name, opt_list(options)])
      real_fs.__init__(self, function_name, scope_name, options)

  def with_function_scope(thunk, scope_name, options):
    with SpyScope('lambda_', scope_name, options) as scope:
      return thunk(scope)

  real_cc = ag.converted_call

  def converted_call(f, args, kwargs, caller_fn_scope=None, options=None):
    _rec(['call', _fname(f)])
    return real_cc(f, args, kwargs, caller_fn_scope, options)

  real_if, real_while, real_for = ag.if_stmt, ag.while_stmt, ag.for_stmt

  def if_stmt(cond, body, orelse, get_state, set_state, symbol_names, nouts):
    _rec(['if', list(symbol_names), nouts])
    return real_if(cond, body, orelse, get_state, set_state, symbol_names, nouts)

  def while_stmt(test, body, get_state, set_state, symbol_names, opts):
    _rec(['while', list(symbol_names), _opts_repr(opts)])
    return real_while(test, body, get_state, set_state, symbol_names, opts)

  def for_stmt(iter_, extra_test, body, get_state, set_state, symbol_names, opts):
    _rec(['for', list(symbol_names), _opts_repr(opts)])
    return real_for(iter_, extra_test, body, get_state, set_state, symbol_names, opts)

  def plain(name):
    real = getattr(ag, name)

    def spy(*a, **k):
      _rec([name])
      return real(*a, **k)
    spy.__name__ = name
    return spy

  ag.FunctionScope = SpyScope
  ag.with_function_scope = with_function_scope
  ag.converted_call = converted_call
  ag.if_stmt, ag.while_stmt, ag.for_stmt = if_stmt, while_stmt, for_stmt
  for n in ('eq', 'not_eq', 'new_list', 'list_append', 'if_exp'):
    setattr(ag, n, plain(n))


def optkey(o):
  return (bool(o.recursive), bool(o.user_requested), bool(o.internal_convert_user_code),
          frozenset(f.name for f in o.optional_features))


class SpyTranspiler(api.PyToPy):
  """api.PyToPy with its own (empty) cache, spies in its ag__ module and a transform counter."""

  def __init__(self):
    super(SpyTranspiler, self).__init__()
    self._spy_locals = None
    self._meta = threading.Lock()
    self.log = []            # (weakref to code object, optkey, function name)
    self.retransforms = []
    self.ntransforms = 0

  def get_extra_locals(self):
    if self._spy_locals is None:
      with self._meta:
        if self._spy_locals is None:
          base = super(SpyTranspiler, self).get_extra_locals()['ag__']
          ag = types.ModuleType('malt')
          ag.__dict__.update(base.__dict__)
          _install_spies(ag)
          self._spy_locals = {'ag__': ag}
    return self._spy_locals

  def transform_function(self, fn, user_context):
    prev = getattr(_TL, 'cur', None)
    _TL.cur = fn
    try:
      return super(SpyTranspiler, self).transform_function(fn, user_context)
    finally:
      _TL.cur = prev

  def transform_ast(self, node, ctx):
    fn = getattr(_TL, 'cur', None)
    code = getattr(fn, '__code__', None)
    key = optkey(ctx.user.options)
    with self._meta:
      self.ntransforms += 1
      if code is not None:
        for r, k, nm in self.log:
          if k == key and r() is code:
            self.retransforms.append({'function': _fname(fn), 'options': [key[0], key[1], key[2], sorted(key[3])]})
            break
        self.log.append((weakref.ref(code), key, _fname(fn)))
    return super(SpyTranspiler, self).transform_ast(node, ctx)

  def transformed(self, code, key):
    with self._meta:
      return sum(1 for r, k, _ in self.log if k == key and r() is code)


def _new_allow():
  return type(conversion._ALLOWLIST_CACHE)()


_WORLD = threading.RLock()


@contextlib.contextmanager
def world(tr, allow):
  """Routes the public entry points (and recursive conversions of running converted code) to `tr`."""
  with _WORLD:
    saved = (api._TRANSPILER, conversion._ALLOWLIST_CACHE)
    api._TRANSPILER, conversion._ALLOWLIST_CACHE = tr, allow
    try:
      yield
    finally:
      api._TRANSPILER, conversion._ALLOWLIST_CACHE = saved


def observe(thunk):
  prev = getattr(_TL, 'events', None)
  _TL.events = ev = []
  try:
    try:
      out = ['ret', repr(thunk())]
    except Exception as e:   # pylint:disable=broad-except
      out = ['exc', type(e).__name__, harness.exc_bucket(e), repr(e)[:300]]
  finally:
    _TL.events = prev
  return {'out': out, 'ev': ev}


def diff_obs(act, ref):
  """None when equivalent, else the first differing aspect."""
  if act['out'][:2] != ref['out'][:2]:
    return 'result'
  sa = [e for e in act['ev'] if e[0] == 'scope']
  sr = [e for e in ref['ev'] if e[0] == 'scope']
  if sa != sr:
    return 'options'
  if act['ev'] != ref['ev']:
    return 'ops'
  return None


def _short(obs):
  ev = obs['ev']
  return {'out': obs['out'], 'ev': ev if len(ev) <= 24 else ev[:24] + [['...', len(ev)]]}


# ------------------------------------------------------------------------------------------------
# module template

TEMPLATE = '''\
{pad}import copy
import functools
import malt

G = {G}


def helper(x):
  if x > {c0}:
    return x - {c0}
  return x + G


def f(x, d={d0}, *, k={k0}):
  r = helper(x) + d + k
  if r == {c1}:
    r = r + {c2}
  return r + G


def loop(x, d={d0}):
  t = 0
  i = 0
  while i < x:
    malt.experimental.set_loop_options(maximum_iterations={c1})
    t = t + {c2}
    i = i + 1
    if False:
      {dead}
  l = []
  for j in range(x):
    l.append(j + d)
  return t + len(l) + G


def make(kk):
  def inner(x, d={d0}):
    t = kk
    for i in range(x):
      t = t + kk
    if t == {c1}:
      t = -t
    return t + G + d + helper({c2})
  return inner


def deco(fn):
  @functools.wraps(fn)
  def wrapper(*args, **kwargs):
    r = fn(*args, **kwargs)
    if r is None:
      return {c2}
    return r
  return wrapper


@malt.experimental.do_not_convert
def opaque(x):
  if x > {c0}:
    return x
  return G


class C(object):

  def __init__(self, v):
    self.v = v

  def m(self, x, d={d0}):
    if x > self.v:
      return x - self.v + d
    return helper(x) + G


lam = lambda x, d={d0}: (x + {c2} if x > {c0} else x - G) + d
'''

DEAD = ('pass', 'break', 'continue')
MEMBERS = ('f', 'loop', 'lam', 'helper')


def render(p):
  return TEMPLATE.format(pad='#\n' * p['pad'], G=p['G'], c0=p['c0'], c1=p['c1'], c2=p['c2'], d0=p['d0'], k0=p['k0'],
                         dead=DEAD[p['dead'] % len(DEAD)])


LIVE_KEYS = ('pad', 'c0', 'c1', 'c2', 'd0', 'k0')
PARAMS = st.fixed_dictionaries({
    'pad': st.integers(0, 2), 'G': st.integers(0, 9), 'c0': st.integers(0, 4), 'c1': st.integers(0, 9),
    'c2': st.integers(1, 5), 'd0': st.integers(0, 3), 'k0': st.integers(0, 3), 'dead': st.integers(0, 2)})

# option sets: [recursive, user_requested, internal_convert_user_code, features]; neighbours differ in one field
OPTS = [
    [True, True, True, []],
    [False, True, True, []],
    [True, False, True, []],
    [True, True, False, []],
    [True, True, True, ['EQUALITY_OPERATORS']],
    [True, False, True, ['EQUALITY_OPERATORS']],
    [True, True, True, ['LISTS']],
    [False, False, True, []],
]
KINDS = ('to_graph', 'convert', 'ccall', 'transform')
# optional follow-up of a derivation rule: the same request on the source and on the derived function
FOLLOW = st.one_of(st.none(), st.tuples(st.sampled_from(KINDS), st.integers(0, len(OPTS) - 1), st.integers(-1, 4)))


def effective(kind, o):
  """The option value the entry point actually builds from the requested one."""
  r, u, i, fs = o
  if kind == 'to_graph':
    return [r, True, True, sorted(fs)]
  if kind == 'convert':
    return [r, u, True, sorted(fs)]
  return [r, u, i, sorted(fs)]


def mkopts(o):
  r, u, i, fs = o
  return converter.ConversionOptions(recursive=r, user_requested=u, internal_convert_user_code=i,
                                     optional_features=tuple(converter.Feature[n] for n in fs) or None)


def _feat(fs):
  return tuple(converter.Feature[n] for n in fs) or None


def _fake_malt():
  m = types.ModuleType('fakemalt')
  e = types.ModuleType('fakemalt.experimental')

  def set_loop_options(**kwargs):
    return None
  e.set_loop_options = set_loop_options
  m.experimental = e
  return m


# ------------------------------------------------------------------------------------------------
# the history interpreter


class _Skip(Exception):
  pass


class Entry(object):
  __slots__ = ('fn', 'selfargs', 'deps', 'desc', '__weakref__')

  def __init__(self, fn, deps, desc, selfargs=()):
    self.fn, self.deps, self.desc, self.selfargs = fn, set(deps), desc, tuple(selfargs)


def _env_sig(fn):
  f = getattr(fn, '__func__', fn)
  cells = []
  for c in (f.__closure__ or ()):
    try:
      cells.append(repr(c.cell_contents)[:40])
    except ValueError:
      cells.append('<empty>')
  return (id(f.__globals__), tuple(cells), repr(f.__defaults__), repr(f.__kwdefaults__),
          repr(getattr(fn, '__self__', None).__dict__) if hasattr(fn, '__self__') else '')


class History(object):
  """Executes operations; records property failures in self.fails (never raises for them)."""

  def __init__(self, tr=None):
    self.tr = tr or SpyTranspiler()
    self.allow = _new_allow()
    self.mods = {}
    self.group = {}      # mid -> set of modules that live and die together (merged by in-place recode)
    self.pool = {}
    self.results = collections.OrderedDict()
    self.fails = []
    self.classes = collections.Counter()
    self.nreq = 0
    self.memo = {}
    self.reqlog = []     # (code weakref, eff tuple, uid, env sig)
    self.nt = set()
    self.dislog = []     # (function weakref, eff tuple, where, kind) of requests made inside a do_not_convert region
    self._retx_seen = 0
    self.opno = 0

  # -- helpers
  def _mod(self, mid):
    if mid not in self.mods:
      raise _Skip('module %r' % (mid,))
    return self.mods[mid]

  def _ent(self, uid):
    if uid not in self.pool:
      raise _Skip('entry %r' % (uid,))
    return self.pool[uid]

  def fail(self, bucket, detail):
    detail = dict(detail)
    detail['op_index'] = self.opno
    self.fails.append((bucket, detail))

  def apply(self, op):
    self.opno += 1
    try:
      getattr(self, 'op_' + op[0])(*op[1:])
    except _Skip:
      self.classes['op_skipped'] += 1
    self.check_once()

  def check_once(self):
    rt = self.tr.retransforms
    while self._retx_seen < len(rt):
      d = rt[self._retx_seen]
      self._retx_seen += 1
      self.fail('once:retransform', d)

  # -- definitions
  def op_mod(self, mid, src):
    self.mods[mid] = harness.load_module(src)
    self.group[mid] = {mid}
    self.classes['op:mod'] += 1

  def op_get(self, uid, mid, name):
    self.pool[uid] = Entry(getattr(self._mod(mid), name), [mid], '%s.%s' % (mid, name))

  def op_mk(self, uid, mid, name, arg):
    self.pool[uid] = Entry(getattr(self._mod(mid), name)(arg), [mid], '%s.%s(%r)' % (mid, name, arg))

  def op_wrap(self, uid, mid, name, target):
    deps = {mid}
    if target[0] == 'p':
      e = self._ent(target[1])
      if e.selfargs:
        raise _Skip('wrap of method')
      t, desc = e.fn, e.desc
      deps |= e.deps
    elif target[0] == 'copy':
      t, desc = copy.copy, 'copy.copy'
    else:
      t, desc = getattr(self._mod(target[1]), target[2]), '%s.%s' % (target[1], target[2])
      deps.add(target[1])
    self.pool[uid] = Entry(getattr(self._mod(mid), name)(t), deps, '%s.%s(%s)' % (mid, name, desc))

  def op_meth(self, uid, mid, cls, v, meth):
    obj = getattr(self._mod(mid), cls)(v)
    self.pool[uid] = Entry(getattr(obj, meth), [mid], '%s.%s(%r).%s' % (mid, cls, v, meth), selfargs=(obj,))

  def op_clone(self, uid, src, gl, defaults, kwdefaults):
    e = self._ent(src)
    f0 = e.fn
    if e.selfargs or not isinstance(f0, types.FunctionType):
      raise _Skip('clone of non-function')
    g = f0.__globals__
    if gl:
      g = dict(g)
      for k, v in gl.items():
        g[k] = _fake_malt() if v == '<fakemalt>' else v
    fn = types.FunctionType(f0.__code__, g, f0.__name__, f0.__defaults__, f0.__closure__)
    fn.__kwdefaults__ = dict(f0.__kwdefaults__) if f0.__kwdefaults__ else f0.__kwdefaults__
    fn.__qualname__ = f0.__qualname__
    fn.__module__ = f0.__module__
    if defaults is not None:
      n = len(f0.__defaults__ or ())
      fn.__defaults__ = tuple(defaults[:n]) if n else f0.__defaults__
    if kwdefaults is not None and f0.__kwdefaults__:
      fn.__kwdefaults__ = {k: kwdefaults.get(k, v) for k, v in f0.__kwdefaults__.items()}
    self.pool[uid] = Entry(fn, e.deps, 'clone(%s,%r,%r,%r)' % (e.desc, gl, defaults, kwdefaults))

  def op_recode(self, uid, uid2):
    e, e2 = self._ent(uid), self._ent(uid2)
    f, f2 = e.fn, e2.fn
    if e.selfargs or e2.selfargs or not isinstance(f, types.FunctionType) or not isinstance(f2, types.FunctionType):
      raise _Skip('recode of non-function')
    if f.__code__.co_freevars != f2.__code__.co_freevars or f is f2:
      raise _Skip('incompatible')
    if hasattr(f, '__wrapped__') or hasattr(f2, '__wrapped__'):
      raise _Skip('wrapper')
    f.__code__ = f2.__code__
    for rid in [r for r, v in self.results.items() if v[2] == uid]:
      del self.results[rid]      # calibration: earlier results are snapshots of the old definition
    # the recoded function stays reachable through its home module and now needs the source file of
    # the other one: both modules (and their files) live and die together from here on
    merged = set()
    for m in e.deps | e2.deps:
      merged |= self.group.get(m, {m})
    for m in merged:
      self.group[m] = merged
    e.deps |= e2.deps
    e.desc = 'recode(%s<-%s)' % (e.desc, e2.desc)
    self.memo.clear()
    self.classes['op:recode'] += 1

  def op_drop(self, uids):
    probes = []
    for uid in uids:
      e = self.pool.pop(uid, None)
      if e is None:
        continue
      f = getattr(e.fn, '__func__', e.fn)
      probes.append(weakref.ref(f.__code__))
      for rid in [r for r, v in self.results.items() if v[2] == uid]:
        del self.results[rid]
      del e, f
    live = self.live_modules()
    for mid in [m for m in self.mods if m not in live]:
      harness.unload_module(self.mods.pop(mid))
    gc.collect()
    self.classes['op:drop'] += 1
    if probes:
      self.classes['drop:code_died' if any(r() is None for r in probes) else 'drop:code_survives'] += 1

  def live_modules(self, without=()):
    live = set()
    for uid, e in self.pool.items():
      if uid not in without:
        for m in e.deps:
          live |= self.group.get(m, {m})
    return live

  def op_gc(self):
    gc.collect()

  # -- requests
  def _exec(self, kind, e, eff, arg, keep=None):
    """Runs one request through the entry point `kind` in the current world; returns the call's value."""
    r, u, i, fs = eff
    fn = e.fn
    if kind == 'to_graph':
      g = api.to_graph(fn, recursive=r, experimental_optional_features=_feat(fs))
      if keep is not None:
        keep.append(g)
      return g(*(e.selfargs + (arg,)))
    if kind == 'convert':
      return api.convert(recursive=r, optional_features=_feat(fs), user_requested=u)(fn)(arg)
    if kind == 'ccall':
      return api.converted_call(fn, (arg,), None, options=mkopts(eff))
    if kind == 'transform':
      g = harness.convert_private(api._TRANSPILER, fn, mkopts(eff))
      if keep is not None:
        keep.append(g)
      return g(*(e.selfargs + (arg,)))
    raise ValueError(kind)

  def reference(self, uid, kind, eff, arg):
    key = (uid, kind, repr(eff), arg)
    if key not in self.memo:
      e = self._ent(uid)
      with world(SpyTranspiler(), _new_allow()):
        self.memo[key] = observe(lambda: self._exec(kind, e, eff, arg))
    return self.memo[key]

  def _classify(self, e, eff, top_transforms):
    f = getattr(e.fn, '__func__', e.fn)
    code = f.__code__
    sig = _env_sig(e.fn)
    et = (eff[0], eff[1], eff[2], tuple(eff[3]))
    for r, et2, fid, sig2 in self.reqlog:
      c2 = r()
      if c2 is None or not (c2 is code or c2 == code):
        continue
      if et2 == et and fid != id(f) and sig2 != sig and top_transforms == 0:
        self.nt.add('hit_shared_code_other_env')
        if c2 is not code:
          self.nt.add('hit_equal_code_twin')
      nd = sum(1 for a, b in zip(et, et2) if a != b)
      if nd == 1:
        self.nt.add('options_differ_in_one_field')
        self.classes['optpair:field%d' % [a != b for a, b in zip(et, et2)].index(True)] += 1
    self.reqlog.append((weakref.ref(code), et, id(f), sig))
    if len(self.reqlog) > 200:
      del self.reqlog[0]

  def compare(self, kind, act, ref, info):
    a = diff_obs(act, ref)
    if a is None:
      return
    d = dict(info)
    d.update({'aspect': a, 'actual': _short(act), 'fresh': _short(ref)})
    if act['out'][0] == 'exc' and ref['out'][0] != 'exc':
      self.fail('exception:%s:%s' % (kind, act['out'][2]), d)
    else:
      self.fail('coherence:%s:%s' % (a, kind), d)

  def op_req(self, kind, uid, opts, arg):
    e = self._ent(uid)
    eff = effective(kind, opts)
    f = getattr(e.fn, '__func__', e.fn)
    before = self.tr.transformed(f.__code__, optkey(mkopts(eff)))
    keep = []
    with world(self.tr, self.allow):
      act = observe(lambda: self._exec(kind, e, eff, arg, keep))
    after = self.tr.transformed(f.__code__, optkey(mkopts(eff)))
    ref = self.reference(uid, kind, eff, arg)
    self.nreq += 1
    self.classes['req:' + kind] += 1
    self.classes['outcome:' + act['out'][0]] += 1
    self.classes['cache_hit' if after == before else 'cache_miss'] += 1
    self._classify(e, eff, after - before)
    self._classify_after_disabled(kind, f, eff)
    self.compare(kind, act, ref, {'function': e.desc, 'options': eff, 'arg': arg})
    if keep:
      self.results[self.nreq] = (keep[0], e.selfargs, uid, kind, eff)
      while len(self.results) > 8:
        self.results.popitem(last=False)

  # -- requests made while conversion is disabled in the calling context
  def _observe_disabled(self, thunk, where):
    """Observes thunk() called from inside a do_not_convert function, on this thread or on a helper thread (the
    conversion status is a per-thread context; the caches are process-wide)."""
    region = api.do_not_convert(thunk)
    if where != 'thread':
      return observe(region)
    box = []
    t = threading.Thread(target=lambda: box.append(observe(region)))
    t.start()
    t.join()
    if not box:
      raise RuntimeError('helper thread of a disabled-context request died')
    return box[0]

  def op_dreq(self, kind, uid, opts, arg, where):
    """The request `kind` made from inside a do_not_convert region.  It is itself compared with the same disabled
    request in a fresh world; what matters is what it leaves behind for the ordinary requests that follow."""
    e = self._ent(uid)
    eff = effective(kind, opts)
    f = getattr(e.fn, '__func__', e.fn)
    with world(self.tr, self.allow):
      act = self._observe_disabled(lambda: self._exec(kind, e, eff, arg), where)
    key = ('disabled', uid, kind, repr(eff), arg)
    if key not in self.memo:
      with world(SpyTranspiler(), _new_allow()):
        self.memo[key] = self._observe_disabled(lambda: self._exec(kind, e, eff, arg), 'same')
    ref = self.memo[key]
    self.nreq += 1
    self.classes['dreq:' + kind] += 1
    self.classes['dreq:where=' + where] += 1
    self.classes['outcome:' + act['out'][0]] += 1
    self.dislog.append((weakref.ref(f), (eff[0], eff[1], eff[2], tuple(eff[3])), where, kind))
    if len(self.dislog) > 100:
      del self.dislog[0]
    self.compare('disabled_' + kind, act, ref, {'function': e.desc, 'options': eff, 'arg': arg, 'where': where})

  def _classify_after_disabled(self, kind, f, eff):
    """Counts ordinary requests of a function object that was requested earlier from a disabled context."""
    et = (eff[0], eff[1], eff[2], tuple(eff[3]))
    seen = set()
    for r, et2, where, k2 in self.dislog:
      if r() is not f:
        continue
      tags = ['after_disabled:same_fn']
      if et2 == et:
        tags.append('after_disabled:same_fn_equal_opts')
        if kind in ('convert', 'ccall') and k2 in ('convert', 'ccall'):
          # both requests hand this very function object to the call wrapper under equal options
          tags.append('after_disabled:same_fn_equal_opts_via_wrapper')
          tags.append('after_disabled:same_fn_equal_opts_via_wrapper:' + where)
      for t in tags:
        if t not in seen:
          seen.add(t)
          self.classes[t] += 1

  def op_recall(self, rid, arg):
    if rid not in self.results:
      raise _Skip('result')
    g, selfargs, uid, kind, eff = self.results[rid]
    with world(self.tr, self.allow):
      act = observe(lambda: g(*(selfargs + (arg,))))
    ref = self.reference(uid, kind, eff, arg)
    self.nreq += 1
    self.classes['req:recall'] += 1
    self.compare('recall', act, ref, {'function': self._ent(uid).desc, 'options': eff, 'arg': arg})

  def op_fault(self, uid, opts, arg):
    """A to_graph request whose conversion dies while loading the generated module, then a normal one."""
    e = self._ent(uid)
    eff = effective('to_graph', opts)
    real = transpiler_mod.loader.load_ast
    state = {'hit': False}

    def broken(*a, **k):
      state['hit'] = True
      raise OSError('injected: directory for generated modules unavailable')
    transpiler_mod.loader.load_ast = broken
    nlog = len(self.tr.log)
    try:
      with world(self.tr, self.allow):     # only the conversion itself runs under the fault, not the call
        first = observe(lambda: api.to_graph(e.fn, recursive=eff[0], experimental_optional_features=_feat(eff[3])))
    finally:
      transpiler_mod.loader.load_ast = real
    self.classes['fault:reached' if state['hit'] else 'fault:answered_from_cache'] += 1
    if state['hit']:
      # calibration: a conversion that died before its factory existed has cached nothing, so the retry
      # legitimately transforms again - the aborted run does not count towards "at most once"
      del self.tr.log[nlog:]
    if state['hit'] and first['out'][0] != 'exc':
      self.fail('fault:swallowed', {'function': e.desc, 'options': eff})
    self.op_req('to_graph', uid, opts, arg)

  def close(self):
    self.results.clear()
    self.pool.clear()
    for mid in list(self.mods):
      harness.unload_module(self.mods.pop(mid))
    self.memo.clear()
    gc.collect()


def run_history(ops):
  h = History()
  try:
    for op in ops:
      h.apply(op)
      if h.fails:
        break
  finally:
    fails, nt, classes, nreq = list(h.fails), set(h.nt), h.classes, h.nreq
    h.close()
  return fails, nt, classes, nreq


# ------------------------------------------------------------------------------------------------
# (a) the state machine: generates operation lists


def make_machine(sink, max_steps):
  from hypothesis import stateful

  class Machine(stateful.RuleBasedStateMachine):

    def __init__(self):
      super(Machine, self).__init__()
      self.h = History()
      self.ops = []
      self.mods = {}     # mid -> {'p': params, 'fam': int}
      self.ents = {}     # uid -> {'mid', 'member', 'plain'}
      self.n = 0
      self.nfam = 0
      self.excluded = collections.Counter()
      self.rids = []
      self.last = {}     # uid -> last (kind, option index, arg) requested
      self.dis = []      # (uid, kind, option index) requested from inside a do_not_convert region

    # -- plumbing
    def emit(self, op):
      self.ops.append(op)
      if not self.h.fails:
        self.h.apply(op)
        for m in [m for m in self.mods if m not in self.h.mods]:
          del self.mods[m]
        for u in [u for u in self.ents if u not in self.h.pool]:
          del self.ents[u]

    def fams_of(self, uids):
      """Families of every module kept alive by these entries (module groups included)."""
      out = set()
      for u in uids:
        for m in self.ents[u]['mids']:
          for m2 in self.h.group.get(m, {m}):
            if m2 in self.mods:
              out.add(self.mods[m2]['fam'])
      return out

    def new_id(self):
      self.n += 1
      return self.n

    def add_mod(self, p, fam=None):
      mid = 'm%d' % self.new_id()
      p = dict(p)
      if fam is None:
        self.nfam += 1
        fam = self.nfam
      # every family starts at its own line offset: code objects of different families never compare
      # equal (members untouched by a constant change would otherwise be accidental twins)
      p['pad'] = fam
      self.mods[mid] = {'p': p, 'fam': fam}
      self.emit(['mod', mid, render(p)])
      return mid

    def add_ent(self, op, mid, member, plain=True, extra_mids=()):
      uid = op[1]
      self.ents[uid] = {'mid': mid, 'member': member, 'plain': plain, 'mids': {mid} | set(extra_mids)}
      self.emit(op)
      return uid

    def pick_mod(self, i):
      ks = sorted(self.mods)
      return ks[i % len(ks)]

    def pick_ent(self, i, pred=None):
      ks = [u for u in sorted(self.ents) if pred is None or pred(self.ents[u])]
      return ks[i % len(ks)] if ks else None

    def follow(self, fo, uids):
      if fo is not None:
        for u in uids:
          if u in self.ents:
            self.last[u] = fo
            self.emit(['req', fo[0], u, OPTS[fo[1]], fo[2]])
            if fo[0] in ('to_graph', 'transform'):
              self.rids.append(self.h.nreq)

    def same_member(self, mid, member):
      for u in sorted(self.ents):
        if self.ents[u]['mid'] == mid and self.ents[u]['member'] == member and self.ents[u]['plain']:
          return u
      return None

    def room(self):
      return len(self.ents) < 10 and len(self.mods) < 6

    def has_twin(self, fams):
      return any(sum(1 for m in self.mods.values() if m['fam'] == f) > 1 for f in fams)

    # -- rules
    @stateful.initialize(p=PARAMS, member=st.sampled_from(MEMBERS), p2=PARAMS, member2=st.sampled_from(MEMBERS))
    def start(self, p, member, p2, member2):
      mid = self.add_mod(p)
      self.add_ent(['get', self.new_id(), mid, member], mid, member)
      mid = self.add_mod(p2)
      self.add_ent(['get', self.new_id(), mid, member2], mid, member2)

    @stateful.rule(p=PARAMS, member=st.sampled_from(MEMBERS))
    def define(self, p, member):
      if self.room():
        mid = self.add_mod(p)
        self.add_ent(['get', self.new_id(), mid, member], mid, member)

    @stateful.rule(i=st.integers(0, 99), member=st.sampled_from(MEMBERS))
    def member(self, i, member):
      if self.room():
        mid = self.pick_mod(i)
        self.add_ent(['get', self.new_id(), mid, member], mid, member)

    @stateful.rule(i=st.integers(0, 99), k=st.integers(0, 4), fo=FOLLOW)
    def closure(self, i, k, fo):
      if self.room():
        mid = self.pick_mod(i)
        old = self.same_member(mid, 'inner')
        u = self.add_ent(['mk', self.new_id(), mid, 'make', k], mid, 'inner')
        self.follow(fo, [old, u])

    def _wrap(self, mid, j, t):
      if t == 'p':
        # calibration: a functools.wraps wrapper around a lambda is named '<lambda>', so malt looks for
        # a lambda in the wrapper's source and a FRESH conversion fails (source recovery, C15's domain)
        # while a sibling wrapper's cached conversion works; such wrappers are not generated
        u = self.pick_ent(j, lambda e: e['plain'] and e['member'] != 'lam')
        if u is None:
          return None
        return self.add_ent(['wrap', self.new_id(), mid, 'deco', ['p', u]], mid, 'wrapper', plain=False,
                            extra_mids=self.ents[u]['mids'])
      if t == 'copy':
        return self.add_ent(['wrap', self.new_id(), mid, 'deco', ['copy']], mid, 'wrapper', plain=False)
      return self.add_ent(['wrap', self.new_id(), mid, 'deco', ['attr', mid, 'opaque']], mid, 'wrapper', plain=False)

    @stateful.rule(i=st.integers(0, 99), j=st.integers(0, 99), t=st.sampled_from(['p', 'p', 'copy', 'opaque']),
                   t2=st.sampled_from(['p', 'copy', 'opaque']), fo=FOLLOW, new_first=st.booleans())
    def wrap(self, i, j, t, t2, fo, new_first):
      """One decorator applied to different targets: the wrappers share a code object and differ in their cell;
      a wrapper of copy.copy / of a do_not_convert function legitimately runs as-is, its siblings do not."""
      if not self.room():
        return
      mid = self.pick_mod(i)
      sib = None
      for x in sorted(self.ents):
        if self.ents[x]['member'] == 'wrapper' and self.ents[x]['mid'] == mid:
          sib = x
      u = self._wrap(mid, j, t)
      if u is None or fo is None:
        return
      if sib is None and self.room():
        sib = self._wrap(mid, j + 1, t2)
      self.follow(fo, [u, sib] if new_first else [sib, u])

    @stateful.rule(i=st.integers(0, 99), v=st.integers(0, 3))
    def method(self, i, v):
      if self.room():
        mid = self.pick_mod(i)
        self.add_ent(['meth', self.new_id(), mid, 'C', v, 'm'], mid, 'm', plain=False)

    @stateful.rule(j=st.integers(0, 99), what=st.sampled_from(['globals', 'defaults', 'kwdefaults', 'all']),
                   v=st.integers(10, 19), rebind=st.booleans(), fo=FOLLOW)
    def clone(self, j, what, v, rebind, fo):
      if not self.room():
        return
      u = self.pick_ent(j, lambda e: e['plain'])
      if u is None:
        return
      gl = {'G': v} if what in ('globals', 'all') else None
      if rebind and what in ('globals', 'all'):
        if EXCLUDE['directive_via_clone_globals']:
          self.excluded['directive_via_clone_globals'] += 1
        else:
          gl['malt'] = '<fakemalt>'
      df = [v, v + 1] if what in ('defaults', 'all') else None
      kw = {'k': v} if what in ('kwdefaults', 'all') else None
      e = self.ents[u]
      u2 = self.add_ent(['clone', self.new_id(), u, gl, df, kw], e['mid'], e['member'], extra_mids=e['mids'])
      self.follow(fo, [u, u2])

    @stateful.rule(i=st.integers(0, 99), p2=PARAMS, dead_only=st.booleans(), member=st.sampled_from(MEMBERS), fo=FOLLOW)
    def redefine(self, i, p2, dead_only, member, fo):
      """Same names, other source (a new version of module i)."""
      if not self.room():
        return
      old = self.mods[self.pick_mod(i)]['p']
      p = dict(old)
      if dead_only:
        if EXCLUDE['dead_code_only_redefinition']:
          self.excluded['dead_code_only_redefinition'] += 1
          dead_only = False
        else:
          member = 'loop'      # the only member with a dead statement
          p['dead'] = (old['dead'] + 1 + p2['dead'] % 2) % 3
      if not dead_only:
        p = dict(p2)
        p['G'] = old['G']
        if all(p[k] == old[k] for k in LIVE_KEYS):
          p['c2'] = old['c2'] % 5 + 1
      m0 = self.pick_mod(i)
      old_u = self.same_member(m0, member)
      if old_u is None and fo is not None:
        old_u = self.add_ent(['get', self.new_id(), m0, member], m0, member)
      mid = self.add_mod(p, fam=self.mods[m0]['fam'] if dead_only else None)
      u = self.add_ent(['get', self.new_id(), mid, member], mid, member)
      self.follow(fo, [old_u, u])

    @stateful.rule(i=st.integers(0, 99), g=st.integers(20, 29), member=st.sampled_from(MEMBERS), fo=FOLLOW)
    def twin(self, i, g, member, fo):
      """Identical function text in another module (equal code objects), other module globals."""
      if not self.room():
        return
      m0 = self.pick_mod(i)
      p = dict(self.mods[m0]['p'])
      p['G'] = g
      old_u = self.same_member(m0, member)
      if old_u is None and fo is not None:
        old_u = self.add_ent(['get', self.new_id(), m0, member], m0, member)
      mid = self.add_mod(p, fam=self.mods[m0]['fam'])
      u = self.add_ent(['get', self.new_id(), mid, member], mid, member)
      self.follow(fo, [old_u, u])

    @stateful.rule(j=st.integers(0, 99), k=st.integers(0, 99))
    def recode(self, j, k):
      u = self.pick_ent(j, lambda e: e['plain'])
      if u is None:
        return
      m = self.ents[u]['member']
      u2 = self.pick_ent(k, lambda e: e['plain'] and e['member'] == m)
      if u2 is None or u2 == u:
        return
      if self.has_twin(self.fams_of([u])) and EXCLUDE['twin_partial_drop']:
        self.excluded['twin_partial_drop'] += 1     # the replaced code object may be the last of its twin
        return
      self.ents[u]['mids'] |= self.ents[u2]['mids']
      self.emit(['recode', u, u2])

    @stateful.rule(j=st.integers(0, 99), whole=st.booleans(), fo=FOLLOW, k=st.integers(0, 99))
    def drop(self, j, whole, fo, k):
      if len(self.ents) < 2:
        return
      u = self.pick_ent(j)
      victims = [u]
      if whole:    # everything that keeps u's defining module alive: its code objects really die
        victims = [x for x in sorted(self.ents) if self.ents[u]['mid'] in self.ents[x]['mids']]
      fams = self.fams_of(victims)
      if self.has_twin(fams):
        # some module this entry keeps alive has an equal-code twin
        if EXCLUDE['twin_partial_drop']:
          self.excluded['twin_partial_drop'] += 1
          # closure: entries of the family may keep modules of further families alive (modules merged by recode)
          while True:
            victims = [x for x in sorted(self.ents) if self.fams_of([x]) & fams]
            more = self.fams_of(victims)
            if more <= fams:
              break
            fams = fams | more
      if len(victims) >= len(self.ents):
        return
      self.emit(['drop', victims])
      if fo is not None:
        # prefer a survivor of a family that just lost a module
        near = [x for x in sorted(self.ents) if self.fams_of([x]) & fams]
        u2 = near[k % len(near)] if near else self.pick_ent(k)
        if k % 2 and u2 in self.last:
          fo = self.last[u2]       # repeat the survivor's last request: its cache entry must still serve it
        self.follow(fo, [u2])

    def _req(self, kind, j, o, arg):
      self._req_uid(kind, self.pick_ent(j), o, arg)

    def _req_uid(self, kind, u, o, arg):
      if u is None:
        return
      self.last[u] = (kind, o, arg)
      self.emit(['req', kind, u, OPTS[o], arg])
      if kind in ('to_graph', 'transform'):
        self.rids.append(self.h.nreq)

    @stateful.rule(j=st.integers(0, 99), o=st.integers(0, len(OPTS) - 1), arg=st.integers(-1, 4))
    def req_to_graph(self, j, o, arg):
      self._req('to_graph', j, o, arg)

    @stateful.rule(j=st.integers(0, 99), o=st.integers(0, len(OPTS) - 1), arg=st.integers(-1, 4))
    def req_convert(self, j, o, arg):
      self._req('convert', j, o, arg)

    @stateful.rule(j=st.integers(0, 99), o=st.integers(0, len(OPTS) - 1), arg=st.integers(-1, 4))
    def req_ccall(self, j, o, arg):
      self._req('ccall', j, o, arg)

    @stateful.rule(j=st.integers(0, 99), o=st.integers(0, len(OPTS) - 1), arg=st.integers(-1, 4))
    def req_transform(self, j, o, arg):
      self._req('transform', j, o, arg)

    @stateful.rule(rs=st.lists(st.tuples(st.sampled_from(KINDS), st.integers(0, 99), st.integers(0, len(OPTS) - 1),
                                         st.integers(-1, 4)), min_size=2, max_size=4))
    def req_burst(self, rs):
      for kind, j, o, arg in rs:
        self._req(kind, j, o, arg)

    @stateful.rule(j=st.integers(0, 99), o=st.integers(0, len(OPTS) - 1), o2=st.integers(0, len(OPTS) - 1),
                   arg=st.integers(-1, 4), kind=st.sampled_from(KINDS), kind2=st.sampled_from(KINDS))
    def req_two_options(self, j, o, o2, arg, kind, kind2):
      self._req(kind, j, o, arg)
      self._req(kind2, j, o2, arg)

    @stateful.rule(j=st.integers(0, 99), o=st.integers(0, len(OPTS) - 1), arg=st.integers(-1, 4),
                   kind=st.sampled_from(KINDS))
    def req_same_code(self, j, o, arg, kind):
      """Biased request: a function whose code object is shared with another pool entry."""
      groups = collections.defaultdict(list)
      for u, e in self.ents.items():
        groups[(self.mods[e['mid']]['fam'] if e['mid'] in self.mods else e['mid'], e['member'])].append(u)
      shared = sorted(u for g in groups.values() if len(g) > 1 for u in g)
      if shared:
        self.emit(['req', kind, shared[j % len(shared)], OPTS[o], arg])

    @stateful.rule(j=st.integers(0, 99), o=st.integers(0, len(OPTS) - 1), arg=st.integers(-1, 4),
                   kind=st.sampled_from(('convert', 'convert', 'ccall', 'ccall', 'to_graph', 'transform')),
                   where=st.sampled_from(('same', 'thread')), before=st.booleans(), after=st.integers(0, 3))
    def req_disabled(self, j, o, arg, kind, where, before, after):
      """The request made from inside a do_not_convert function (this thread / a helper thread): conversion is
      disabled in that calling context only, so the ordinary requests around it are answered as ever."""
      u = self.pick_ent(j)
      if u is None:
        return
      if before:
        self.emit(['req', kind, u, OPTS[o], arg])
      self.emit(['dreq', kind, u, OPTS[o], arg, where])
      self.dis.append((u, kind, o))
      self.last[u] = (kind, o, arg)      # the drop rule repeats it on survivors
      if after == 0:
        self.emit(['req', kind, u, OPTS[o], arg])
        if kind in ('to_graph', 'transform'):
          self.rids.append(self.h.nreq)

    @stateful.rule(k=st.integers(0, 99), arg=st.integers(-1, 4), same_kind=st.booleans(), kind2=st.sampled_from(KINDS))
    def req_after_disabled(self, k, arg, same_kind, kind2):
      """Later in the history: an ordinary request of a function object once requested from a disabled context, under
      the same option set (through the same or another entry point)."""
      cands = [d for d in self.dis if d[0] in self.ents]
      if not cands:
        return
      u, kind, o = cands[k % len(cands)]
      self._req_uid(kind if same_kind else kind2, u, o, arg)

    @stateful.rule(r=st.integers(0, 99), arg=st.integers(-1, 4))
    def recall(self, r, arg):
      if self.rids:
        self.emit(['recall', self.rids[r % len(self.rids)], arg])

    @stateful.rule(j=st.integers(0, 99), o=st.integers(0, len(OPTS) - 1), arg=st.integers(0, 3))
    def fault(self, j, o, arg):
      u = self.pick_ent(j)
      if u is not None:
        self.emit(['fault', u, OPTS[o], arg])

    def teardown(self):
      try:
        sink(self)
      finally:
        self.h.close()

  return Machine


def run_machines(ctx, acc, n, steps):
  import hypothesis
  from hypothesis import HealthCheck, Phase, settings, stateful

  def sink(m):
    h = m.h
    classes = ['part=history'] + ['nt:' + x for x in sorted(h.nt)]
    for k, v in h.classes.items():
      acc.count('h:' + k, v)
    for k, v in m.excluded.items():
      acc.count('excluded:' + k, v)
    acc.count('h:ops', len(m.ops))
    acc.count('machines')
    sample = None
    if h.nt and (len(acc.samples) < 2 or len(m.ops) > (acc.biggest[0] if acc.biggest else 0)):
      sample = {'kind': 'history', 'ops': [op if op[0] != 'mod' else ['mod', op[1], '<%d chars>' % len(op[2])] for op in m.ops]}
    acc.case(key=common.h8(m.ops), nontrivial=bool(h.nt), classes=classes, sample=sample, size=len(m.ops), n=max(1, h.nreq))
    seen = set()
    for b, d in h.fails:
      if b not in seen:
        seen.add(b)
        acc.fail(b, {'kind': 'history', 'ops': m.ops[:d.get('op_index', len(m.ops))]}, d)

  Machine = hypothesis.seed(ctx.hseed * 7 + 1)(make_machine(sink, steps))
  stateful.run_state_machine_as_test(
      Machine, settings=settings(max_examples=n, stateful_step_count=steps, database=None, deadline=None,
                                 derandomize=False, phases=[Phase.generate], report_multiple_bugs=False,
                                 suppress_health_check=list(HealthCheck)))


# ------------------------------------------------------------------------------------------------
# (b) harness-owned schedules


class HarnessStall(Exception):
  pass


class Sched(object):
  """Token-passing scheduler: exactly one registered thread runs between two scheduling points."""

  def __init__(self):
    self.cv = threading.Condition()
    self.status = {}
    self.at = {}
    self.blocked = {}
    self.turn = None
    self.trace = []
    self.tl = threading.local()

  def tid(self):
    return getattr(self.tl, 'tid', None)

  def point(self, name):
    tid = self.tid()
    if tid is None:
      return
    with self.cv:
      self.at[tid] = name
      self.status[tid] = 'ready'
      self.turn = None
      self.cv.notify_all()
      while self.turn != tid:
        if not self.cv.wait(WAIT_S):
          raise HarnessStall('thread %r starved at %s' % (tid, name))
      self.status[tid] = 'run'

  def finish(self):
    tid = self.tid()
    with self.cv:
      self.status[tid] = 'done'
      self.at[tid] = 'done'
      self.turn = None
      self.cv.notify_all()

  def enabled(self):
    out = []
    for t in sorted(self.status):
      if self.status[t] != 'ready':
        continue
      lk = self.blocked.get(t)
      if lk is not None and lk.owner is not None and lk.owner != t:
        continue
      out.append(t)
    return out

  def settled(self):
    return self.turn is None and all(s in ('ready', 'done') for s in self.status.values())


class LockProxy(object):
  """Stands in for PyToPy._cache_lock (an RLock): never blocks the OS thread while another one owns it."""

  def __init__(self, sched):
    self.s = sched
    self.owner = None
    self.depth = 0
    self.real = threading.RLock()

  def acquire(self, blocking=True, timeout=-1):
    tid = self.s.tid()
    if tid is None:
      return self.real.acquire()
    self.s.point('lock')
    while self.owner is not None and self.owner != tid:
      self.s.blocked[tid] = self
      self.s.point('lockwait')
      self.s.blocked.pop(tid, None)
    self.owner = tid
    self.depth += 1
    return True

  def release(self):
    tid = self.s.tid()
    if tid is None:
      return self.real.release()
    self.depth -= 1
    if self.depth == 0:
      self.owner = None

  def __enter__(self):
    self.acquire()
    return self

  def __exit__(self, *a):
    self.release()


class _ParentView(object):
  """The {options: factory} bucket of one code object; the store is a scheduling point."""

  def __init__(self, parent, sched):
    self.p, self.s = parent, sched

  def __getitem__(self, k):
    return self.p[k]

  def __contains__(self, k):
    return k in self.p

  def get(self, k, d=None):
    return self.p.get(k, d)

  def __len__(self):
    return len(self.p)

  def __iter__(self):
    return iter(self.p)

  def keys(self):
    return self.p.keys()

  def values(self):
    return self.p.values()

  def items(self):
    return self.p.items()

  def __setitem__(self, k, v):
    self.p[k] = v
    self.s.point('stored')


class SchedCache(cache_mod.CodeObjectCache):
  __slots__ = ('s',)

  def has(self, entity, subkey):
    self.s.point('has')
    return super(SchedCache, self).has(entity, subkey)

  def get(self, entity, subkey, default=None):
    # only reached if the cache class grows a combined lookup (same role as `has`)
    self.s.point('has')
    return super(SchedCache, self).get(entity, subkey, default)

  def __getitem__(self, entity):
    self.s.point('get')
    return _ParentView(super(SchedCache, self).__getitem__(entity), self.s)


class SchedTranspiler(SpyTranspiler):

  def __init__(self, sched):
    super(SchedTranspiler, self).__init__()
    self.s = sched
    c = SchedCache()
    c.s = sched
    self._cache = c
    self._cache_lock = LockProxy(sched)

  def transform_ast(self, node, ctx):
    self.s.point('tx_in')
    try:
      return super(SchedTranspiler, self).transform_ast(node, ctx)
    finally:
      self.s.point('tx_out')


def run_schedule(case):
  """case: {'setup': ops, 'warm': [[uid, opts]], 'threads': [[uid, opts, arg]], 'schedule': [tid | 'G'], 'gc_drop': [uid]}
  returns (fails, info)."""
  s = Sched()
  tr = SchedTranspiler(s)
  h = History(tr)
  info = {'trace': [], 'skipped': 0, 'nt': False, 'classes': []}
  try:
    for op in case['setup']:
      h.apply(op)
    for uid, opts in case.get('warm', []):
      if uid in h.pool:
        harness.convert_private(tr, h.pool[uid].fn, mkopts(effective('transform', opts)))
    reqs = [r for r in case['threads'] if r[0] in h.pool]
    results = {}

    def body(t, uid, eff):
      s.tl.tid = t
      s.point('start')
      try:
        try:
          results[t] = ('fn', harness.convert_private(tr, h.pool[uid].fn, mkopts(eff)))
        except HarnessStall:
          raise
        except Exception as e:   # pylint:disable=broad-except
          results[t] = ('exc', ['exc', type(e).__name__, harness.exc_bucket(e), repr(e)[:300]])
      finally:
        s.finish()

    threads = []
    for t, (uid, opts, arg) in enumerate(reqs):
      s.status[t] = 'new'
      threads.append(threading.Thread(target=body, args=(t, uid, effective('transform', opts)), daemon=True))
    for th in threads:
      th.start()
    sched = list(case['schedule'])
    gc_done = False
    with s.cv:
      while True:
        while not s.settled():
          if not s.cv.wait(WAIT_S):
            raise HarnessStall('scheduler: threads did not settle; at=%r' % (s.at,))
        en = s.enabled()
        if not en:
          if any(st_ == 'ready' for st_ in s.status.values()):
            raise HarnessStall('scheduler: all ready threads wait for a lock nobody holds: %r' % (s.at,))
          break
        pick = None
        while sched:
          c = sched.pop(0)
          if c == 'G':
            if not gc_done:
              gc_done = True
              s.trace.append(['G'])
              h.op_drop([u for u in case.get('gc_drop', [])])
            continue
          if c in en:
            pick = c
            break
          info['skipped'] += 1
        if pick is None:
          pick = en[0]
        s.trace.append([pick, s.at[pick]])
        s.turn = pick
        s.status[pick] = 'run'
        s.cv.notify_all()
    for th in threads:
      th.join(WAIT_S)
    info['trace'] = s.trace
    # -- oracle
    keys = {}
    codes = []     # the cache matches code objects by equality: equal twins are one key
    for t, (uid, opts, arg) in enumerate(reqs):
      if uid not in h.pool:
        continue            # dropped by the G action while in flight: nothing left to compare against
      e = h.pool[uid]
      eff = effective('transform', opts)
      kind, val = results.get(t, ('exc', ['exc', 'Missing', 'none', '']))
      if kind == 'fn':
        with world(tr, h.allow):
          act = observe(lambda: val(*(e.selfargs + (arg,))))
      else:
        act = {'out': val, 'ev': []}
      ref = h.reference(uid, 'transform', eff, arg)
      h.nreq += 1
      h.compare('sched', act, ref, {'thread': t, 'function': e.desc, 'options': eff, 'arg': arg, 'trace': s.trace})
      f = getattr(e.fn, '__func__', e.fn)
      rep_ = [c for c in codes if c == f.__code__]
      if not rep_:
        codes.append(f.__code__)
        rep_ = [f.__code__]
      keys.setdefault((id(rep_[0]), repr(eff)), []).append(t)
    h.check_once()
    # two threads inside transform_function for the same key at the same time
    first_has, done_at = {}, {}
    for i, ev in enumerate(s.trace):
      if len(ev) == 2:
        if ev[1] == 'has' and ev[0] not in first_has:
          first_has[ev[0]] = i
        done_at[ev[0]] = i
    for ts in keys.values():
      for a in ts:
        for b in ts:
          if a != b and a in first_has and b in first_has and first_has[a] < first_has[b] <= done_at.get(a, -1):
            info['nt'] = True
    both = [ts for ts in keys.values() if len(ts) > 1]
    info['classes'] = ['part=schedule', 'threads=%d' % len(reqs), 'same_key_threads' if both else 'distinct_keys']
    if any(ev == ['G'] for ev in s.trace):
      info['classes'].append('gc_action_ran')
    if any(len(ev) == 2 and ev[1] == 'lockwait' for ev in s.trace):
      info['classes'].append('thread_waited_for_lock')
    info['nreq'] = len(reqs)
    fails = []
    for b, d in h.fails:
      d = dict(d)
      d.setdefault('trace', s.trace)
      fails.append((b, d))
    return fails, info
  finally:
    h.close()


def scenario(draw, allow_twin_drop=False):
  """A small fixed-shape pool: module A, optionally an equal-code twin A2 and a redefinition B."""
  p = draw(PARAMS)
  ops = [['mod', 'A', render(p)]]
  ents = []      # (uid, codegroup)
  member = draw(st.sampled_from(['f', 'loop', 'lam']))
  ops.append(['get', 1, 'A', member])
  ents.append((1, 'A.' + member))
  ops.append(['mk', 2, 'A', 'make', draw(st.integers(0, 3))])
  ops.append(['mk', 3, 'A', 'make', draw(st.integers(0, 3))])
  ents += [(2, 'A.inner'), (3, 'A.inner')]
  ops.append(['clone', 4, 1, {'G': draw(st.integers(10, 19))}, [7, 8], None])
  ents.append((4, 'A.' + member))
  twin = draw(st.booleans())
  if twin:
    p2 = dict(p)
    p2['G'] = draw(st.integers(20, 29))
    ops.append(['mod', 'A2', render(p2)])
    ops.append(['get', 5, 'A2', member])
    ents.append((5, 'A.' + member))
  if draw(st.booleans()):
    pb = dict(p)
    pb['c2'] = p['c2'] % 5 + 1
    pb['pad'] = p['pad'] + 1
    ops.append(['mod', 'B', render(pb)])
    ops.append(['get', 6, 'B', member])
    ents.append((6, 'B.' + member))
  ops.append(['get', 9, 'A', 'helper'])
  ops.append(['wrap', 7, 'A', 'deco', ['p', 9]])
  ops.append(['wrap', 8, 'A', 'deco', ['copy']])
  ents += [(9, 'A.helper'), (7, 'A.wrapper'), (8, 'A.wrapper')]
  return ops, ents, twin


@st.composite
def sched_cases(draw, max_threads):
  ops, ents, twin = scenario(draw)
  n = draw(st.integers(2, max_threads))
  groups = collections.defaultdict(list)
  for u, g in ents:
    groups[g].append(u)
  g0 = draw(st.sampled_from(sorted(g for g in groups if len(groups[g]) > 1)))
  o0 = draw(st.integers(0, len(OPTS) - 1))
  threads = []
  for t in range(n):
    same = draw(st.integers(0, 9))
    if t < 2 and same < 9:
      same = 0          # the first two threads nearly always contend for one key
    if same < 7:
      u = draw(st.sampled_from(groups[g0]))
      o = o0 if same < 6 else draw(st.integers(0, len(OPTS) - 1))
    else:
      u = draw(st.sampled_from([u for u, _ in ents]))
      o = draw(st.integers(0, len(OPTS) - 1))
    threads.append([u, OPTS[o], draw(st.integers(0, 3))])
  warm = []
  if draw(st.integers(0, 3)) == 0:
    warm.append([draw(st.sampled_from(groups[g0])), OPTS[draw(st.sampled_from([o0, (o0 + 1) % len(OPTS)]))]])
  sched = draw(st.lists(st.integers(0, n - 1), min_size=4, max_size=10 * n))
  case = {'kind': 'sched', 'setup': ops, 'warm': warm, 'threads': threads, 'schedule': sched, 'gc_drop': []}
  if draw(st.booleans()):
    # garbage collection of a function in the middle of the schedule
    used = {t[0] for t in threads} | {w[0] for w in warm}
    cands = [u for u, g in ents if u not in used and u not in (1,)]      # 1 is the clone/wrapper source
    victim_twin = twin and 5 not in used and draw(st.booleans())
    if victim_twin and not EXCLUDE['twin_partial_drop']:
      case['gc_drop'] = [5]
      case['warm'] = [[5, OPTS[o0]]] + warm
    else:
      if victim_twin:
        case['excluded'] = 'twin_partial_drop'
      cands = [u for u in cands if u not in (5, 4, 7, 9)]
      if cands:
        case['gc_drop'] = [draw(st.sampled_from(cands))]
    if case['gc_drop']:
      pos = draw(st.integers(0, len(sched)))
      case['schedule'] = sched[:pos] + ['G'] + sched[pos:]
  return case


def run_sched_case(case, acc=None):
  fails, info = run_schedule(case)
  return fails, info


# ------------------------------------------------------------------------------------------------
# (c) free-running stress


@st.composite
def stress_cases(draw, max_threads):
  ops, ents, twin = scenario(draw)
  n = draw(st.one_of(st.integers(1, 6), st.integers(1, max_threads)))
  hot = draw(st.sampled_from([u for u, _ in ents]))
  hot_o = draw(st.integers(0, len(OPTS) - 1))
  ngroups = draw(st.integers(1, 3))
  threads = []
  for t in range(n):
    reqs = []
    for _ in range(draw(st.integers(1, 3))):
      c = draw(st.integers(0, 9))
      if c < 5:
        reqs.append([draw(st.sampled_from(KINDS)), hot, OPTS[hot_o], draw(st.integers(0, 3))])
      elif c < 9:
        reqs.append([draw(st.sampled_from(KINDS)), draw(st.sampled_from([u for u, _ in ents])),
                     OPTS[draw(st.integers(0, len(OPTS) - 1))], draw(st.integers(0, 3))])
      else:
        reqs.append(['churn', draw(st.integers(0, 4)), draw(st.integers(0, 9)), draw(st.integers(0, 3))])
    threads.append({'group': draw(st.integers(0, ngroups - 1)), 'spin': draw(st.sampled_from([0, 0, 50, 500, 5000])),
                    'reqs': reqs})
  return {'kind': 'stress', 'setup': ops, 'threads': threads,
          'switch': draw(st.sampled_from([1e-6, 1e-6, 1e-5, 1e-4, 5e-3]))}


def run_stress(case):
  h = History()
  info = {'nt': False, 'classes': [], 'nreq': 0}
  old_switch = sys.getswitchinterval()
  try:
    for op in case['setup']:
      h.apply(op)
    specs = case['threads']
    groups = collections.defaultdict(list)
    for t, sp in enumerate(specs):
      groups[sp['group']].append(t)
    barriers = {g: threading.Barrier(len(ts)) for g, ts in groups.items()}
    out = {}

    def churn(t, n, c, salt, arg):
      p = {'pad': 0, 'G': salt, 'c0': c, 'c1': 50 + t, 'c2': 100 + n, 'd0': 1, 'k0': 2, 'dead': 0}
      m = harness.load_module(render(p))
      try:
        want = observe(lambda: m.f(arg))['out'][:2]
        got = observe(lambda: api.to_graph(m.f)(arg))
      finally:
        harness.unload_module(m)
        del m
        gc.collect()
      return got, want

    def body(t, sp):
      res = []
      try:
        barriers[sp['group']].wait(WAIT_S)
        for _ in range(sp['spin']):
          pass
        for n, r in enumerate(sp['reqs']):
          if r[0] == 'churn':
            got, want = churn(t, n, r[1], r[2], r[3])
            res.append(('churn', got, want))
          else:
            kind, uid, opts, arg = r
            e = h.pool[uid]
            eff = effective(kind, opts)
            res.append(('req', observe(lambda: h._exec(kind, e, eff, arg)), None))
      except Exception as e:   # pylint:disable=broad-except
        res.append(('crash', {'out': ['exc', type(e).__name__, harness.exc_bucket(e), repr(e)[:300]], 'ev': []}, None))
      out[t] = res

    sys.setswitchinterval(case['switch'])
    threads = [threading.Thread(target=body, args=(t, sp), daemon=True) for t, sp in enumerate(specs)]
    with world(h.tr, h.allow):
      for g in sorted(groups):
        for t in groups[g]:
          threads[t].start()
      for th in threads:
        th.join(WAIT_S)
        if th.is_alive():
          raise HarnessStall('stress thread did not finish')
    sys.setswitchinterval(old_switch)
    keys = collections.Counter()
    for t, sp in enumerate(specs):
      res = out.get(t, [])
      seen = set()
      for n, r in enumerate(sp['reqs']):
        if n >= len(res):
          h.fail('stress:thread_died', {'thread': t, 'request': r, 'last': res[-1][1] if res else None})
          break
        tag, act, want = res[n]
        h.nreq += 1
        if tag == 'churn':
          if act['out'][:2] != want:
            h.fail('stress:churn:' + (act['out'][2] if act['out'][0] == 'exc' else 'result'),
                   {'thread': t, 'request': r, 'actual': _short(act), 'original': want})
          continue
        if tag == 'crash':
          h.fail('stress:crash:' + act['out'][2], {'thread': t, 'request': r, 'actual': act})
          break
        kind, uid, opts, arg = r
        eff = effective(kind, opts)
        ref = h.reference(uid, kind, eff, arg)
        e = h.pool[uid]
        h.compare('stress:' + kind, act, ref, {'thread': t, 'function': e.desc, 'options': eff, 'arg': arg,
                                                 'nthreads': len(specs)})
        f = getattr(e.fn, '__func__', e.fn)
        k = (id(f.__code__), repr(eff))
        if k not in seen:
          seen.add(k)
          keys[k] += 1
    h.check_once()
    info['nt'] = any(v > 1 for v in keys.values())
    n = len(specs)
    info['classes'] = ['part=stress', 'threads=%s' % ('1' if n == 1 else '2-4' if n <= 4 else '5-16' if n <= 16 else '17-32'),
                       'switch=%g' % case['switch'], 'groups=%d' % len(groups)]
    if any(r[0] == 'churn' for sp in specs for r in sp['reqs']):
      info['classes'].append('with_churn')
    info['nreq'] = h.nreq
    return list(h.fails), info
  finally:
    sys.setswitchinterval(old_switch)
    h.close()


# ------------------------------------------------------------------------------------------------
# runner API


def shard(ctx, acc):
  b = ctx.budget
  run_machines(ctx, acc, ctx.share('machines'), b.get('steps', 30))

  def sched_body(case):
    fails, info = run_schedule(case)
    if case.get('excluded'):
      acc.count('excluded:' + case['excluded'])
    if info['skipped']:
      acc.count('s:skipped_draws', info['skipped'])
    acc.count('s:points', len(info['trace']))
    small = {k: v for k, v in case.items() if k != 'setup'}
    acc.case(key=common.h8(case), nontrivial=info['nt'], classes=info['classes'],
             sample={'kind': 'sched', 'case': small, 'trace': info['trace']} if info['nt'] else None,
             size=len(info['trace']), n=max(1, info.get('nreq', 1)))
    seen = set()
    for bk, d in fails:
      if bk not in seen:
        seen.add(bk)
        acc.fail(bk, case, d)

  common.hyp_run(ctx, sched_cases(b.get('sched_threads', 3)), sched_body, ctx.share('schedules'), extra_seed=2)

  def stress_body(case):
    fails, info = run_stress(case)
    acc.case(key=common.h8(case), nontrivial=info['nt'], classes=info['classes'], n=max(1, info['nreq']))
    seen = set()
    for bk, d in fails:
      if bk not in seen:
        seen.add(bk)
        acc.fail(bk, case, d)

  common.hyp_run(ctx, stress_cases(b.get('max_threads', 32)), stress_body, ctx.share('stress'), extra_seed=3)


def _run_case(case):
  kind = case.get('kind')
  if kind == 'history':
    fails, _, _, _ = run_history(case['ops'])
  elif kind == 'sched':
    fails, _ = run_schedule(case)
  elif kind == 'stress':
    fails = []
    for _ in range(case.get('repeat', 3)):     # free running: a few attempts, any failing attempt counts
      fails, _ = run_stress(case)
      if fails:
        break
  else:
    raise ValueError('unknown case kind %r' % (kind,))
  return fails


def replay(case):
  out, seen = [], set()
  for b, d in _run_case(case):
    if b not in seen:
      seen.add(b)
      out.append({'bucket': b, 'detail': d})
  return out


def shrink(case, bucket, deadline):
  """Greedy deletion of operations / schedule entries / thread requests that keeps the bucket failing."""
  def still(c):
    try:
      return any(b == bucket for b, _ in _run_case(c))
    except Exception:   # pylint:disable=broad-except
      return False

  def minimise(lst, rebuild, keep=lambda x: False):
    i = len(lst) - 1
    while i >= 0 and time.time() < deadline:
      if not keep(lst[i]):
        cand = lst[:i] + lst[i + 1:]
        if still(rebuild(cand)):
          lst = cand
      i -= 1
    return lst

  case = copy.deepcopy(case)
  if case.get('kind') == 'history':
    last = case['ops'][-1:]
    body = minimise(case['ops'][:-1], lambda ops: {'kind': 'history', 'ops': ops + last})
    case['ops'] = body + last
  elif case.get('kind') == 'sched':
    case['schedule'] = minimise(case['schedule'], lambda s: dict(case, schedule=s))
    case['warm'] = minimise(case['warm'], lambda w: dict(case, warm=w))
    if len(case['threads']) > 2:
      pass   # thread ids are referenced by the schedule: keep them
  elif case.get('kind') == 'stress':
    return None
  return case
