"""Trace oracles for C06 (reaching definitions / defined-in) and C07 (liveness). DESIGN 4.6 / 4.7.

The original program (never converted) is instrumented (vf.instrument, reads+writes) and run on
generated inputs; the resulting event lists are compared with what malt's analyses recorded.
"""
import ast

from malt.pyct import anno
from malt.pyct import qual_names
from vf import analysis
from vf import diffobs
from vf import instrument
from vf import rt

SKIP_NAMES = {'ex'}   # except-clause names: outside both properties (and no CFG node carries them)


class Prepared(object):
  pass


def prepare(src, want):
  p = Prepared()
  p.a = analysis.analyse(src, 'make', want)
  t2 = instrument.instrument(p.a.tree, p.a.cfg_vids, reads=True, writes=True)
  p.code = compile(t2, '<dataflow>', 'exec')
  p.locals = {}
  p.globals_decl = {}
  p.nonlocals_decl = {}
  p.comp = {}
  for vid, fn in p.a.fnnode_of.items():
    if isinstance(fn, ast.FunctionDef):
      loc, g, nl = analysis.fn_locals(fn)
      p.locals[vid], p.globals_decl[vid], p.nonlocals_decl[vid] = loc, g, nl
      p.comp[vid] = analysis.enclosing_compounds(p.a, fn)
  # lexical nesting of functions (names resolve lexically, whoever the caller is)
  p.lex_parent = {}

  def rec(n, cur):
    for c in ast.iter_child_nodes(n):
      if isinstance(c, (ast.FunctionDef, ast.AsyncFunctionDef, ast.Lambda)):
        p.lex_parent[c._vid] = cur
        rec(c, c._vid)
      else:
        rec(c, cur)

  rec(p.a.tree, None)
  return p


def run(p, inp, limit=10.0):
  tr = instrument.Tracer()
  ns = instrument.runtime_namespace(tr)
  ns['__name__'] = 'vf_dataflow_case'
  exec(p.code, ns)
  rt.reset()
  prog, cells = ns['make']()
  args = diffobs.fresh_args(inp)
  outcome = 'ok'
  try:
    with diffobs.time_limit(limit):
      try:
        prog(*args)
      except diffobs.Timeout:
        raise
      except BaseException as e:  # noqa
        outcome = 'exc:' + type(e).__name__
  except diffobs.Timeout:
    outcome = 'timeout'
  return tr, outcome


def owner_activation(p, act, name):
  """Activation (act or an ancestor still on the dynamic chain) whose function binds `name`."""
  if act is None:
    return None
  # 1. the function that binds `name` for code running in act's function: lexical resolution
  fv = act.fn_vid
  owner = None
  while fv is not None:
    loc = p.locals.get(fv)
    if loc is None:
      return None      # a function outside the analysed one (module-level helper): its names are its own / globals
    if name in loc:
      owner = fv
      break
    if name in p.globals_decl.get(fv, ()):
      return None
    fv = p.lex_parent.get(fv)
  if owner is None:
    return None
  # 2. the nearest activation of that function on the dynamic chain (a stored function object may be
  #    called from anywhere: through an alias, a container, a registry, another local function)
  cur = act
  while cur is not None:
    if cur.fn_vid == owner:
      return cur
    cur = cur.parent
  return None


# ---------------------------------------------------------------------------------------------
# C06


def check_rd(p, tr, fails, stats):
  a = p.a
  # per activation state
  last = {}    # act.index -> {name: Definition | 'TAINT' | 'DEL'}
  bound = {}   # act.index -> set(names)
  prevnode = {}
  stopped = set()
  live_acts = {}

  def defs_for(act, vid, name):
    g = a.graph_of_fn.get(act.fn_vid)
    an = a.rd.get(id(g))
    node = a.node_of.get(vid)
    if an is None or node is None:
      return None
    st = an.gen_map.get(node)
    if st is None:
      return None
    return st.value.get(qual_names.QN(name))

  # interleave: process activations in global order using a merged walk (events are per activation;
  # nested activations are complete sub-sequences at the position of their 'call' event)
  def walk(act):
    if act.fn_vid not in p.locals:
      # still walk children
      for ev in act.events:
        if ev[0] == 'call':
          walk(tr.activations[ev[1]])
      return
    li = last.setdefault(act.index, {})
    bi = bound.setdefault(act.index, set())
    pv = None
    stop = False
    comp = p.comp[act.fn_vid]
    for ev in act.events:
      k = ev[0]
      if k == 'call':
        walk(tr.activations[ev[1]])
        continue
      if stop:
        continue
      if k == 'stop':
        stop = True
        stats['stopped'] = stats.get('stopped', 0) + 1
        continue
      if k == 'n':
        vid = ev[1]
        # entry of compound statements
        cur = comp.get(vid, [])
        prev = comp.get(pv, []) if pv is not None else []
        for s in cur:
          if s in prev:
            continue
          if isinstance(s, (ast.If, ast.While, ast.For, ast.Try)):
            din = anno.getanno(s, anno.Static.DEFINED_VARS_IN, None)
            if din is None:
              fails.append(('rd:no-DEFINED_VARS_IN', type(s).__name__))
              continue
            have = set(str(q) for q in din)
            missing = sorted(n for n in bi if n not in have and n not in SKIP_NAMES)
            stats['entries'] = stats.get('entries', 0) + 1
            if missing:
              fails.append(('rd:defined-in-misses-bound:%s' % type(s).__name__,
                            {'stmt': ast.unparse(s).split('\n')[0], 'bound_missing': missing}))
        pv = vid
      elif k == 'w':
        vid, names = ev[1], ev[2]
        for n in names:
          if n in SKIP_NAMES:
            continue
          if n in p.locals[act.fn_vid]:
            d = defs_for(act, vid, n)
            if not d:
              li[n] = ('NODEF', vid)
            else:
              li[n] = next(iter(d))
            bi.add(n)
          elif n in p.nonlocals_decl[act.fn_vid]:
            own = owner_activation(p, act, n)
            if own is not None:
              last.setdefault(own.index, {})[n] = 'TAINT'
      elif k == 'd':
        for n in ev[2]:
          if n in p.locals[act.fn_vid]:
            li[n] = 'DEL'
            bi.discard(n)
          elif n in p.nonlocals_decl[act.fn_vid]:
            own = owner_activation(p, act, n)
            if own is not None:
              last.setdefault(own.index, {})[n] = 'TAINT'
      elif k == 'r':
        vid, name = ev[1], ev[2]
        if name in SKIP_NAMES or name not in p.locals[act.fn_vid]:
          continue   # closure / global / builtin reads: F12 (by design no local definition)
        w = li.get(name)
        if w is None or w == 'TAINT' or w == 'DEL':
          continue
        node = a.by_vid.get(vid)
        stats['reads'] = stats.get('reads', 0) + 1
        if isinstance(w, tuple) and w[0] == 'NODEF':
          fails.append(('rd:write-without-definition', {'name': name, 'writer': ast.unparse(a.by_vid[w[1]]).split('\n')[0]}))
          continue
        defs = anno.getanno(node, anno.Static.DEFINITIONS, None)
        if defs is None:
          fails.append(('rd:read-without-DEFINITIONS', {'name': name}))
          continue
        if len(defs) >= 2:
          stats['multi_def_reads'] = stats.get('multi_def_reads', 0) + 1
        if not any(d is w for d in defs):
          fails.append(('rd:actual-writer-not-in-DEFINITIONS', {'name': name, 'ndefs': len(defs),
                                                                 'read_in': _stmt_of(a, vid)}))

  for act in tr.activations:
    if act.parent is None:
      walk(act)


def _stmt_of(a, vid):
  n = a.by_vid.get(vid)
  return ast.unparse(n) if n is not None else '?'


def check_rd_fixpoint(p, fails):
  from malt.pyct.static_analysis import reaching_definitions as rdm
  for an in p.a.rd.values():
    for node in an.graph.index.values():
      defs_in = rdm._NodeState()
      for n in node.prev:
        defs_in |= an.out[n]
      if anno.hasanno(node.ast_node, anno.Static.SCOPE):
        sc = anno.getanno(node.ast_node, anno.Static.SCOPE)
        gen = an.gen_map.get(node)
        if gen is None:
          continue   # never visited by the forward walk: unreachable (dead) node
        kill = sc.modified | sc.deleted
        want = gen | (defs_in - kill)
      else:
        want = defs_in
      if an.out[node] != want or an.in_[node] != defs_in:
        fails.append(('rd:not-a-fixed-point', repr(node)))
        return


# ---------------------------------------------------------------------------------------------
# C07


def check_live(p, tr, fails, stats):
  a = p.a
  # build per activation the list of node instances with reads / writes (own + attributed)
  inst = {}   # act.index -> list of [vid, reads:set, writes:set]
  stopped_at = {}

  def cur_inst(act):
    lst = inst.setdefault(act.index, [])
    return lst[-1] if lst else None

  def walk(act):
    lst = inst.setdefault(act.index, [])
    tracked = act.fn_vid in p.locals
    for ev in act.events:
      k = ev[0]
      if k == 'call':
        walk(tr.activations[ev[1]])
        continue
      if act.index in stopped_at:
        continue
      if k == 'stop':
        stopped_at[act.index] = len(lst)
        continue
      if k == 'n':
        lst.append([ev[1], set(), set()])
      elif k in ('r', 'ra', 'w', 'd'):
        if k == 'ra':
          k = 'r'
        names = [ev[2]] if k == 'r' else ev[2]
        for n in names:
          if n in SKIP_NAMES:
            continue
          own = owner_activation(p, act, n)
          if own is None:
            continue
          ci = cur_inst(own)
          if ci is None:
            continue
          if own is not act and own.index in stopped_at:
            continue
          ci[1 if k == 'r' else 2].add(n)
          if own is not act and k == 'r':
            stats['closure_reads'] = stats.get('closure_reads', 0) + 1

  for act in tr.activations:
    if act.parent is None:
      walk(act)

  for act in tr.activations:
    if act.fn_vid not in p.locals:
      continue
    g = a.graph_of_fn.get(act.fn_vid)
    an = a.live.get(id(g))
    if an is None:
      continue
    lst = inst.get(act.index, [])
    if act.index in stopped_at:
      lst = lst[:stopped_at[act.index]]
    comp = p.comp[act.fn_vid]
    needed = set()
    for i in range(len(lst) - 1, -1, -1):
      vid, reads, writes = lst[i]
      node = a.node_of.get(vid)
      if node is None:
        continue
      # transition i -> i+1: compound statements left / entered
      if i + 1 < len(lst) and needed:
        nxt = lst[i + 1][0]
        cs_a, cs_b = comp.get(vid, []), comp.get(nxt, [])
        for s in cs_a:
          if s not in cs_b and isinstance(s, (ast.If, ast.While, ast.For, ast.Try, ast.ExceptHandler)):
            lo = anno.getanno(s, anno.Static.LIVE_VARS_OUT, None)
            if lo is not None:
              miss = sorted(needed - set(str(q) for q in lo))
              if miss:
                fails.append(('live:LIVE_VARS_OUT-misses:%s' % type(s).__name__,
                              {'stmt': ast.unparse(s).split('\n')[0], 'missing': miss}))
        for s in cs_b:
          if s not in cs_a and isinstance(s, (ast.If, ast.While, ast.For, ast.Try, ast.ExceptHandler, ast.With)):
            lin = anno.getanno(s, anno.Static.LIVE_VARS_IN, None)
            if lin is not None:
              miss = sorted(needed - set(str(q) for q in lin))
              if miss:
                fails.append(('live:LIVE_VARS_IN-misses:%s' % type(s).__name__,
                              {'stmt': ast.unparse(s).split('\n')[0], 'missing': miss}))
      out_names = set(str(q) for q in an.out[node])
      miss = sorted(needed - out_names)
      stats['instances'] = stats.get('instances', 0) + 1
      if miss:
        fails.append(('live:out-misses:%s' % type(node.ast_node).__name__,
                      {'node': repr(node), 'missing': miss}))
        break
      needed = (needed - writes) | reads
      in_names = set(str(q) for q in an.in_[node])
      miss = sorted(needed - in_names)
      if miss:
        fails.append(('live:in-misses:%s' % type(node.ast_node).__name__,
                      {'node': repr(node), 'missing': miss}))
        break


def check_live_fixpoint(p, fails):
  from malt.pyct.static_analysis import annos
  for an in p.a.live.values():
    for node in an.graph.index.values():
      live_out = set()
      for n in node.next:
        live_out |= an.in_[n]
      if anno.hasanno(node.ast_node, anno.Static.SCOPE):
        sc = anno.getanno(node.ast_node, anno.Static.SCOPE)
        gen = set(sc.read)
        kill = sc.modified | sc.deleted
        live_in = gen | (live_out - kill)
        for fn_ast in anno.getanno(node.ast_node, anno.Static.DEFINED_FNS_IN):
          if isinstance(fn_ast, ast.Lambda):
            continue
          fs = anno.getanno(fn_ast, annos.NodeAnno.ARGS_AND_BODY_SCOPE)
          live_in |= (fs.read - (fs.bound - fs.nonlocals))
      else:
        live_in = live_out
      if set(an.out[node]) != live_out or not (set(an.in_[node]) >= live_in):
        fails.append(('live:not-a-fixed-point', {'node': repr(node), 'in': sorted(map(str, an.in_[node])),
                                                   'recomputed_in': sorted(map(str, live_in))}))
        return
