"""Observation runtime shared by generated programs (DESIGN 2.2).

Imported by every generated module (`from vf.rt import *`). All externally visible effects of a
generated program go through LOG, so that an observation is (outcome, LOG, post-state).
"""
import functools
import sys

__all__ = ['SINK', 'deco', 'LOG', 't', 'CM', 'O', 'E1', 'E2', 'E3', 'tryin', 'fin', 'ext1', 'ext2', 'partial', 'nc', 'PROP',
           'reg', 'rcall']

LOG = []
PROP = ('PROPAGATING',)
_TRYSTACK = {}


def t(x):
  """Tracer: logs its argument and returns it (the canonical side effect)."""
  LOG.append(('t', repr(x)))
  return x


def nc(x):
  """A do-not-convert style external function with an effect."""
  LOG.append(('nc', repr(x)))
  return x + 1


def ext1(x):
  LOG.append(('ext1', repr(x)))
  return x * 2 + 1


def ext2(x, y=3, *, k=0):
  LOG.append(('ext2', repr(x), repr(y), repr(k)))
  return x - y + k


partial = functools.partial

_REG = []


def reg(f):
  """Stores a callable handed over by the program (a function object that escapes to "another object")."""
  LOG.append(('reg', len(_REG)))
  _REG.append(f)


def rcall(x):
  """Calls the callable stored last by reg()."""
  LOG.append(('rcall', repr(x)))
  return _REG[-1](x)


class _Sink(object):
  """File-like target for print(..., file=SINK): what is printed becomes part of the effect log."""

  def write(self, s):
    LOG.append(('print', s))

  def flush(self):
    pass


SINK = _Sink()


def deco(k):
  """Decorator factory with a visible effect; the decorated function is returned unchanged."""
  LOG.append(('deco', repr(k)))

  def apply(fn):
    LOG.append(('decorated', fn.__name__))
    return fn
  return apply


def tryin(k):
  """Emitted before every generated `try`: remembers the exception being handled on entry."""
  _TRYSTACK.setdefault(k, []).append(sys.exception())
  return k


def fin(k):
  """Emitted first in every generated `finally`: marks a finally that runs while an exception
  propagates (exempt region of C01/C05)."""
  st = _TRYSTACK.get(k)
  entered = st.pop() if st else None
  if sys.exception() is not entered:
    LOG.append(PROP)
  else:
    LOG.append(('fin', k))
  return k


def reset():
  del LOG[:]
  del _REG[:]
  _TRYSTACK.clear()


class E1(Exception):
  pass


class E2(Exception):
  pass


class E3(E1):
  pass


class CM(object):
  """Context manager logging enter/exit; an exit during propagation is marked like fin()."""

  def __init__(self, k, swallow=False):
    self.k = k
    self.swallow = swallow

  def __enter__(self):
    LOG.append(('enter', self.k))
    return self.k

  def __exit__(self, et, ev, tb):
    if et is not None:
      LOG.append(PROP)
    LOG.append(('exit', self.k, None if et is None else et.__name__))
    return False


class O(object):
  """Object with int attributes and logging methods."""

  def __init__(self):
    self.x = 1
    self.y = 2
    self.n = None
    self.v = [0, 0]

  def m(self, v):
    LOG.append(('m', repr(v)))
    self.y = self.y + 1
    return v + self.x

  def inc(self):
    self.x += 1
    return self.x

  @staticmethod
  def s(v):
    LOG.append(('s', repr(v)))
    return v

  def __repr__(self):
    return 'O(%r)' % (sorted(self.__dict__.items()),)
