import sys
from vf import common
if __name__ == '__main__':
  sys.exit(common.worker_main(sys.argv[1:]))
