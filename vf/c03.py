"""C03 - emitted operator calls obey the operator calling contract.

Generated programs (full C01 class, plus loop directives) are converted through the public entry
points while the control-flow / logical operators of the real ag__ module are replaced by a
contract monitor (vf.backends.Monitor) that validates every dynamic invocation - evaluating the
symbol names in the *caller's frame* - and then delegates to the shipped Python implementation.
"""
import ast
import re
import sys

import hypothesis.strategies as st

from vf import backends
from vf import common
from vf import diffobs
from vf import harness
from vf import progen
from vf import shrink as shrinker

ID = 'C03'
LEVEL = 'exploration'
TECHNIQUE = ('property-based testing with a run-time contract monitor installed in place of if_stmt/while_stmt/for_stmt/if_exp/and_/or_/not_: '
             'caller-frame evaluation of symbol names vs get_state(), get/set laws with sentinels, callback arities, nouts bounds, outputs-first via an outputs-only if_stmt + differential run, '
             'iterate_names and directive placement checked against the source of the generated program')
RULE = ('programs from vf.progen (full statement set incl. composites o.x / d[k], nested defs, jumps) with set_loop_options directives '
        'placed as first body statement in ~35% of loops (unique integer values identify the loop). One evaluation = one dynamic '
        'operator invocation that was validated. Non-trivial = the program run produced an invocation with >= 2 state entries, or a '
        'composite state entry, or a directive; distinct by SHA1 of source.')
ASSUMPTIONS = [
    'positions whose value is an Undefined placeholder for a composite (missing attribute/key) are exempt from the write laws: writing the placeholder back would materialise the attribute (calibration)',
    'while loops are identified by their unique counter name in the test callback, for loops by their unique target text',
    'programs never read possibly-unbound variables and exclude the F29 shape, so a state getter that raises is a violation, not an artefact of an unbound user variable',
    'only invocations that execute are checked',
    'outputs first: after every if_stmt the monitor writes the entry value back into every position >= nouts (what operators.md allows an implementation to do) and the run is compared with the original (result, ordered log, post-state, exception type; C01 rules); states with an Undefined composite are left alone; timeouts are not judged here',
]
LEVEL_TEXT = ('Every operator invocation that occurs while running the generated programs is validated against the documented contract; '
              'a violation is a concrete (program, input, invocation).')
LEVEL_NOTE = 'Trusted: frame introspection (f_locals/f_globals evaluation of qualified names) and the monitor in vf/backends.py.'

class _SkipSentinels(Exception):
  pass


class OutputsOnlyMonitor(backends.Monitor):
  """The contract monitor plus the executable form of "the output count is within bounds with outputs
  first": after the shipped if_stmt has run, only the first `nouts` state entries keep the value the
  branch gave them; every later (input-only) entry is written back to the value it had on entry - what
  operators.md allows an implementation to do. The converted function must still behave like the
  original (compared in run_case), so a variable that is observed after the conditional but sits at a
  position >= nouts (or is missing from the state although a nested function reads it later) shows."""

  def check_state(self, kind, frame, get_state, set_state, symbol_names):
    # Calibration: when the base variable of a composite entry (m0 of m0[1]) is itself a state entry,
    # "write sentinels, read them back" is not a law of the contract - the setter assigns position by
    # position, so a sentinel written to the base breaks the element write. States a backend writes
    # come from earlier reads and are consistent; the sentinel clause is skipped for this shape, every
    # other clause (lengths, caller-frame identity, idempotent reads, write-back of what was read) runs.
    names = [n for n in symbol_names if isinstance(n, str)] if isinstance(symbol_names, tuple) else []
    simple = set(n for n in names if re.match(r'^[A-Za-z_][A-Za-z0-9_]*$', n))
    clash = False
    for n in names:
      if n not in simple:
        try:
          roots = set(x.id for x in ast.walk(ast.parse(n, mode='eval')) if isinstance(x, ast.Name))
        except SyntaxError:
          roots = set()
        if roots & simple:
          clash = True
    if not clash:
      return backends.Monitor.check_state(self, kind, frame, get_state, set_state, symbol_names)
    self.stats['sentinel_law_skipped_composite_base_in_state'] = self.stats.get('sentinel_law_skipped_composite_base_in_state', 0) + 1
    self.arity(kind, 'set_state', set_state, 1)

    def guarded(vals):
      if any(isinstance(v, backends._Sentinel) for v in vals):
        raise _SkipSentinels()
      return set_state(vals)

    try:
      backends.Monitor.check_state(self, kind, frame, get_state, guarded, symbol_names)
    except _SkipSentinels:
      pass

  def if_stmt(self, cond, body, orelse, get_state, set_state, symbol_names, nouts):
    nviol = len(self.violations)
    f = sys._getframe(1)
    self.arity('if', 'body', body, 0)
    self.arity('if', 'orelse', orelse, 0)
    self.check_state('if', f, get_state, set_state, symbol_names)
    ok_nouts = isinstance(nouts, int) and not isinstance(nouts, bool) and 0 <= nouts <= len(symbol_names)
    if not ok_nouts:
      self.bad('if:nouts-out-of-bounds', {'nouts': repr(nouts), 'n': len(symbol_names)})
    init = None
    if ok_nouts and len(self.violations) == nviol and nouts < len(symbol_names):
      try:
        init = get_state()
      except Exception:  # noqa (reported by check_state)
        init = None
    r = self.cf._py_if_stmt(cond, body, orelse)
    if init is not None:
      final = get_state()
      if len(final) == len(init):
        new = list(final)
        nrest = 0
        for i in range(nouts, len(init)):
          if symbol_names[i] in self.declared_names:
            # suspected defect FC03-D (reported, not in known_findings.json): a name the function declares
            # global / nonlocal that is read and written in a branch and not read afterwards is classified
            # input-only although the write is observable outside; such positions are left alone
            # (exclusion flag no_restore_of_declared_names, counted)
            self.stats['excluded:no_restore_of_declared_names'] = self.stats.get('excluded:no_restore_of_declared_names', 0) + 1
            continue
          new[i] = init[i]
          nrest += 1
        composite = [not re.match(r'^[A-Za-z_][A-Za-z0-9_]*$', n) for n in symbol_names]
        if any(composite[i] and backends._is_undef(v) for i, v in enumerate(new)):
          # writing the placeholder of a missing attribute / key back would materialise it (same
          # calibration as the write laws of the base monitor)
          self.stats['restore_skipped_undefined_composite'] = self.stats.get('restore_skipped_undefined_composite', 0) + 1
        elif nrest:
          self.stats['input_only_entries_restored'] = self.stats.get('input_only_entries_restored', 0) + nrest
          set_state(tuple(new))
    return r


GEN = {'directives': 35, 'unbound_reads': False, 'excl': ('no_all_branch_rebind_in_nested_block', 'no_handler_only_binding', 'no_for_target_rebind', 'no_lambda_capture_across_rebind', 'no_impure_chain_middle')}   # FC03d (flag no_restore_of_declared_names) is repaired in /repo: declared names are checked again
_KEEP = []
NEW_CLASSES = ('escape', 'call_through:', 'shape:', 'rebind_in:', 'nested_global_decl', 'subscript_target',
               'kwpartial', 'module_kwpartial', 'optional_fn', 'local_container', 'call_of_enclosing_local_fn', 'local_fn_redefined',
               'store_after_def')


def budget(tier):
  if tier == 'thorough':
    return {'programs': 10000, 'max_depth': 4, 'budget': 36, 'shrink_s': 60, 'wall_cap': 3000}
  return {'programs': 900, 'max_depth': 3, 'budget': 26, 'shrink_s': 20, 'wall_cap': 600}


def expectations(src):
  """Directive kwargs placed per loop, read from the source of the generated module."""
  exp = {'for': {}, 'while': {}, 'for_targets': set()}
  tree = ast.parse(src)
  for n in ast.walk(tree):
    if not isinstance(n, (ast.For, ast.While)):
      continue
    kw = {}
    if n.body and isinstance(n.body[0], ast.Expr) and isinstance(n.body[0].value, ast.Call):
      c = n.body[0].value
      if ast.unparse(c.func) == 'malt.experimental.set_loop_options':
        for k in c.keywords:
          kw[k.arg] = ast.literal_eval(k.value)
    if isinstance(n, ast.For):
      tg = ast.unparse(n.target)
      exp['for_targets'].add(tg)
      exp['for'][tg] = kw
    else:
      names = sorted(set(re.findall(r'\bw\d+\b', ast.unparse(n.test))))
      if len(names) == 1:
        exp['while'][names[0]] = kw
  return exp


def declared_names(src):
  out = set()
  for n in ast.walk(ast.parse(src)):
    if isinstance(n, (ast.Global, ast.Nonlocal)):
      out.update(n.names)
  return out


def run_case(case):
  fails = []
  info = {'runs': 0, 'stats': {}}
  src = case['src']
  try:
    mod = harness.load_module(src)
  except Exception as e:
    info['generator_slip'] = repr(e)
    return fails, info
  _KEEP.append(mod)
  mon = OutputsOnlyMonitor(expectations(src))
  mon.declared_names = declared_names(src) if 'no_restore_of_declared_names' in GEN['excl'] else set()
  config = case.get('config') or {'entry': 'to_graph', 'recursive': True, 'features': []}
  with harness.swapped_ag(**mon.overrides()):
    for inp in case['inputs']:
      prog0, cells0 = mod.make()
      o = diffobs.observe(prog0, inp, mod, cells0, 10.0)
      if o['outcome'] == ('exc', 'NameError') or o['outcome'][0] in ('timeout', 'out-of-class'):
        info['out_of_class'] = True   # reads an unbound variable natively: outside this check's class
        continue
      prog, cells = mod.make()
      try:
        with diffobs.time_limit(30):
          conv = diffobs.convert_entry(prog, config)
      except Exception as e:
        fails.append(('convert:' + harness.exc_bucket(e), {'exc': repr(e)[:400]}))
        break
      c = diffobs.observe(conv, inp, mod, cells, 10.0)
      info['runs'] += 1
      if mon.violations:
        break
      # outputs first / complete state, made observable by the outputs-only if_stmt above
      r = diffobs.compare(o, c) if c['outcome'][0] != 'timeout' else None   # no wall-clock verdicts here (C01 owns non-termination)
      if r is not None:
        b, d = r
        d = dict(d) if isinstance(d, dict) else {'detail': d}
        d['input'] = inp
        fails.append(('contract:outputs-only-if_stmt-changes-behaviour:' + b, d))
        break
  seen = set()
  for clause, detail in mon.violations:
    if clause not in seen:
      seen.add(clause)
      fails.append(('contract:' + clause, detail))
  info['stats'] = mon.stats
  harness.forget_generated(mod)
  return fails, info


CONFIGS = st.fixed_dictionaries({
    'entry': st.sampled_from(['to_graph', 'convert']),
    'recursive': st.booleans(),
    'features': st.sampled_from([[], ['BUILTIN_FUNCTIONS'], ['EQUALITY_OPERATORS']]),
})


def shard(ctx, acc):
  b = ctx.budget
  cfg = dict(GEN, max_depth=b['max_depth'], budget=b['budget'])

  def body(pc):
    prog, config = pc
    case = {'src': prog['src'], 'inputs': prog['inputs'], 'config': config}
    fails, info = run_case(case)
    s = info['stats']
    nt = bool(s.get('state_entries>=2') or s.get('composite_entry') or s.get('directive_seen'))
    cls = ['has:' + k for k in prog['meta'] if k in ('loop_directive', 'composite_write', 'nested_def', 'for_unpack', 'nested_loop')
           or k.startswith(NEW_CLASSES)]
    for k in ('input_only_entries_restored', 'restore_skipped_undefined_composite', 'sentinel_law_skipped_composite_base_in_state', 'excluded:no_restore_of_declared_names'):
      if s.get(k):
        cls.append(k if k.startswith('excluded:') else 'run_with:' + k)
    cls += [k for k in prog['meta'] if k.startswith('excluded:')]
    for k in ('state_entries>=2', 'composite_entry', 'directive_seen', 'write_laws_skipped_undefined_composite'):
      if s.get(k):
        cls.append('run_with:' + k)
    sample = {'src': case['src'], 'inputs': case['inputs']} if nt and len(acc.samples) < acc.MAX_SAMPLES else None
    acc.case(key=common.h8(case['src']), nontrivial=nt, classes=cls, sample=sample, n=max(1, s.get('invocations', 0)))
    acc.count('programs')
    acc.count('write_laws_checked', s.get('write_laws_checked', 0))
    acc.count('undefined_positions', s.get('undefined_positions', 0))
    for bkt, d in fails:
      acc.fail(bkt, case, d)

  common.hyp_run(ctx, st.tuples(progen.programs(cfg), CONFIGS), body, ctx.share('programs'))


def replay(case):
  fails, _ = run_case(case)
  return [{'bucket': b, 'detail': d} for b, d in fails]


def shrink(case, bucket, deadline):
  return shrinker.shrink_case(case, bucket, replay, deadline)
