"""C19 - static type inference over-approximates the types that occur at run time.

A typed mini-language program (`def prog(...)` with nested functions) is analysed by malt's
type inference (qual_names -> activity -> cfg -> reaching definitions -> reaching fndefs ->
type_inference.resolve) with a *truthful* resolver, and an instrumented copy of the same source is
executed by CPython on generated inputs. Every expression / name / parameter occurrence that
carries a TYPES annotation must cover every abstract type observed at that occurrence, and the
CLOSURE_TYPES recorded on a local function must cover the types its captured variables have at
every call. Occurrences without annotation are fine ("reports nothing").
"""
import ast
import builtins
import copy
import itertools
import os
import operator
import symtable
import types as pytypes
import typing

import hypothesis.strategies as st

from malt.pyct import anno
from malt.pyct import cfg
from malt.pyct import naming
from malt.pyct import qual_names
from malt.pyct import transformer
from malt.pyct.static_analysis import activity
from malt.pyct.static_analysis import reaching_definitions
from malt.pyct.static_analysis import reaching_fndefs
from malt.pyct.static_analysis import type_inference

from vf import common
from vf import harness
from vf import shrink as shrinker

ID = 'C19'
LEVEL = 'exploration'
TECHNIQUE = ('trace-oracle property-based testing: Hypothesis-generated typed mini-language programs (constructive, total, '
             'terminating) x typed inputs; malt type inference run with a truthful resolver; an AST-instrumented copy of the '
             'same source executed by CPython logs the abstract type of every expression/name/parameter occurrence and of every '
             'captured variable at each local-function call; inferred sets must cover the log')
RULE = ('programs over int/float/bool/str/list/tuple values drawn from the kind-disciplined generator in vf/c19.py (plain, chained and '
        'tuple/list-pattern assignment incl. nested patterns, re-assignment with another type, if/elif/else, counter-bounded while, '
        'for over range/literals/variables, while/else and for/else, break/continue/early return in loop bodies and in the else '
        'clause of an inner loop (where the jump belongs to the enclosing loop), a variable re-typed right before such a jump and '
        'strongly updated at the end of the target loop body, nested functions up to 3 levels reading and nonlocal-'
        'rebinding enclosing variables (declaration at the top of the function or later, also inside an if/else/while/for block; '
        'rebinding with another type when the defining function does not use the variable after the call), local functions '
        'defined in branches / loop bodies and called where their def does not dominate (start of the loop body, after the '
        'join; behind a flag set after the def; at the start of the loop body also from a parameterless function nested 1-3 '
        'levels further down), calls of an earlier-defined sibling from a later sibling or from functions nested in it (closure-types '
        'clause only for the callee), redefinitions of a local function name with the same signature, '
        'calls to typed/untyped external functions and annotated/unannotated local functions, '
        'conditional and boolean expressions as sources of "unknown"), each run on 2-4 typed input tuples. One evaluation = one '
        '(program, input) execution. Non-trivial = at least one annotated occurrence was observed at run time AND some variable '
        'took >= 2 distinct run-time types over the inputs / across a join; distinct by SHA1 of (source, inputs, resolver options).')
ASSUMPTIONS = [
    'truthful resolver: literals -> exact type (tuples element-wise); external names -> type and value of the real global/builtin '
    '(a name denoting a class resolves to that class, the annotation convention of the repo tests); top-level parameters -> the set of '
    'types of the actual arguments over the inputs of the case; local-function parameters -> the annotated class or unknown; external '
    'calls -> the declared return annotation or unknown; operators -> the real operator applied to representative values of each '
    'operand-type combination (combinations that raise cannot complete at run time and are skipped); anything involving Any/opaque '
    'types -> unknown',
    'a run-time value v is covered by an inferred element t when t is Any, t is the exact class of v, t is the class tuple and v a tuple, '
    't is a tuple of elements covering v element-wise, or t is a Callable[...] and v a function; names whose run-time value is a class '
    'are not checked (annotation convention)',
    'local functions are called by their own name (no aliasing, no escaping closures, no recursion); no with/try/global/lambda/'
    'comprehension (outside the quantified domain)',
    'a local function that a later sibling (or a function nested in it) calls is analysed before that call site is seen (known '
    'finding F32): for such a function (opts.closure_only, set by the generator) only the closure-types clause is compared - '
    'CLOSURE_TYPES of the function itself against the types its captured variables have at every call, direct or from 1-3 function '
    'levels further down - and the occurrences inside its body are not; everything outside its body is compared as usual',
    'a nonlocal declaration may stand anywhere before the first use of the name in the function (CPython: it applies to the whole '
    'function scope); the instrumented copy that CPython executes declares the names at the top of the function so that its entry '
    'probes may read them - same bindings, the analysed tree keeps the declaration in place',
    'a local function that rebinds a variable of its defining function with a value of another type is called by a call statement '
    'outside loops, and the defining function then neither uses that variable nor calls a function capturing it again (what the '
    'parent believes after such a call is finding F22; what the function itself and its children infer is checked)',
    'shapes of listed findings are excluded by construction (coverage.classes excluded:*); see replays/C19',
]
LEVEL_TEXT = ('Randomised exploration of program x input space with CPython itself as the reference for run-time types; every explored '
              'case compares all annotated occurrences, so a wrong set on an explored case is a concrete counterexample. No claim '
              'beyond the cases counted.')
LEVEL_NOTE = ('Trusted: CPython, the test-side truthful resolver and instrumenter in vf/c19.py, the constructive generator keeping '
              'programs total. Out of reach: programs > ~40 statements, user classes/attributes, aliasing of local functions, '
              'facts inside the body of a function that a later sibling calls (F32), '
              'the shapes excluded for known findings.')

# Exclusion flags (DESIGN 1.5): each keeps one confirmed defect shape of the unchanged tree out of the generated search; the
# minimal failing input of each is a committed replay under replays/C19. Redirected draws are counted as excluded:<flag>.
#   no_unknown_store_to_typed_name      a name never holds both a typed and an unknown-typed value: an assignment whose value the
#                                       inference cannot type keeps the target's previous set, and the join of "typed" with
#                                       "bound to unknown" (also: parameter of unknown type) is the typed set
#                                       (F21_unknown_store_keeps_old_type, F21b_join_*, F21d_unknown_parameter_*)
#   no_for_target_typed                 for-loop targets are never-typed names (F20_for_target_keeps_old_type)
#   no_augassign_typed                  augmented assignment only on never-typed names (F20b_augassign_keeps_old_type)
#   no_nonlocal_retype                  a local function rebinds a nonlocal name only with a value of the same exact type
#                                       (F22_nonlocal_rebind_*: parent keeps the stale type; F31_nonlocal_read_at_loop_head_*: the
#                                       function's own analysis forgets the closure type of names it rebinds - repaired).
#                                       Narrowed in round 2: re-typing stays in the search when the rebound variable belongs to the
#                                       defining function and that function never uses it again after the call (classes
#                                       has:nonlocal_retype_unobserved_by_parent, has:call_of_nonlocal_retyper)
#   no_child_capture_of_nonlocal_bound  a function nested in one that rebinds nonlocal x does not read x (F21c_*)
#   no_sibling_local_calls              a local function calls only its own children (F32_sibling_*, F32b_*). Narrowed in round 3:
#                                       a function (and those nested in it) may call a function defined BEFORE it in an enclosing
#                                       scope; the callee's body facts are then not compared (opts.closure_only), its closure types
#                                       are (has:call_of_earlier_sibling_*). Calls at the start of a loop body made from wrapper
#                                       functions defined there, of a function defined further down in the body, are outside F32/F32b
#                                       (the wrappers are analysed before the callee, its def reaches them through the back edge) and
#                                       fully compared (has:call_before_def_in_loop_body_from_function_nested_N_below)
#   no_starred_target                   no starred unpacking targets (F34_starred_target_gets_element_type)
#   no_store_to_var_captured_by_callee  a statement does not store to a variable captured by a local function it calls
#                                       (F33_closure_types_taken_after_the_calling_statement); also: a redefinition of g does not
#                                       capture a variable that an earlier `x = g()` stores to (in a loop that statement runs the
#                                       new definition from the second iteration on)
EXCL = ('no_unknown_store_to_typed_name', 'no_for_target_typed', 'no_augassign_typed', 'no_nonlocal_retype',
        'no_sibling_local_calls', 'no_starred_target',  # no_child_capture_of_nonlocal_bound: F21c fixed in /repo

        'no_store_to_var_captured_by_callee')

# ----------------------------------------------------------------------------------------------
# external world of the generated programs

PRELUDE = '''
G_I = 7
G_F = 2.5
G_S = 'gs'
G_B = True
G_T = (1, 'k')
G_L = [1, 'e']
def ext_int(x) -> int:
  return 3 if x else 4
def ext_float(x) -> float:
  return 1.5 if x else 0.25
def ext_str(x) -> str:
  return 's' if x else ''
def ext_bool(x) -> bool:
  return not x
def ext_pair(x, y) -> tuple:
  return (x, y)
def ext_list(x) -> list:
  return [x, x]
def ext_id(x):
  return x
def ext_swap(x, y):
  return (y, x)
'''


def abstract(v):
  if type(v) is tuple:
    return tuple(abstract(e) for e in v)
  return type(v)


def fmt_type(t):
  if isinstance(t, tuple):
    return '(' + ', '.join(fmt_type(e) for e in t) + ')'
  if isinstance(t, type):
    return t.__name__
  return str(t).replace('typing.', '')


def fmt_types(ts):
  return '{' + ', '.join(sorted(fmt_type(t) for t in ts)) + '}'


def _is_callable_type(t):
  return typing.get_origin(t) is not None and 'Callable' in str(t)


def covers(t, o):
  """Does inferred element t cover observed abstract type o?"""
  if t is typing.Any:
    return True
  if isinstance(t, tuple):
    return isinstance(o, tuple) and len(o) == len(t) and all(covers(a, b) for a, b in zip(t, o))
  if _is_callable_type(t):
    return o in (pytypes.FunctionType, pytypes.BuiltinFunctionType, pytypes.MethodType)
  if isinstance(t, type):
    if isinstance(o, tuple):
      return t is tuple
    return o is t
  return False


def covered(ts, o):
  return any(covers(t, o) for t in ts)


# ----------------------------------------------------------------------------------------------
# truthful resolver

_SAMPLES = {int: [3], float: [2.5], bool: [True], str: ['ab'], list: [[1, 2]]}
_BINOPS = {ast.Add: operator.add, ast.Sub: operator.sub, ast.Mult: operator.mul, ast.Div: operator.truediv,
           ast.FloorDiv: operator.floordiv, ast.Mod: operator.mod}
_UNOPS = {ast.USub: operator.neg, ast.UAdd: operator.pos, ast.Not: operator.not_}


def _sample(t):
  """A representative value of abstract type t, or raises KeyError (outside the universe)."""
  if isinstance(t, tuple):
    return tuple(_sample(e) for e in t)
  return _SAMPLES[t][0]


def _in_universe(t):
  if isinstance(t, tuple):
    return all(_in_universe(e) for e in t)
  return t in _SAMPLES


def _comparable(t):
  """Types whose values compare / negate to a bool whenever the operation completes: the universe, the class tuple (opaque pair)
  and tuples of these (a pair typed only as `tuple` may itself be an element of a typed tuple)."""
  if isinstance(t, tuple):
    return all(_comparable(e) for e in t)
  return t in _SAMPLES or t is tuple


class TruthfulResolver(type_inference.Resolver):

  def __init__(self, namespace, arg_types, unknown_args=()):
    self.ns = namespace
    self.arg_types = arg_types          # {param name of the top-level function: set of abstract types}
    self.unknown_args = set(unknown_args)
    self.queries = 0

  def res_name(self, ns, types_ns, name):
    self.queries += 1
    s = str(name)
    if s in self.ns:
      v = self.ns[s]
    elif hasattr(builtins, s):
      v = getattr(builtins, s)
    else:
      return None, None
    if isinstance(v, type):
      return {v}, v
    return {abstract(v)}, v

  def res_value(self, ns, value):
    self.queries += 1
    return {abstract(value)}

  def res_arg(self, ns, types_ns, f_name, name, type_anno, f_is_local):
    self.queries += 1
    s = str(name)
    if not f_is_local:
      if s in self.unknown_args:
        return None
      ts = self.arg_types.get(s)
      return set(ts) if ts else None
    if type_anno is not None:
      v = self.ns.get(str(type_anno), getattr(builtins, str(type_anno), None))
      if isinstance(v, type):
        return {v}
    return None

  def res_call(self, ns, types_ns, node, f_type, args, keywords):
    self.queries += 1
    f = anno.getanno(node.func, anno.Static.VALUE, None)
    if isinstance(f, pytypes.FunctionType):
      ret = getattr(f, '__annotations__', {}).get('return', None)
      if isinstance(ret, type):
        return {ret}, None
      return None, None
    if f is range:
      return {range}, None
    if f is None and f_type:
      rets = set()
      for t in f_type:
        if not _is_callable_type(t):
          return None, None
        a = typing.get_args(t)
        if not a or a[-1] is typing.Any or not isinstance(a[-1], type):
          return None, None
        rets.add(a[-1])
      return (rets or None), None
    return None, None

  def res_slice(self, ns, types_ns, node_or_slice, value, slice_):
    self.queries += 1
    if isinstance(node_or_slice, int):
      idx = node_or_slice
    else:
      sl = node_or_slice.slice
      if isinstance(sl, ast.Constant) and type(sl.value) is int:
        idx = sl.value
      else:
        return None
    out = set()
    for t in value:
      if isinstance(t, tuple) and -len(t) <= idx < len(t):
        out.add(t[idx])
      else:
        return None
    return out or None

  def res_compare(self, ns, types_ns, node, left, right):
    self.queries += 1
    for s in [left] + list(right):
      for t in s:
        if not _comparable(t):
          return None
    return {bool}

  def res_unop(self, ns, types_ns, node, opnd):
    self.queries += 1
    op = _UNOPS.get(type(node.op))
    if op is None:
      return None
    if isinstance(node.op, ast.Not):
      return {bool} if all(_comparable(t) for t in opnd) else None
    out = set()
    for t in opnd:
      if not _in_universe(t):
        return None
      try:
        out.add(abstract(op(_sample(t))))
      except Exception:
        pass
    return out or None

  def res_binop(self, ns, types_ns, node, left, right):
    self.queries += 1
    op = _BINOPS.get(type(node.op))
    if op is None:
      return None
    out = set()
    for l, r in itertools.product(left, right):
      if not (_in_universe(l) and _in_universe(r)):
        return None
      try:
        out.add(abstract(op(_sample(l), _sample(r))))
      except Exception:
        pass   # this combination cannot complete at run time either
    return out or None

  def res_list_literal(self, ns, elt_types):
    self.queries += 1
    return {list}


# ----------------------------------------------------------------------------------------------
# instrumentation (of the original source; CPython produces the trace)

class _Stop(BaseException):
  pass


class Observer(object):

  def __init__(self, limit=400000):
    self.obs = {}      # cid -> set of abstract types
    self.clo = {}      # (function cid, name) -> set of abstract types
    self.vals_are_class = set()
    self.n = 0
    self.limit = limit

  def o(self, cid, v):
    self.n += 1
    if self.n > self.limit:
      raise _Stop()
    t = type(v)
    if t is str or t is list or t is tuple:
      if len(v) > 4000:
        raise _Stop()
    elif t is int:
      if v.bit_length() > 2000:
        raise _Stop()
    elif isinstance(v, type):
      self.vals_are_class.add(cid)
    self.obs.setdefault(cid, set()).add(abstract(v))
    return v

  def c(self, fid, name, v):
    self.clo.setdefault((fid, name), set()).add(abstract(v))


def assign_ids(tree):
  n = 0
  for node in ast.walk(tree):
    node._cid = n
    n += 1


def _free_vars(src, top):
  """{(function name, line of its def): sorted free variable names} for every function nested in `top` (a name may be
  defined more than once: redefinitions)."""
  out = {}

  def rec(tab, inside):
    for ch in tab.get_children():
      if ch.get_type() == 'function':
        if inside:
          out[(ch.get_name(), ch.get_lineno())] = sorted(ch.get_frees())
        rec(ch, inside or ch.get_name() == top)

  rec(symtable.symtable(src, '<c19>', 'exec'), False)
  return out


def _call(fn, *args):
  return ast.Call(func=ast.Name(id=fn, ctx=ast.Load()), args=list(args), keywords=[])


class _Instr(ast.NodeTransformer):
  """Wraps every Load-context expression in __o(cid, e); probes stored names after the statement,
  parameters and captured variables at function entry."""

  def __init__(self, frees, top):
    self.frees = frees
    self.top = top

  # expressions
  def _wrap(self, node, new):
    return ast.copy_location(_call('__o', ast.Constant(node._cid), new), node)

  def visit(self, node):
    if isinstance(node, ast.expr):
      ctx = getattr(node, 'ctx', None)
      if isinstance(ctx, (ast.Store, ast.Del)):
        # visit children that are loads (subscript value / index), not the target itself
        if isinstance(node, (ast.Subscript, ast.Attribute)):
          node.value = self.visit(node.value)
          if isinstance(node, ast.Subscript):
            node.slice = self.visit(node.slice)
        elif isinstance(node, (ast.Tuple, ast.List)):
          node.elts = [self.visit(e) for e in node.elts]
        elif isinstance(node, ast.Starred):
          node.value = self.visit(node.value)
        return node
      if isinstance(node, (ast.Starred, ast.Slice, ast.JoinedStr, ast.FormattedValue, ast.Lambda, ast.ListComp, ast.SetComp,
                           ast.DictComp, ast.GeneratorExp, ast.NamedExpr, ast.Await, ast.Yield, ast.YieldFrom)):
        return node
      cid = node._cid
      new = super().generic_visit(node)
      new._cid = cid
      return self._wrap(new, new)
    return super().visit(node)

  # statements that bind names
  def _stored(self, target, out):
    if isinstance(target, ast.Name):
      out.append(target)
    elif isinstance(target, (ast.Tuple, ast.List)):
      for e in target.elts:
        self._stored(e, out)
    elif isinstance(target, ast.Starred):
      self._stored(target.value, out)

  def _probes(self, names):
    res = []
    for n in names:
      e = ast.Expr(_call('__o', ast.Constant(n._cid), ast.Name(id=n.id, ctx=ast.Load())))
      res.append(ast.copy_location(e, n))
    return res

  def visit_Assign(self, node):
    names = []
    for t in node.targets:
      self._stored(t, names)
    node = self.generic_visit(node)
    return [node] + self._probes(names)

  def visit_AugAssign(self, node):
    names = []
    self._stored(node.target, names)
    node.value = self.visit(node.value)
    return [node] + self._probes(names)

  def visit_For(self, node):
    names = []
    self._stored(node.target, names)
    node = self.generic_visit(node)
    node.body = self._probes(names) + node.body
    return node

  def visit_FunctionDef(self, node):
    fid, name = node._cid, node.name
    args = node.args
    params = args.posonlyargs + args.args + args.kwonlyargs
    node.body = [s for b in node.body for s in (lambda r: r if isinstance(r, list) else [r])(self.visit(b))]
    node.args.defaults = [self.visit(d) for d in node.args.defaults]
    head = []
    for a in params:
      head.append(ast.Expr(_call('__o', ast.Constant(a._cid), ast.Name(id=a.arg, ctx=ast.Load()))))
    if name != self.top:
      for fv in self.frees.get((name, node.lineno), ()):
        probe = ast.Expr(_call('__c', ast.Constant(fid), ast.Constant(fv), ast.Name(id=fv, ctx=ast.Load())))
        head.append(ast.Try(body=[probe], handlers=[ast.ExceptHandler(type=ast.Name(id='NameError', ctx=ast.Load()), name=None,
                                                                      body=[ast.Pass()])], orelse=[], finalbody=[]))
    # a nonlocal/global declaration placed in a nested block (if/while/for body) applies to the whole function scope; the
    # entry probes read the declared names, so the executed copy declares them first (same binding semantics in CPython;
    # the analysed tree keeps the declaration where the program has it)
    late = _hoist_declarations(node)
    k = 0
    while k < len(node.body) and (isinstance(node.body[k], (ast.Nonlocal, ast.Global)) or (
        k == 0 and isinstance(node.body[k], ast.Expr) and isinstance(node.body[k].value, ast.Constant)
        and isinstance(node.body[k].value.value, str))):
      k += 1
    node.body[k:k] = late + head
    return node


def _hoist_declarations(fn_node):
  """Replaces the nonlocal/global statements of fn_node's own scope (wherever they are placed) by `pass` and returns them
  (to be placed at the top of the function)."""
  out = []

  def rec(stmts, nested):
    for k, s in enumerate(stmts):
      if isinstance(s, (ast.FunctionDef, ast.AsyncFunctionDef, ast.ClassDef)):
        continue
      if isinstance(s, (ast.Nonlocal, ast.Global)):
        if nested:
          out.append(s)
          stmts[k] = ast.copy_location(ast.Pass(), s)
        continue
      for f in ('body', 'orelse', 'finalbody'):
        sub = getattr(s, f, None)
        if isinstance(sub, list) and sub and isinstance(sub[0], ast.stmt):
          rec(sub, True)
      for h in getattr(s, 'handlers', None) or ():
        rec(h.body, True)

  rec(fn_node.body, True)
  return out


def instrument(tree, src, top):
  t2 = copy.deepcopy(tree)
  t2 = _Instr(_free_vars(src, top), top).visit(t2)
  ast.fix_missing_locations(t2)
  return t2


# ----------------------------------------------------------------------------------------------
# analysis

def parse_inputs(inputs):
  return [ast.literal_eval(s) for s in inputs]


def infer(fn_node, src, namespace, resolver):
  info = transformer.EntityInfo(name=fn_node.name, source_code=src, source_file=None, future_features=(), namespace=namespace)
  ctx = transformer.Context(info, naming.Namer({}), None)
  node = qual_names.resolve(fn_node)
  node = activity.resolve(node, ctx)
  graphs = cfg.build(node)
  node = reaching_definitions.resolve(node, ctx, graphs)
  node = reaching_fndefs.resolve(node, ctx, graphs)
  node = type_inference.resolve(node, ctx, graphs, resolver)
  return node


_PRELUDE_CODE = compile(PRELUDE, '<c19 prelude>', 'exec')


def new_namespace():
  ns = {'__name__': 'c19_generated'}
  exec(_PRELUDE_CODE, ns)
  return ns


def _seg(src_lines, node):
  try:
    return ast.unparse(node)[:80]
  except Exception:
    return '?'


def run_case(case, expect_kn=None):
  """Executes the oracle on {'src', 'inputs', 'opts'}. Returns (failures [(bucket, detail)], info).
  expect_kn (generator self-check only): {'function.qualname:name': 'K'|'U'|'W'} predicted knownness of local names."""
  fails = []
  info = {'runs': 0, 'facts': 0, 'silent': 0, 'raised': [], 'multi': False, 'closure_facts': 0, 'closure_multi': False,
          'checked_kinds': set()}
  src = case['src']
  opts = case.get('opts') or {}
  top = opts.get('top', 'prog')
  inputs = parse_inputs(case['inputs'])
  tree = ast.parse(src)
  assign_ids(tree)
  fn = [n for n in tree.body if isinstance(n, ast.FunctionDef) and n.name == top][0]

  # 1. run the instrumented original under CPython
  ns = new_namespace()
  obsv = Observer()
  ns['__o'], ns['__c'] = obsv.o, obsv.c
  inst = instrument(tree, src, top)
  exec(compile(inst, '<c19 case>', 'exec'), ns)
  for inp in inputs:
    info['runs'] += 1
    try:
      ns[top](*inp)
    except _Stop:
      info['raised'].append('step_limit')
    except RecursionError:
      info['raised'].append('RecursionError')
    except Exception as e:
      info['raised'].append(type(e).__name__)

  # 2. static inference with the truthful resolver
  params = [a.arg for a in fn.args.posonlyargs + fn.args.args + fn.args.kwonlyargs]
  arg_types = {}
  for inp in inputs:
    for p, v in zip(params, inp):
      arg_types.setdefault(p, set()).add(abstract(v))
  res_ns = new_namespace()
  resolver = TruthfulResolver(res_ns, arg_types, opts.get('unknown_args', ()))
  try:
    infer(fn, src, res_ns, resolver)
  except Exception as e:
    fails.append(('infer:exc:' + harness.exc_bucket(e), {'exc': repr(e)[:400]}))
    return fails, info

  # 3. compare
  owner = {}
  var_types = {}

  # owner function of every node (innermost)
  def assign_owner(node, qual):
    for ch in ast.iter_child_nodes(node):
      if isinstance(ch, ast.FunctionDef):
        owner[ch._cid] = qual
        assign_owner(ch, qual + '.' + ch.name)
      else:
        owner[ch._cid] = qual
        assign_owner(ch, qual)

  owner[fn._cid] = ''
  assign_owner(fn, fn.name)
  seen_buckets = set()
  lines = src.splitlines()
  # local functions called from a later sibling (generator: narrowed no_sibling_local_calls): the closure-types clause is
  # compared for them, the facts inside their bodies (known finding F32) are not
  closure_only = set(opts.get('closure_only') or ())
  skip = set()
  if closure_only:
    for n in ast.walk(fn):
      if isinstance(n, ast.FunctionDef) and n is not fn and n.name in closure_only:
        skip.update(m._cid for m in ast.walk(n) if m is not n)
    info['skipped_body_nodes'] = len(skip)
  for n in ast.walk(fn):
    cid = n._cid
    if cid in skip:
      continue
    if isinstance(n, ast.FunctionDef) and n is not fn:
      rec = anno.getanno(n, anno.Static.CLOSURE_TYPES, None)
      for (fid, name), seen in sorted(obsv.clo.items(), key=lambda kv: (kv[0][0], kv[0][1])):
        if fid != cid:
          continue
        if len(seen) > 1:
          info['closure_multi'] = True
        ts = None
        if rec is not None:
          for qn, v in rec.items():
            if str(qn) == name:
              ts = v
        if ts is None:
          info['silent'] += 1
          continue
        info['closure_facts'] += 1
        info['facts'] += 1
        missing = [o for o in seen if not covered(ts, o)]
        if missing and 'closure_types' not in seen_buckets:
          seen_buckets.add('closure_types')
          fails.append(('closure_types', {'function': n.name, 'line': n.lineno, 'variable': name, 'recorded': fmt_types(ts),
                                          'at_calls': fmt_types(seen), 'not_covered': fmt_types(missing)}))
      continue
    seen = obsv.obs.get(cid)
    if isinstance(n, ast.Name) or isinstance(n, ast.arg):
      if seen:
        key = (owner.get(cid), n.id if isinstance(n, ast.Name) else n.arg)
        var_types.setdefault(key, set()).update(seen)
    if not seen:
      continue
    if not (isinstance(n, ast.expr) or isinstance(n, ast.arg)):
      continue
    if not anno.hasanno(n, anno.Static.TYPES):
      info['silent'] += 1
      continue
    if cid in obsv.vals_are_class:
      continue
    ts = anno.getanno(n, anno.Static.TYPES)
    info['facts'] += 1
    if isinstance(n, ast.arg):
      kind = 'arg'
    elif isinstance(n, ast.Name):
      kind = 'Name.' + type(n.ctx).__name__.lower()
    else:
      kind = 'expr.' + type(n).__name__
    info['checked_kinds'].add(kind)
    try:
      missing = [o for o in seen if not covered(ts, o)]
    except Exception as e:   # malformed annotation
      fails.append(('types:malformed', {'annotation': repr(ts)[:200], 'exc': repr(e)}))
      continue
    if missing:
      b = 'types:' + kind
      if b not in seen_buckets:
        seen_buckets.add(b)
        fails.append((b, {'line': n.lineno, 'col': n.col_offset, 'code': _seg(lines, n), 'stmt': lines[n.lineno - 1].strip()[:100],
                          'function': owner.get(cid), 'inferred': fmt_types(ts), 'observed': fmt_types(seen),
                          'not_covered': fmt_types(missing)}))
  info['multi'] = any(len(v) > 1 for v in var_types.values())
  info['kn_mismatch'] = []
  if expect_kn:
    for st_ in ast.walk(fn):
      if not isinstance(st_, ast.Assign):
        continue
      for n in ast.walk(st_):
        if isinstance(n, ast.Name) and isinstance(n.ctx, ast.Store) and n._cid in obsv.obs and n._cid not in skip:
          exp = expect_kn.get('%s:%s' % (owner.get(n._cid), n.id))
          has = anno.hasanno(n, anno.Static.TYPES)
          if exp is not None and (exp == 'U') == has:
            info['kn_mismatch'].append('%s line %d: %s predicted %s, %s' % (owner.get(n._cid), n.lineno, n.id, exp,
                                                                          'typed' if has else 'untyped'))
  info['queries'] = resolver.queries
  return fails, info


def replay(case):
  fails, info = run_case(case)
  return [{'bucket': b, 'detail': d} for b, d in fails]


# ----------------------------------------------------------------------------------------------
# generator: kind-disciplined, constructive
#
# kinds (what values a variable/expression may take; fixed per variable name, keeps programs total):
#   'I' int  'F' float  'B' bool  'S' str  'N' int|float|bool  'L' non-empty list  ('T', k1..kn) tuple
#   ('O', 2) pair whose static type is only the class tuple  'A' any of these
# knownness (what the inference can know about it, predicted by construction):
#   'K' typed on every path, 'U' never typed (unknown to inference), 'W' typed Any (result of an
#   unannotated local function); under the exclusion flags a name never changes knownness.

EXACT = ('I', 'F', 'B', 'S')
CLSNAME = {'I': 'int', 'F': 'float', 'B': 'bool', 'S': 'str', 'L': 'list', ('O', 2): 'tuple'}


ALEVEL = {'A0': 0, 'A1': 1, 'A': 2}


def kdepth(k):
  """Tuple-nesting depth a value of this kind can have in the static type vocabulary (kinds are non-recursive, so the
  type lattice of every variable is finite and the fixed-point iteration terminates)."""
  if k in ALEVEL:
    return ALEVEL[k]
  if isinstance(k, tuple) and k[0] == 'T':
    return 1 + max(kdepth(e) for e in k[1:])
  return 0


def leq(k1, k2):
  if k1 == k2:
    return True
  if k2 in ALEVEL:
    return kdepth(k1) <= ALEVEL[k2]
  if k2 == 'N':
    return k1 in ('I', 'F', 'B')
  if isinstance(k1, tuple) and isinstance(k2, tuple) and k1[0] == 'T' and k2[0] == 'T' and len(k1) == len(k2):
    return all(leq(a, b) for a, b in zip(k1[1:], k2[1:]))
  return False


def is_exact(k):
  if isinstance(k, tuple):
    return k[0] == 'T' and all(is_exact(e) for e in k[1:])
  return k in EXACT


def is_T(k):
  return isinstance(k, tuple) and k[0] == 'T'


class Var(object):
  __slots__ = ('name', 'kind', 'kn', 'role', 'owner')

  def __init__(self, name, kind, kn, role, owner):
    self.name, self.kind, self.kn, self.role, self.owner = name, kind, kn, role, owner


class FnInfo(object):
  def __init__(self, name, params, ret_kind, ret_anno, scope):
    self.name, self.params, self.ret_kind, self.ret_anno, self.scope = name, params, ret_kind, ret_anno, scope
    self.scopes = [scope]   # one Fn per definition of this name (redefinitions share the signature)
    self.retypes = set()    # names of the defining function this one rebinds (nonlocal) with values of another type
    self.call_targets = set()  # names stored by statements that call this function
    self.ncalls = 0
    self.sib_called = False    # called from a later sibling (or a function nested in one): only its closure types are compared


class Fn(object):
  def __init__(self, name, parent, level):
    self.name, self.parent, self.level = name, parent, level
    self.vars = {}
    self.nonlocal_names = {}
    self.avail_free = {}
    self.avail_funcs = []
    self.free_used = set()
    self.funcs = {}
    self.bound = set()
    self.ret_kind = 'A'
    self.ret_anno = False
    self.base = 0           # depth of this function's top-level block
    self.late_nl = []       # nonlocal names not declared yet (declaration placed later in the body, maybe in a nested block)
    self.hidden = set()     # own names a called local function may have rebound with another type: never used again here
    self.hoist = []         # lines to put before the top-level statement under construction (guard initialisations)
    self.guards = {}        # local function defined in a nested block -> flag variable that is True once the def ran
    self.loops = []         # enclosing loops of the statement under construction: {'bound': set, 'early': [lines]}
    self.blocks = []        # kinds of the enclosing compound-statement blocks ('if', 'else', 'while', 'for')
    self.in_loop = False
    self.taken = set()      # names earlier definitions of the same function name refer to (redefinitions)
    self.is_redef = False
    self.tainted = False    # this function or one nested in it may call an earlier sibling
    self.sib_calls = 0      # number of such calls made by this function or one nested in it
    self.no_sib = False     # (a redefinition of) a function that a sibling calls: makes no sibling calls itself


class Gen(object):

  def __init__(self, draw, cfg):
    self.draw = draw
    self.cfg = cfg
    self.excl = set(cfg.get('excl', EXCL))
    self.meta = {}
    self.nvar = 0
    self.nfn = 0
    self.budget = cfg.get('budget', 14)
    self.max_fns = cfg.get('max_fns', 3)
    self.max_depth = cfg.get('max_depth', 3)
    self.max_level = cfg.get('max_level', 3)   # local functions nest up to 3 levels below the analysed function
    self.kn = {}            # 'qualname:name' -> predicted knownness of every local name
    self.forbid = set()     # names the functions called in the expression under construction must not capture
    self.called = []        # FnInfo of local functions called by the statement under construction
    self.nocall = False     # the expression under construction calls no local function (it stands in a wrapper function)
    self.closure_only = set()  # local functions called from a later sibling: facts inside their bodies are not compared (F32)

  # -- draws
  def i(self, lo, hi):
    return self.draw(st.integers(lo, hi))

  def pick(self, seq):
    return seq[self.i(0, len(seq) - 1)]

  def chance(self, pct):
    return self.i(0, 99) < pct

  def wpick(self, opts):
    """opts: [(weight, thunk)] -> thunk()"""
    tot = sum(w for w, _ in opts)
    r = self.i(0, tot - 1)
    for w, t in opts:
      if r < w:
        return t()
      r -= w
    raise AssertionError

  def note(self, k, n=1):
    self.meta[k] = self.meta.get(k, 0) + n

  def want(self, flag, pct):
    """Would the generator produce the shape excluded by `flag` here? Redirected when the flag is on."""
    if not self.chance(pct):
      return False
    if flag in self.excl:
      self.note('excluded:' + flag)
      return False
    self.note('shape:' + flag)
    return True

  # -- names
  def fresh(self, prefix):
    self.nvar += 1
    return '%s%d' % (prefix, self.nvar)

  # -- scope queries
  def readable(self, fn, pred=None):
    out = []
    for name in sorted(fn.bound):
      v = fn.vars.get(name)
      if v is not None:
        out.append(v)
    for name in sorted(fn.nonlocal_names):
      out.append(fn.nonlocal_names[name])
    for name in sorted(fn.avail_free):
      if name not in fn.vars and name not in fn.nonlocal_names:
        out.append(fn.avail_free[name])
    if fn.hidden:
      out = [v for v in out if v.name not in fn.hidden]
    if pred is not None:
      out = [v for v in out if pred(v)]
    return out

  def use(self, fn, v):
    """Records a read of v from fn; returns its name."""
    if v.name not in fn.vars and v.name not in fn.nonlocal_names:
      f = fn
      while f is not None and f is not v.owner:
        f.free_used.add(v.name)
        f = f.parent
    return v.name

  def callable_fns(self, fn, retypers=False):
    """Local functions an expression of fn may call here. Functions that re-type a variable of fn (info.retypes) are only
    called by a call statement outside loops (retypers=True), see stmt_funcdef."""
    if self.nocall:
      return []
    out = [fn.funcs[n] for n in sorted(fn.funcs) if n in fn.bound]
    out += list(fn.avail_funcs)
    if retypers:
      out = [f for f in out if not f.retypes or not fn.in_loop]
    else:
      out = [f for f in out if not f.retypes]
    bad = self.forbid | fn.hidden
    if bad:
      out = [f for f in out if not (self.captured(f) & bad)]
    return out

  def can_call(self, fn, info):
    if self.captured(info) & fn.hidden:
      return False
    return not (info.retypes and fn.in_loop)

  @staticmethod
  def captured(info):
    out = set()
    for sc in info.scopes:
      out |= set(sc.free_used) | set(sc.nonlocal_names)
    return out

  def begin_stmt(self, fn=None, targets=()):
    """Starts a storing statement: calls made by its right-hand side must not capture a name it stores to
    (the closure types of the callee are recorded from the state *after* the statement)."""
    self.called = []
    self.forbid = set()
    if targets and any(self.captured(f) & set(targets) for f in self.callable_fns(fn)):
      if not self.want('no_store_to_var_captured_by_callee', 50):
        self.forbid = set(targets)

  def stores(self, names):
    """The statement just built stores to `names`: remembered on every local function it calls (a later redefinition of such
    a function inside a loop must not capture them, the calling statement runs it through the back edge: F33 again)."""
    for f in self.called:
      f.call_targets.update(names)

  def storable(self, v):
    """May the statement under construction store to existing variable v?"""
    if not any(v.name in self.captured(f) for f in self.called):
      return True
    if 'no_store_to_var_captured_by_callee' in self.excl:
      self.note('excluded:no_store_to_var_captured_by_callee')
      return False
    self.note('shape:no_store_to_var_captured_by_callee')
    return True

  # -- kinds
  def concrete(self, kind):
    """A kind <= kind, concrete enough to pick an expression form."""
    if kind in ALEVEL:
      menu = ['I', 'F', 'B', 'S', 'N', 'I', 'S', 'L', ('O', 2)]
      lv = ALEVEL[kind]
      if lv > 0:
        sub = 'A0' if lv == 1 else 'A1'
        menu += [('T', self.concrete(sub), self.concrete(sub)), ('T', 'N', 'S'), ('T', 'I', 'F', 'S'), ('T', sub, sub)]
      return self.pick(menu)
    if kind == 'N':
      return self.pick(['I', 'F', 'B', 'I', 'F', 'N'])
    if is_T(kind):
      return ('T',) + tuple(self.concrete(e) if e in ALEVEL and self.chance(50) else e for e in kind[1:])
    return kind

  def generalize(self, kind, cap=2):
    """A kind >= kind whose depth stays <= cap."""
    r = self.i(0, 9)
    cap = max(cap, kdepth(kind))
    top = ['A0', 'A1', 'A'][min(cap, 2)]
    if kind in ALEVEL:
      return kind if r < 5 else top
    if kind in ('I', 'F', 'B'):
      return kind if r < 3 else ('N' if r < 7 else top)
    if kind == 'N':
      return 'N' if r < 6 else top
    if is_T(kind):
      if r < 2:
        return top
      return ('T',) + tuple(self.generalize(e, cap - 1) if r < 7 else e for e in kind[1:])
    return kind if r < 5 else top

  # -- literals
  def lit(self, kind):
    if kind == 'I':
      return str(self.i(-2, 9))
    if kind == 'F':
      return self.pick(['0.5', '1.5', '2.25', '-1.0', '3.0'])
    if kind == 'B':
      return self.pick(['True', 'False'])
    if kind == 'S':
      return self.pick(["'a'", "'bc'", "''", "'xyz'"])
    if kind == 'N':
      return self.lit(self.pick(['I', 'F', 'B']))
    if kind == 'L':
      return '[' + ', '.join(self.lit('A') for _ in range(self.i(1, 2))) + ']'
    if kind == ('O', 2):
      return 'ext_pair(%s, %s)' % (self.lit('N'), self.lit('S'))
    if is_T(kind):
      return '(' + ', '.join(self.lit(e) for e in kind[1:]) + ')'
    if kind == 'A0':
      return self.lit(self.pick(['I', 'F', 'B', 'S', 'L']))
    if kind in ALEVEL:
      return self.lit(self.pick(['I', 'F', 'B', 'S', ('T', 'I', 'S'), 'L', ('T', 'F', 'B')]))
    raise AssertionError(kind)

  # -- expressions
  def expr(self, fn, kind, kn, d, now=False):
    if kn == '*':
      kn = 'K' if self.chance(65) else 'U'
    if kn == 'K':
      return self.kexpr(fn, kind, d)
    return self.uexpr(fn, kind, d, now)

  def _subscripts(self, fn, kind, kn):
    out = []
    for v in self.readable(fn, lambda v: is_T(v.kind) and v.kn == kn):
      for k, e in enumerate(v.kind[1:]):
        if leq(e, kind):
          out.append((v, k))
    return out

  def _typed_calls(self, fn, kind):
    return [f for f in self.callable_fns(fn) if f.ret_anno and leq(f.ret_kind, kind)]

  def call_src(self, fn, info, d):
    info.ncalls += 1
    self.called.append(info)
    self.note('stmt:local_call')
    if info.name not in fn.funcs and not self.nocall:
      self.sibling_call(fn, info)
    args = [self.expr(fn, k, '*', max(0, d - 1)) for (_, k, _) in info.params]
    if args and self.chance(15):
      self.note('has:keyword_call')
      args = ['%s=%s' % (p[0], a) for p, a in zip(info.params, args)]
    if info.retypes:
      # from here on the parent's idea of these variables may be stale (F22): nothing of fn uses them again
      fn.hidden |= info.retypes
      self.note('has:call_of_nonlocal_retyper')
    return '%s(%s)' % (info.name, ', '.join(args))

  def sibling_call(self, fn, info):
    """fn (a later sibling of info, or a function nested in one) calls info: narrowed exclusion no_sibling_local_calls."""
    owner = info.scope.parent
    info.sib_called = True
    self.closure_only.add(info.name)
    k, f = 0, fn
    names = self.captured(info)
    while f is not None and f is not owner:
      f.sib_calls += 1
      f.free_used |= names     # what the callee captures is (indirectly) used by every function on the way up
      k, f = k + 1, f.parent
    self.note('has:call_of_earlier_sibling_closure_types_only')
    self.note('has:call_of_earlier_sibling_from_%d_function_levels_below_its_def' % k)
    if k >= 2:
      self.note('has:local_call_from_>=2_function_levels_below_def')

  def kexpr(self, fn, kind, d):
    opts = []
    vs = self.readable(fn, lambda v: v.kn == 'K' and leq(v.kind, kind))
    if vs:
      opts.append((5, lambda: self.use(fn, self.pick(vs))))
    if d <= 0:
      opts.append((2, lambda: self.lit(kind)))
      return self.wpick(opts)
    if kind in ALEVEL or kind == 'N' or (is_T(kind) and self.chance(30)):
      ck = self.concrete(kind)
      if ck != kind:
        opts.append((6, lambda: self.kexpr(fn, ck, d)))
    opts.append((2, lambda: self.lit(kind)))
    subs = self._subscripts(fn, kind, 'K')
    if subs:
      opts.append((2, lambda: (lambda vk: '%s[%d]' % (self.use(fn, vk[0]), vk[1]))(self.pick(subs))))
    calls = self._typed_calls(fn, kind)
    if calls:
      opts.append((4, lambda: self.call_src(fn, self.pick(calls), d)))
    K = lambda k: self.kexpr(fn, k, d - 1)
    X = lambda k: self.expr(fn, k, '*', d - 1)
    if kind == 'I':
      opts += [(3, lambda: '(%s %s %s)' % (K('I'), self.pick(['+', '-', '*']), K('I'))),
               (1, lambda: '(%s %s %s)' % (K('I'), self.pick(['%', '//']), self.pick(['2', '3']))),
               (1, lambda: '(-%s)' % K('I')),
               (1, lambda: '(%s + %s)' % (K('B'), K('B'))),
               (1, lambda: 'ext_int(%s)' % X('A')),
               (1, lambda: 'G_I')]
    elif kind == 'F':
      opts += [(3, lambda: '(%s %s %s)' % (K('F'), self.pick(['+', '-', '*']), K('N'))),
               (2, lambda: '(%s %s %s)' % (K('N'), self.pick(['+', '-', '*']), K('F'))),
               (2, lambda: '(%s / %s)' % (K('N'), self.pick(['2', '4', '0.5']))),
               (1, lambda: '(-%s)' % K('F')),
               (1, lambda: 'ext_float(%s)' % X('A')),
               (1, lambda: 'G_F')]
    elif kind == 'B':
      opts += [(5, lambda: self.cmp(fn, d - 1, False)),
               (1, lambda: '(not %s)' % K('A')),
               (1, lambda: 'ext_bool(%s)' % X('A')),
               (1, lambda: 'G_B')]
    elif kind == 'S':
      opts += [(3, lambda: '(%s + %s)' % (K('S'), K('S'))),
               (1, lambda: '(%s * %s)' % (K('S'), self.pick(['0', '1', '2']))),
               (1, lambda: 'ext_str(%s)' % X('A')),
               (1, lambda: 'G_S')]
    elif kind == 'N':
      opts += [(4, lambda: '(%s %s %s)' % (K('N'), self.pick(['+', '-', '*']), K('N'))),
               (1, lambda: '(-%s)' % K('N')),
               (1, lambda: '(+%s)' % K('N'))]
    elif kind == 'L':
      opts += [(3, lambda: '[' + ', '.join(X('A') for _ in range(self.i(1, 3))) + ']'),
               (1, lambda: '(%s + %s)' % (K('L'), K('L'))),
               (1, lambda: 'ext_list(%s)' % X('A')),
               (1, lambda: 'G_L')]
    elif kind == ('O', 2):
      opts += [(3, lambda: 'ext_pair(%s, %s)' % (X('A'), X('A')))]
    elif is_T(kind):
      opts += [(5, lambda: '(' + ', '.join(K(e) for e in kind[1:]) + ')')]
      if kind == ('T', 'I', 'S'):
        opts.append((1, lambda: 'G_T'))
    return self.wpick(opts)

  def cmp(self, fn, d, need_u):
    d = max(0, d)
    first = (lambda k: self.uexpr(fn, k, d, False)) if need_u else (lambda k: self.kexpr(fn, k, d))
    rest = (lambda k: self.expr(fn, k, '*', d)) if need_u else (lambda k: self.kexpr(fn, k, d))
    params = self.readable(fn, lambda v: v.role == 'param' and v.kind in ('N', 'I', 'F') and (v.kn == 'K') != need_u)
    opts = [
        (4, lambda: '(%s %s %s)' % (first('N'), self.pick(['<', '<=', '>', '>=', '==', '!=']), rest('N'))),
        (2, lambda: '(%s %s %s)' % (first('A'), self.pick(['==', '!=']), rest('A'))),
        (1, lambda: '(%s %s %s)' % (first('S'), self.pick(['<', '>=', '==', 'in', 'not in']), rest('S'))),
        (1, lambda: '(%s %s %s %s %s)' % (first('N'), self.pick(['<', '<=']), rest('N'), self.pick(['<', '<=', '!=']), rest('N'))),
        (1, lambda: '(%s in %s)' % (first('A'), rest('L'))),
    ]
    if params:
      opts.append((6, lambda: '(%s %s %s)' % (self.use(fn, self.pick(params)), self.pick(['<', '>', '>=', '==']), self.lit('I'))))
    return self.wpick(opts)

  def uexpr(self, fn, kind, d, now=False):
    opts = []
    vs = self.readable(fn, lambda v: (v.kn == 'U' or (v.kn == 'W' and not now)) and leq(v.kind, kind))
    if vs:
      opts.append((5, lambda: self.use(fn, self.pick(vs))))
    if d <= 0:
      opts.append((2, lambda: 'ext_id(%s)' % self.lit(kind)))
      return self.wpick(opts)
    X = lambda k: self.expr(fn, k, '*', d - 1)
    U = lambda k: self.uexpr(fn, k, d - 1)
    if kind in ALEVEL or kind == 'N':
      ck = self.concrete(kind)
      if ck != kind:
        opts.append((5, lambda: self.uexpr(fn, ck, d, now)))
    opts.append((2, lambda: 'ext_id(%s)' % X(kind)))
    opts.append((2, lambda: '(%s if %s else %s)' % (X(kind), self.cond(fn, d - 1), X(kind))))
    subs = self._subscripts(fn, kind, 'U')
    if subs:
      opts.append((2, lambda: (lambda vk: '%s[%d]' % (self.use(fn, vk[0]), vk[1]))(self.pick(subs))))
    if kind == 'A':
      ls = self.readable(fn, lambda v: v.kind == 'L' and v.kn in ('K', 'U'))
      if ls:
        opts.append((2, lambda: '%s[0]' % self.use(fn, self.pick(ls))))
      os_ = self.readable(fn, lambda v: v.kind == ('O', 2) and v.kn in ('K', 'U'))
      if os_:
        opts.append((2, lambda: '%s[%d]' % (self.use(fn, self.pick(os_)), self.i(0, 1))))
    if kind in ALEVEL:
      opts.append((1, lambda: '(%s or %s)' % (X(kind), X(kind))))
    if kind == 'I':
      opts += [(3, lambda: '(%s %s %s)' % (U('I'), self.pick(['+', '-', '*']), X('I'))),
               (2, lambda: '(%s %s %s)' % (X('I'), self.pick(['+', '-', '*']), U('I'))),
               (1, lambda: '(-%s)' % U('I'))]
    elif kind == 'F':
      opts += [(3, lambda: '(%s %s %s)' % (U('F'), self.pick(['+', '-', '*']), X('N'))),
               (2, lambda: '(%s / %s)' % (U('N'), self.pick(['2', '4', '0.5'])))]
    elif kind == 'B':
      opts += [(4, lambda: self.cmp(fn, d - 1, True)),
               (1, lambda: '(not %s)' % U('A')),
               (2, lambda: '(%s %s %s)' % (X('B'), self.pick(['and', 'or']), X('B')))]
    elif kind == 'S':
      opts += [(3, lambda: '(%s + %s)' % (U('S'), X('S'))), (2, lambda: '(%s + %s)' % (X('S'), U('S')))]
    elif kind == 'N':
      opts += [(3, lambda: '(%s %s %s)' % (U('N'), self.pick(['+', '-', '*']), X('N')))]
    elif kind == 'L':
      opts += [(1, lambda: '(%s + %s)' % (U('L'), X('L')))]
    elif is_T(kind):
      def tup():
        n = len(kind) - 1
        j = self.i(0, n - 1)
        return '(' + ', '.join(self.uexpr(fn, e, d - 1, True) if k == j else self.expr(fn, e, '*', d - 1, True)
                               for k, e in enumerate(kind[1:])) + ')'
      opts.append((4, tup))
      if len(kind) == 3:
        opts.append((1, lambda: 'ext_swap(%s, %s)' % (X(kind[2]), X(kind[1]))))
    return self.wpick(opts)

  def cond(self, fn, d):
    d = max(0, d)
    r = self.i(0, 9)
    if r < 7:
      return self.cmp(fn, d, False)
    if r < 8:
      return self.cmp(fn, d, True)
    if r < 9:
      return self.expr(fn, 'B', '*', d)
    return self.expr(fn, 'A', '*', d)

  # -- statements
  def new_var(self, fn, kind, kn, role='local', prefix=None):
    name = None
    if fn.parent is not None and role == 'local' and self.chance(12):
      # shadow an enclosing variable this function (and its children so far) never referenced
      pending = set(v.name for v in fn.late_nl)
      cands = [n for n in sorted(fn.avail_free) if n not in fn.free_used and n not in fn.nonlocal_names and n not in fn.vars
               and n not in pending and n not in fn.taken]
      if cands:
        name = self.pick(cands)
        self.note('has:shadowing')
    if name is None:
      name = self.fresh(prefix or {'K': 'x', 'U': 'u', 'W': 'w'}[kn])
    v = Var(name, kind, kn, role, fn)
    fn.vars[name] = v
    self.kn['%s:%s' % (self.qual(fn), name)] = kn
    return v

  @staticmethod
  def qual(fn):
    q = fn.name
    while fn.parent is not None:
      fn = fn.parent
      q = fn.name + '.' + q
    return q

  def assignable(self, fn, pred):
    out = [v for n, v in sorted(fn.vars.items()) if v.role in ('local', 'param') and n not in fn.hidden and pred(v)]
    out += [v for n, v in sorted(fn.nonlocal_names.items()) if n not in fn.hidden and pred(v)]
    return out

  def rhs_for(self, fn, v, d):
    """Right-hand side for a store to existing variable v respecting the knownness discipline."""
    if v.kn == 'K':
      if self.want('no_unknown_store_to_typed_name', 20):
        return self.uexpr(fn, v.kind, d, True)
      return self.kexpr(fn, v.kind, d)
    if v.kn == 'U':
      if self.want('no_unknown_store_to_typed_name', 15):
        return self.kexpr(fn, v.kind, d)
      return self.uexpr(fn, v.kind, d, True)
    return None

  def stmt_assign_new(self, fn, d):
    kn = 'K' if self.chance(72) else 'U'
    kind = self.concrete(self.pick(['A', 'A', 'N', 'N', 'I', 'S', ('T', 'N', 'A1'), ('T', 'A1', 'A1'), 'L', ('O', 2), 'A1']))
    self.begin_stmt()
    e = self.expr(fn, kind, kn, 2, True)
    v = self.new_var(fn, self.generalize(kind), kn)
    if self.chance(12):
      v2 = self.new_var(fn, self.generalize(kind), kn)
      fn.bound.update([v.name, v2.name])
      self.note('has:chained_assign')
      self.stores([v.name, v2.name])
      return ['%s = %s = %s' % (v.name, v2.name, e)]
    fn.bound.add(v.name)
    self.stores([v.name])
    return ['%s = %s' % (v.name, e)]

  def stmt_assign_existing(self, fn, d, only=None):
    cands = only if only is not None else self.assignable(fn, lambda v: v.kn in ('K', 'U'))
    if not cands:
      return self.stmt_assign_new(fn, d)
    v = self.pick(cands)
    self.begin_stmt(fn, [v.name])
    e = self.rhs_for(fn, v, 2)
    self.stores([v.name])
    self.forbid = set()
    fn.bound.add(v.name) if v.name in fn.vars else None
    self.note('stmt:reassign')
    return ['%s = %s' % (v.name, e)]

  def pattern(self, fn, kind, kn, used, depth=0):
    """Target pattern for a value of tuple kind `kind`; kn = knownness its elements get."""
    parts = []
    for e in kind[1:]:
      if is_T(e) and depth == 0 and self.chance(60):
        parts.append(self.pattern(fn, e, kn, used, 1))
        self.note('has:nested_pattern')
        continue
      cands = self.assignable(fn, lambda v: v.kn == kn and leq(e, v.kind) and v.name not in used and self.storable(v))
      if cands and self.chance(45):
        v = self.pick(cands)
      else:
        v = self.new_var(fn, self.generalize(e), kn)
      used.add(v.name)
      parts.append(v.name)
    if self.chance(20):
      return '[' + ', '.join(parts) + ']'
    return '(' + ', '.join(parts) + ')' if depth or self.chance(30) else ', '.join(parts)

  def stmt_unpack(self, fn, d):
    r = self.i(0, 9)
    used = set()
    self.begin_stmt()
    if r < 6:
      kind = self.pick([('T', 'N', 'S'), ('T', 'A1', 'A1'), ('T', 'N', 'N', 'S'), ('T', ('T', 'I', 'S'), 'F'),
                        ('T', 'A0', ('T', 'N', 'A0')), ('T', 'I', 'F'), ('T', 'A0', 'A0')])
      ekn = 'K' if self.chance(70) else 'U'
      e = self.expr(fn, kind, ekn, 2, True)
      whole = (kind, ekn)
      kn = ekn
      if kn == 'K' and self.want('no_unknown_store_to_typed_name', 8):
        e, whole = self.uexpr(fn, kind, 2, True), (kind, 'U')
    else:
      # a value the inference types only as the class tuple / list: its elements are unknown
      kind = ('T', 'A', 'A')
      if r < 8:
        e, whole = self.kexpr(fn, ('O', 2), 2), (('O', 2), 'K')
      else:
        e, whole = '[%s, %s]' % (self.expr(fn, 'A', '*', 1), self.expr(fn, 'A', '*', 1)), ('L', 'K')
      kn = 'K' if self.want('no_unknown_store_to_typed_name', 15) else 'U'
      self.note('has:unpack_opaque')
    if self.want('no_starred_target', 8):
      parts = []
      for e_ in kind[1:2]:
        v = self.new_var(fn, self.generalize(e_), kn)
        used.add(v.name)
        parts.append(v.name)
      v = self.new_var(fn, 'L', kn)
      used.add(v.name)
      parts.append('*' + v.name)
      pat = ', '.join(parts)
    else:
      pat = self.pattern(fn, kind, kn, used)
    names = sorted(used)
    self.note('stmt:unpack')
    line = '%s = %s' % (pat, e)
    if self.chance(30):
      # chained with a plain name that receives the whole value
      t = self.new_var(fn, self.generalize(whole[0]) if whole[0] != 'L' else 'L', whole[1])
      names.append(t.name)
      if self.chance(50):
        self.note('has:chain_pattern_first')
        line = '%s = %s = %s' % (pat, t.name, e)
      else:
        self.note('has:chain_name_first')
        line = '%s = %s = %s' % (t.name, pat, e)
    fn.bound.update(n for n in names if n in fn.vars)
    self.stores(names)
    return [line]

  def stmt_if(self, fn, depth, in_loop):
    self.note('stmt:if')
    saved = set(fn.bound)
    lines, branches = [], []
    nb = 1 + (1 if self.chance(20) else 0)
    for k in range(nb):
      fn.bound = set(saved)
      c = self.cond(fn, 2)
      fn.blocks.append('if')
      body, t = self.block(fn, depth + 1, self.i(1, 3), in_loop)
      fn.blocks.pop()
      lines += ['%s %s:' % ('if' if k == 0 else 'elif', c)] + ['  ' + l for l in body]
      branches.append((fn.bound, t))
    if self.chance(55):
      fn.bound = set(saved)
      fn.blocks.append('else')
      body, t = self.block(fn, depth + 1, self.i(1, 3), in_loop)
      fn.blocks.pop()
      lines += ['else:'] + ['  ' + l for l in body]
      branches.append((fn.bound, t))
    else:
      branches.append((saved, False))
    live = [b for b, t in branches if not t]
    if not live:
      fn.bound = saved
      return lines, True
    b = set(live[0])
    for o in live[1:]:
      b &= o
    fn.bound = b
    return lines, False

  def stmt_while(self, fn, depth, in_loop=False):
    self.note('stmt:while')
    ctr = Var(self.fresh('i'), 'I', 'K', 'counter', fn)
    fn.vars[ctr.name] = ctr
    self.kn['%s:%s' % (self.qual(fn), ctr.name)] = 'K'
    fn.bound.add(ctr.name)
    lines = ['%s = 0' % ctr.name]
    extra = self.cond(fn, 1) if self.chance(20) else None
    saved = set(fn.bound)
    body, loop = self.loop_body(fn, depth, 'while')
    fn.bound = set(saved)
    # a call placed at the start of the body for a function defined further down runs from the second iteration on
    test = '%s < %d' % (ctr.name, self.i(2, 3) if loop['early'] else self.i(0, 3))
    if extra is not None and not loop['early']:
      test = '%s and %s' % (test, extra)
    lines += ['while %s:' % test, '  %s = %s + 1' % (ctr.name, ctr.name)] + ['  ' + l for l in body]
    lines += self.loop_else(fn, depth, 'while', in_loop, saved)
    fn.bound = saved
    return lines + self.reads_after_loop(fn, loop), False

  def loop_body(self, fn, depth, kind):
    """Body of a loop. A local function defined in it may also be called at the start of the body, guarded by its flag: from the
    second iteration on that call site is reached by the definition only through the back edge (the def does not dominate it).
    A variable that a jump path of this loop re-types (stmt_jump) gets a strong update at the end of the body, so that the type
    it has on the jump path travels along the jump edge only."""
    loop = {'bound': set(fn.bound), 'early': [], 'nl': set(fn.nonlocal_names), 'jumped': [], 'kind': kind}
    fn.loops.append(loop)
    fn.blocks.append(kind)
    body, term = self.block(fn, depth + 1, self.i(1, 3), True)
    if loop['jumped'] and not term:
      fn.in_loop = True
      done = set()
      for v, ck in loop['jumped']:
        if v.name in done or v.name in fn.hidden:
          continue
        done.add(v.name)
        others = [k for k in self.exact_subkinds(v.kind) if k != ck]
        body += self.assign_concrete(fn, v, self.pick(others))
        self.note('has:strong_update_after_jump_path_retype')
    fn.blocks.pop()
    fn.loops.pop()
    return loop['early'] + body, loop

  def loop_else(self, fn, depth, kind, in_loop, bound):
    """Optional `else:` clause of a loop. It is not part of the loop: a break / continue written in it belongs to the enclosing
    loop (in_loop is the enclosing statement's), and names bound by the loop body are not definitely bound in it."""
    if not self.chance(50 if in_loop else 35):
      return []
    self.note('has:%s_else' % kind)
    if fn.loops:
      self.note('has:loop_else_inside_loop')
    fn.bound = set(bound)
    fn.in_loop = in_loop
    fn.blocks.append(kind + '_else')
    body, _ = self.block(fn, depth + 1, self.i(1, 2), in_loop)
    fn.blocks.pop()
    return ['else:'] + ['  ' + l for l in body]

  def reads_after_loop(self, fn, loop):
    """Reads, after the loop statement, of the variables a jump path of the loop re-typed."""
    lines, done = [], set()
    for v, _ in loop['jumped']:
      if v.name in done or v.name in fn.hidden or v.name not in fn.bound or not self.chance(75):
        continue
      done.add(v.name)
      self.begin_stmt()
      t = self.new_var(fn, self.generalize(v.kind), 'K')
      fn.bound.add(t.name)
      self.note('has:read_after_loop_of_jump_path_retyped')
      lines.append('%s = %s' % (t.name, self.use(fn, v)))
    return lines

  @staticmethod
  def exact_subkinds(kind):
    if kind == 'N':
      return ['I', 'F', 'B']
    if kind in ALEVEL:
      return ['I', 'F', 'B', 'S']
    return []

  def assign_concrete(self, fn, v, ck):
    """`v = <typed expression of exact kind ck>` for an existing typed variable v (ck <= v.kind)."""
    self.begin_stmt(fn, [v.name])
    e = self.kexpr(fn, ck, 1)
    self.stores([v.name])
    self.forbid = set()
    if v.name in fn.vars:
      fn.bound.add(v.name)
    self.note('stmt:reassign')
    return ['%s = %s' % (v.name, e)]

  def jump_ctx(self, fn):
    """'body' / 'else': is the statement under construction in the body of its innermost loop, or in the else clause of a loop
    (then a jump leaves / continues the loop enclosing that one)?"""
    for b in reversed(fn.blocks):
      if b in ('for', 'while'):
        return 'body'
      if b in ('for_else', 'while_else'):
        return 'else'
    return None

  def stmt_jump(self, fn):
    """break / continue (terminates the block), usually right after a store that gives a typed variable bound before the
    target loop a type of its own on this path."""
    loop = fn.loops[-1]
    kw = self.pick(['break', 'break', 'continue'])
    where = self.jump_ctx(fn)
    self.note('has:%s_in_loop_%s' % (kw, where))
    if where == 'else':
      self.note('has:jump_in_else_of_inner_%s_targets_enclosing_%s' % (fn.blocks[[k for k, b in enumerate(fn.blocks)
                                                                                    if b.endswith('_else')][-1]][:-5], loop['kind']))
    lines = []
    cands = [v for v in self.assignable(fn, lambda v: v.kn == 'K' and v.name in fn.vars and v.name in loop['bound']
                                         and self.exact_subkinds(v.kind))]
    if cands and self.chance(75):
      v = self.pick(cands)
      ck = self.pick(self.exact_subkinds(v.kind))
      lines += self.assign_concrete(fn, v, ck)
      loop['jumped'].append((v, ck))
      self.note('has:retype_before_%s' % kw)
      if where == 'else':
        self.note('has:retype_before_jump_in_loop_else')
    return lines + [kw], True

  def stmt_for(self, fn, depth, in_loop=False):
    self.note('stmt:for')
    self.begin_stmt()
    r = self.i(0, 9)
    pair = False
    if r < 3:
      it, ek = 'range(%d)' if self.chance(70) else ('range(%s %% 3)' % self.kexpr(fn, 'I', 1)), 'I'
    elif r < 6:
      ek = self.pick(['N', 'S', 'A', 'I'])
      elts = ', '.join(self.expr(fn, ek, '*', 1) for _ in range(self.i(1, 3)))
      it = ('[%s]' % elts) if self.chance(50) else ('(%s,)' % elts)
    elif r < 7:
      ls = self.readable(fn, lambda v: v.kind == 'L' and v.kn in ('K', 'U'))
      if ls:
        it, ek = self.use(fn, self.pick(ls)), 'A'
      else:
        it, ek = '[%s]' % self.expr(fn, 'A', '*', 1), 'A'
    elif r < 8:
      it, ek = self.expr(fn, 'S', '*', 1), 'S'
    else:
      pair = True
      ek = ('T', self.pick(['N', 'I', 'A1']), self.pick(['S', 'N']))
      it = '[%s]' % ', '.join(self.expr(fn, ek, '*', 1) for _ in range(self.i(1, 2)))
    typed = self.want('no_for_target_typed', 35)
    kn = 'K' if typed else 'U'
    was_bound = set(fn.bound)
    if pair:
      used = set()
      tgt = self.pattern(fn, ek, kn, used, 1)[1:-1]
      names = sorted(used)
    else:
      cands = self.assignable(fn, lambda v: v.kn == kn and leq(ek, v.kind))
      if cands and self.chance(50):
        v = self.pick(cands)
      else:
        v = self.new_var(fn, self.generalize(ek), kn)
      tgt, names = v.name, [v.name]
    saved = set(fn.bound)
    fn.bound.update(n for n in names if n in fn.vars)
    self.stores(names)
    body, loop = self.loop_body(fn, depth, 'for')
    fn.bound = set(saved)
    if it == 'range(%d)':
      it = it % (self.i(2, 3) if loop['early'] else self.i(0, 3))
    lines = ['for %s in %s:' % (tgt, it)] + ['  ' + l for l in body]
    lines += self.loop_else(fn, depth, 'for', in_loop, saved)
    fn.bound = saved
    return lines + self.reads_after_loop(fn, loop), False

  def stmt_funcdef(self, fn, redef=None):
    """def of a new local function, or (redef = FnInfo) another definition of an existing name with the same signature."""
    self.nfn += 1
    self.note('stmt:def')
    g = Fn(redef.name if redef is not None else 'g%d' % self.nfn, fn, fn.level + 1)
    g.base = 1
    if g.level >= 3:
      self.note('has:function_nested_3_levels')
    if redef is not None:
      g.is_redef = True
      for sc in redef.scopes:
        g.taken |= set(sc.free_used) | set(sc.nonlocal_names) | set(sc.vars)
      self.note('has:redefinition')
    hide_nl = bool(fn.nonlocal_names) and not self.want('no_child_capture_of_nonlocal_bound', 100)
    for v in self.readable(fn):
      if hide_nl and v.name in fn.nonlocal_names:
        continue
      if redef is not None and v.name in redef.call_targets:
        # `x = g()` earlier in a loop body would run this definition from the second iteration on
        if 'no_store_to_var_captured_by_callee' in self.excl:
          self.note('excluded:no_store_to_var_captured_by_callee')
          continue
        self.note('shape:no_store_to_var_captured_by_callee')
      g.avail_free[v.name] = v
    sibs = [f for f in self.callable_fns(fn) if f is not redef]   # (a redefinition calling its own name would recurse)
    g.no_sib = fn.no_sib or (redef is not None and redef.sib_called)
    if sibs and self.want('no_sibling_local_calls', 40):
      g.avail_funcs = sibs
    elif sibs and not g.no_sib and self.chance(85 if fn.avail_funcs and fn.tainted else 45):
      # Narrowed exclusion (round 3). F32/F32b are about the facts *inside* a function that an earlier / later sibling calls
      # (it is analysed before the sibling's call sites are seen) and about siblings defined before it. Kept in the search:
      # g - and the functions nested in g, to any depth - may call a function defined BEFORE g in an enclosing function, and
      # then only the closure-types clause is compared for the callee (its CLOSURE_TYPES annotation is complete once the whole
      # tree was analysed; facts in its body are not compared: opts['closure_only']). The callee makes no sibling calls itself
      # (its own stale state would be recorded on its callees), is not redefined afterwards (a definition that does not reach
      # g's def site is F32b), re-types no nonlocal variable, and g's subtree does not shadow a variable the callee captures
      # (the types recorded at the call site are looked up by name).
      ok = [f for f in sibs if not f.retypes and not any(sc.tainted for sc in f.scopes)]
      if ok:
        g.avail_funcs = ok
        g.tainted = True
        for f in ok:
          g.taken |= self.captured(f)
        self.note('has:may_call_earlier_sibling')
    params, psrc = [], []
    if redef is not None:
      for pname, kind, typed in redef.params:
        g.vars[pname] = Var(pname, kind, 'K' if typed else 'U', 'param', g)
        params.append((pname, kind, typed))
        psrc.append(('%s: %s' % (pname, CLSNAME[kind])) if typed else pname)
        g.bound.add(pname)
    else:
      for _ in range(self.i(0, 2)):
        pname = self.fresh('p')
        if self.chance(60):
          kind = self.pick(['I', 'F', 'B', 'S', 'L', ('O', 2)])
          g.vars[pname] = Var(pname, kind, 'K', 'param', g)
          self.kn['%s:%s' % (self.qual(g), pname)] = 'K'
          params.append((pname, kind, True))
          psrc.append('%s: %s' % (pname, CLSNAME[kind]))
        else:
          kind = self.pick(['N', 'A', 'S', 'I'])
          g.vars[pname] = Var(pname, kind, 'U', 'param', g)
          self.kn['%s:%s' % (self.qual(g), pname)] = 'U'
          params.append((pname, kind, False))
          psrc.append(pname)
        g.bound.add(pname)
    nl, retyped = [], set()
    for v in [g.avail_free[n] for n in sorted(g.avail_free)]:
      if len(nl) >= 2 or v.role not in ('local', 'param') or v.kn == 'W' or v.name in g.taken or not self.chance(30):
        continue
      safe = is_exact(v.kind) or (v.kn == 'U' and 'no_unknown_store_to_typed_name' in self.excl)
      if not safe:
        if self.want('no_nonlocal_retype', 60):
          pass
        elif v.kn == 'K' and v.owner is fn and redef is None and self.chance(60):
          # F22 is about what the *parent* believes after the call. Narrower shape kept in the search: g may re-type a variable
          # of its defining function fn if fn never uses that variable again once g was called (g is called by call
          # statements outside loops only; call_src then hides the variable from fn, callable_fns/can_call stop every
          # function capturing it). What g itself and its children infer about the variable is checked as usual.
          retyped.add(v.name)
        else:
          continue
      nl.append(v)
    late = [v for v in nl if self.chance(45)]
    for v in nl:
      if v in late:
        # declared later in the body, possibly inside an if/while/for block: not usable in g before that point
        g.late_nl.append(v)
        g.avail_free.pop(v.name, None)
      else:
        g.nonlocal_names[v.name] = v
      f = fn
      while f is not None and f is not v.owner:   # the name passes through the enclosing functions
        f.free_used.add(v.name)
        f = f.parent
    if nl:
      self.note('has:nonlocal')
    if retyped:
      self.note('has:nonlocal_retype_unobserved_by_parent')
    if redef is not None:
      g.ret_kind, g.ret_anno = redef.ret_kind, redef.ret_anno
    elif self.chance(60):
      g.ret_kind, g.ret_anno = self.pick(['I', 'F', 'B', 'S', 'L', ('O', 2)]), True
    else:
      g.ret_kind, g.ret_anno = self.pick(['N', 'A', ('T', 'N', 'S'), 'A']), False
    head = 'def %s(%s)%s:' % (g.name, ', '.join(psrc), (' -> ' + CLSNAME[g.ret_kind]) if g.ret_anno else '')
    body = []
    first = [v for v in nl if v not in late]
    if first:
      body.append('nonlocal ' + ', '.join(v.name for v in first))
    pre = []
    for v in first:
      if self.chance(70):
        pre += self.stmt_assign_existing(g, 2, only=[v])
    lines, term = self.block(g, 1, self.i(1, 4), False, top=True)
    if pre and self.chance(50):
      lines = lines + pre if not term else pre + lines
    else:
      lines = pre + lines
    while g.late_nl:
      forced = self.forced_late_nonlocal(g)
      lines = lines + forced if not term else forced + lines
    if not term:
      # a use of the variable after the block that holds its declaration (also reached on the paths that skip the block)
      for v in late:
        if v.kn in ('K', 'U') and self.chance(65):
          self.begin_stmt()
          t = self.new_var(g, self.generalize(v.kind), v.kn)
          g.bound.add(t.name)
          self.note('has:read_after_late_nonlocal')
          lines = lines + ['%s = %s' % (t.name, self.use(g, v))]
    body += [l for l in lines if l != 'pass' or len(lines) == 1]
    if not term:
      body += self.finish(g)
    if redef is None:
      info = FnInfo(g.name, params, g.ret_kind, g.ret_anno, g)
      info.retypes = retyped
      fn.funcs[g.name] = info
    else:
      redef.scopes.append(g)
    if g.tainted:
      f = fn
      while f is not None and f.parent is not None:
        f.tainted = True
        f = f.parent
    fn.bound.add(g.name)
    lines = [head] + ['  ' + l for l in body]
    if redef is None and g.sib_calls and self.chance(60):
      # the earlier sibling is called directly, a variable it captures gets another type, then g (which calls it, maybe from
      # a function nested in g) is called: the second type reaches the callee only through the call made below g
      callees = [f for f in g.avail_funcs if f.sib_called and fn.funcs.get(f.name) is f and f.name in fn.bound and self.can_call(fn, f)]
      if callees and self.can_call(fn, info):
        callee = self.pick(callees)
        saved_in = fn.in_loop
        lines += self.stmt_call(fn, 1, callee)[0]
        post = self.retype_captured(fn, callee)
        if post and self.can_call(fn, info):
          self.note('has:direct_call_then_retype_then_call_through_later_sibling')
          lines += post + self.stmt_call(fn, 1, info)[0]
        fn.in_loop = saved_in
    return lines, False

  def stmt_late_nonlocal(self, fn):
    """The nonlocal declaration of pending names, here (wherever `here` is: function body or a nested block), usually followed
    by a store. The declaration applies to the whole function whatever block holds it."""
    n = 2 if len(fn.late_nl) > 1 and self.chance(30) else 1
    vs = [fn.late_nl.pop(self.i(0, len(fn.late_nl) - 1)) for _ in range(n)]
    where = fn.blocks[-1] if fn.blocks else 'body'
    self.note('has:late_nonlocal')
    self.note('has:late_nonlocal_in_' + where)
    info_retyped = [v for v in vs if not is_exact(v.kind) and v.kn == 'K']
    if info_retyped:
      self.note('has:late_nonlocal_of_retyped_in_' + where)
    lines = ['nonlocal ' + ', '.join(v.name for v in vs)]
    for v in vs:
      fn.nonlocal_names[v.name] = v
    for v in vs:
      if self.chance(85):
        lines += self.stmt_assign_existing(fn, 2, only=[v])
    return lines

  def forced_late_nonlocal(self, fn):
    """A compound statement whose body holds the still pending nonlocal declaration(s)."""
    fn.in_loop = False
    r = self.i(0, 9)
    saved = set(fn.bound)
    if r < 5:
      head, kind = ['if %s:' % self.cond(fn, 1)], 'if'
    elif r < 7:
      ctr = self.fresh('i')
      head, kind = ['%s = 0' % ctr, 'while %s < %d:' % (ctr, self.i(0, 2)), '  %s = %s + 1' % (ctr, ctr)], 'while'
    elif r < 9:
      head, kind = ['for %s in range(%d):' % (self.fresh('u'), self.i(0, 2))], 'for'
    else:
      head, kind = ['if %s:' % self.cond(fn, 1), '  pass', 'else:'], 'else'
    fn.blocks.append(kind)
    inner = self.stmt_late_nonlocal(fn)
    fn.blocks.pop()
    fn.bound = saved
    return head + ['  ' + l for l in inner]

  def retype_captured(self, fn, info):
    """A store to a variable of fn that info reads, with a value of possibly another type ([] if there is none)."""
    mine = set(v.name for v in self.assignable(fn, lambda v: v.kn == 'K' and not is_exact(v.kind)))
    names = sorted(set(n for sc in info.scopes for n in sc.free_used if n in mine))
    if not names:
      return []
    name = self.pick(names)
    v = fn.vars.get(name) or fn.nonlocal_names.get(name)
    if v is None:
      return []
    return self.stmt_assign_existing(fn, 2, only=[v])

  def retype_around(self, fn, info):
    """(store before, store after) to a variable of fn that info reads: two different exact types ([] , [] if there is none)."""
    names = set(n for sc in info.scopes for n in sc.free_used)
    cands = self.assignable(fn, lambda v: v.kn == 'K' and v.name in fn.vars and v.name in names and self.exact_subkinds(v.kind))
    if not cands:
      return [], self.retype_captured(fn, info)
    v = self.pick(cands)
    ks = self.exact_subkinds(v.kind)
    k1 = self.pick(ks)
    k2 = self.pick([k for k in ks if k != k1])
    self.note('has:captured_var_retyped_before_and_after_call_in_loop_body')
    return self.assign_concrete(fn, v, k1), self.assign_concrete(fn, v, k2)

  def guarded_call(self, fn, info):
    """`if flag: g(...)` for a local function defined in a nested block that is over (its def does not dominate this call)."""
    if not self.can_call(fn, info):
      return []
    saved = set(fn.bound)
    fn.blocks.append('if')
    inner = self.stmt_call(fn, 1, info)[0]
    fn.blocks.pop()
    fn.bound = saved
    self.note('has:guarded_call_def_not_dominating')
    return ['if %s:' % fn.guards[info.name]] + ['  ' + l for l in inner]

  def early_call(self, fn, info, loop):
    """A call at the start of an enclosing loop body of a function (re)defined further down in that body: from the second
    iteration on it runs the definition made by the previous iteration."""
    saved, saved_in = fn.bound, fn.in_loop
    fn.bound, fn.in_loop = set(loop['bound']), True
    # names whose nonlocal declaration was placed further down in the body cannot be used textually before it
    undeclared = (set(fn.nonlocal_names) - loop['nl']) - fn.hidden
    fn.hidden |= undeclared
    lines = []
    if self.can_call(fn, info):
      if info.name in fn.bound:
        lines = self.stmt_call(fn, 1, info)[0]
        self.note('has:call_before_redefinition_in_loop_body')
      elif info.name in fn.guards:
        if fn.level <= 1 and self.chance(65):
          lines = self.wrapped_early_call(fn, info)
        else:
          lines = ['if %s:' % fn.guards[info.name]] + ['  ' + l for l in self.stmt_call(fn, 1, info)[0]]
        self.note('has:call_before_def_in_loop_body')
    fn.bound, fn.in_loop = saved, saved_in
    fn.hidden -= undeclared
    loop['early'] += lines

  def wrapped_early_call(self, fn, info):
    """The call, at the start of a loop body, of a function defined further down in that body is made from a function nested
    1-3 levels below this one: `def h(): [def h2(): [def h3(): ...]] return g(..)`, defined right there and called behind g's
    flag. The definition of g reaches the wrapper's own def site through the back edge only, and the calling statement is 2-4
    function levels below the scope that defines g: the definitions a function closes over have to be passed down through
    every level, and the types the captured variables have at that call must arrive in the closure types of g (the wrapper is
    textually before every definition of g, so it is analysed first: not the sibling order of F32; it does not exist before
    the loop, so g's definition does reach it: not F32b). The wrappers have no parameters or locals; the arguments of the call
    read variables of the enclosing functions 2-4 levels up and call no local function."""
    levels = self.pick([1, 2, 2, 3, 3] if fn.level == 0 else [1, 2, 2])
    self.nocall = True
    try:
      self.begin_stmt()
      call = self.call_src(fn, info, 1)
    finally:
      self.nocall = False
    names = [self.fresh('h') for _ in range(levels)]
    form = self.i(0, 2)
    inner = ['return ' + call] if form == 0 else [call] if form == 1 else [call, 'return %s' % self.lit('A')]
    for k in range(levels - 1, -1, -1):
      inner = ['def %s():' % names[k]] + ['  ' + l for l in inner]
      if k > 0:
        inner.append(('return %s()' if self.chance(60) else '%s()') % names[k])
    self.note('has:call_before_def_in_loop_body_from_function_nested_%d_below' % levels)
    if levels >= 2:
      self.note('has:local_call_from_>=2_function_levels_below_def')
    return inner + ['if %s:' % fn.guards[info.name], '  %s()' % names[0]]

  def stmt_funcdef_in_block(self, fn, redef=None):
    """A local function defined inside a branch / loop body, usually called right there. Its definition does not dominate
    what follows the block (nor, in a loop, the start of the body): such call sites are guarded by a flag set after the def."""
    self.note('has:def_in_nested_block')
    lines, _ = self.stmt_funcdef(fn, redef)
    info = redef if redef is not None else fn.funcs[lines[0].split('(')[0][4:]]
    if redef is None:
      flag = self.fresh('fl')
      fn.guards[info.name] = flag
      fn.hoist.append('%s = False' % flag)
      lines = lines + ['%s = True' % flag]
    called = False
    early = bool(fn.loops) and self.chance(75)
    if self.chance(85 if early else 75) and self.can_call(fn, info):
      lines = lines + self.stmt_call(fn, 1, info)[0]
      called = True
    if fn.loops:
      if called and self.chance(75 if early else 40):
        # a captured variable gets one exact type before the def / the call in the body and another one after it: from the
        # second iteration on, the call at the start of the body is the only one that runs with the second type
        pre, post = self.retype_around(fn, info)
        lines = pre + lines + post
      elif self.chance(60):
        lines = lines + self.retype_captured(fn, info)
      if early:
        self.early_call(fn, info, self.pick(fn.loops))
    return lines, False

  def compound(self, fn, thunk, in_loop):
    """A compound statement; a function defined in one of its blocks may be called after it, behind its flag."""
    before = set(fn.guards)
    lines, term = thunk()
    fn.in_loop = in_loop
    new = [n for n in sorted(fn.guards) if n not in before]
    if new and not term and self.chance(60):
      info = fn.funcs[self.pick(new)]
      if self.chance(60):
        lines = lines + self.retype_captured(fn, info)
      lines = lines + self.guarded_call(fn, info)
    return lines, term

  def finish(self, fn):
    """Pending calls of never-called local functions, then the final return."""
    lines = []
    fn.in_loop = False
    for n in sorted(fn.funcs, key=lambda n: (bool(fn.funcs[n].retypes), n)):
      info = fn.funcs[n]
      if info.ncalls:
        continue
      if not self.can_call(fn, info):
        self.note('has:local_function_never_called')
      elif n in fn.bound:
        lines += self.stmt_call(fn, 1, info)[0]
      elif n in fn.guards:
        lines += self.guarded_call(fn, info)
    if fn.tainted and fn.avail_funcs and not fn.sib_calls and self.chance(70):
      cands = [f for f in fn.avail_funcs if self.can_call(fn, f)]
      if cands:
        lines += self.stmt_call(fn, 1, self.pick(cands))[0]
    lines.append('return %s' % self.expr(fn, fn.ret_kind, '*', 2))
    return lines

  def stmt_call(self, fn, d, info=None):
    self.begin_stmt()
    if info is None:
      info = self.pick(self.callable_fns(fn, retypers=True))
    call = self.call_src(fn, info, 2)
    r = self.i(0, 9)
    if r < 5:
      return [call], False
    if info.ret_anno:
      cands = self.assignable(fn, lambda v: v.kn == 'K' and leq(info.ret_kind, v.kind) and self.storable(v))
      if cands and self.chance(50):
        v = self.pick(cands)
      else:
        v = self.new_var(fn, self.generalize(info.ret_kind), 'K')
    else:
      # an unannotated function of this scope is a Callable[..., Any]: its result is typed Any ('W'); called as a captured
      # name (earlier sibling) the call goes to the resolver, which cannot know the result of a Callable[..., Any] ('U')
      kn = 'W' if info.name in fn.funcs else 'U'
      cands = self.assignable(fn, lambda v: v.kn == kn and leq(info.ret_kind, v.kind) and self.storable(v))
      if cands and self.chance(50):
        v = self.pick(cands)
      else:
        v = self.new_var(fn, info.ret_kind, kn)
      self.note('has:any_typed_result' if kn == 'W' else 'has:unknown_result_of_unannotated_sibling')
    if v.name in fn.vars:
      fn.bound.add(v.name)
    self.stores([v.name])
    return ['%s = %s' % (v.name, call)], False

  def stmt_retype_call(self, fn, d):
    cands = []
    mine = set(v.name for v in self.assignable(fn, lambda v: v.kn == 'K' and not is_exact(v.kind)))
    for n in sorted(fn.funcs):
      info = fn.funcs[n]
      if n not in fn.bound or not self.can_call(fn, info):
        continue
      for name in sorted(set(x for sc in info.scopes for x in sc.free_used)):
        if name in mine:
          v = fn.vars.get(name) or fn.nonlocal_names.get(name)
          if v is not None:
            cands.append((info, v))
    if not cands:
      return self.stmt_assign_existing(fn, d), False
    info, v = self.pick(cands)
    self.note('has:retype_captured_then_call')
    lines = self.stmt_assign_existing(fn, d, only=[v])
    return lines + self.stmt_call(fn, d, info)[0], False

  def stmt_augassign(self, fn, d):
    typed_ok = self.want('no_augassign_typed', 40)
    cands = self.assignable(fn, lambda v: v.kind in ('I', 'N', 'F', 'S') and (v.name in fn.bound or v.name in fn.nonlocal_names)
                            and (v.kn == 'U' or (typed_ok and v.kn == 'K')))
    if typed_ok:
      k = [v for v in cands if v.kn == 'K']
      cands = k or cands
    if not cands:
      return self.stmt_assign_new(fn, d)
    v = self.pick(cands)
    self.begin_stmt(fn, [v.name])
    self.note('stmt:augassign')
    if v.kind == 'S':
      e = self.expr(fn, v.kind, '*', 1)
      self.stores([v.name])
      return ['%s += %s' % (v.name, e)]
    rk = 'I' if v.kind == 'I' else 'N'
    op, e = self.pick(['+', '-', '*']), self.expr(fn, rk, '*', 1)
    self.stores([v.name])
    return ['%s %s= %s' % (v.name, op, e)]

  def stmt_substore(self, fn, d):
    ls = self.readable(fn, lambda v: v.kind == 'L' and v.kn in ('K', 'U'))
    if not ls:
      return self.stmt_assign_new(fn, d)
    self.note('stmt:substore')
    self.begin_stmt()
    return ['%s[0] = %s' % (self.use(fn, self.pick(ls)), self.expr(fn, 'A', '*', 1))]

  def stmt(self, fn, depth, in_loop, top):
    nest_ok = depth < self.max_depth
    self.forbid, self.called = set(), []
    fn.in_loop = in_loop
    opts = [(5, lambda: (self.stmt_assign_new(fn, 2), False)),
            (6, lambda: (self.stmt_assign_existing(fn, 2), False)),
            (3, lambda: (self.stmt_unpack(fn, 2), False)),
            (1, lambda: (self.stmt_augassign(fn, 2), False)),
            (1, lambda: (self.stmt_substore(fn, 2), False))]
    if nest_ok:
      opts += [(4, lambda: self.compound(fn, lambda: self.stmt_if(fn, depth, in_loop), in_loop)),
               (2, lambda: self.compound(fn, lambda: self.stmt_while(fn, depth, in_loop), in_loop)),
               (2, lambda: self.compound(fn, lambda: self.stmt_for(fn, depth, in_loop), in_loop))]
    if fn.level < self.max_level and self.nfn < self.max_fns:
      redefs = [fn.funcs[n] for n in sorted(fn.funcs) if n in fn.bound and not fn.funcs[n].retypes and not fn.funcs[n].sib_called]
      if top:
        opts.append((4 if fn.level == 0 else 6 if fn.tainted and not fn.sib_calls else 2, lambda: self.stmt_funcdef(fn)))
        if redefs:
          opts.append((2, lambda: self.stmt_funcdef(fn, self.pick(redefs))))
      elif 1 <= depth - fn.base <= 2:
        opts.append((4 if fn.loops else 2, lambda: self.stmt_funcdef_in_block(fn)))
        if redefs:
          opts.append((4, lambda: self.stmt_funcdef_in_block(fn, self.pick(redefs))))
    if fn.late_nl:
      opts.append((6 if depth > fn.base else 2, lambda: (self.stmt_late_nonlocal(fn), False)))
    waiting = [fn.funcs[n] for n in sorted(fn.guards) if n not in fn.bound and self.can_call(fn, fn.funcs[n])]
    if waiting:
      opts.append((2, lambda: (self.guarded_call(fn, self.pick(waiting)), False)))
    if self.callable_fns(fn, retypers=True):
      opts.append((4, lambda: self.stmt_call(fn, 2)))
    if fn.funcs:
      opts.append((4, lambda: self.stmt_retype_call(fn, 2)))
    if depth > 0 and not top:
      in_else = self.jump_ctx(fn) == 'else'

      def ret():
        if in_else:
          self.note('has:return_in_loop_else')
        return ['return %s' % self.expr(fn, fn.ret_kind, '*', 1)], True
      opts.append((1, ret))
      if in_loop:
        # in the else clause of an inner loop the jump belongs to the enclosing loop: rarer position, higher weight
        opts.append((14 if in_else else 2, lambda: self.stmt_jump(fn)))
    return self.wpick(opts)

  def block(self, fn, depth, n, in_loop, top=False):
    lines, term = [], False
    while n > 0 and not term and (self.budget > 0 or not lines):
      n -= 1
      self.budget -= 1
      ls, term = self.stmt(fn, depth, in_loop, top)
      if top and fn.hoist:
        lines += fn.hoist
        fn.hoist = []
      lines += ls
    if not lines:
      lines = ['pass']
    return lines, term

  def program(self):
    top = Fn('prog', None, 0)
    kinds = [self.pick(['N', 'I'])] + [self.pick(['N', 'A', 'A', 'I', 'S', ('T', 'N', 'S'), 'L', 'N'])
                                        for _ in range(self.i(1, 2))]
    unknown = []
    names = []
    for j, k in enumerate(kinds):
      name = 'a%d' % j
      kn = 'U' if (j > 0 and self.chance(15)) else 'K'
      if kn == 'U':
        unknown.append(name)
      top.vars[name] = Var(name, k, kn, 'param', top)
      self.kn['prog:' + name] = kn
      top.bound.add(name)
      names.append(name)
    lines, term = self.block(top, 0, self.budget, False, top=True)
    if not term:
      lines += self.finish(top)
    src = 'def prog(%s):\n' % ', '.join(names) + '\n'.join('  ' + l for l in lines) + '\n'
    inputs = []
    for _ in range(self.i(2, 4)):
      inputs.append('(' + ', '.join(self.lit(k) for k in kinds) + ',)')
    opts = {'unknown_args': unknown}
    if self.closure_only:
      opts['closure_only'] = sorted(self.closure_only)
    return {'src': src, 'inputs': inputs, 'opts': opts, 'meta': dict(self.meta), 'kn': dict(self.kn)}


@st.composite
def programs(draw, cfg):
  return Gen(draw, cfg).program()


# ----------------------------------------------------------------------------------------------
# runner API

def budget(tier):
  if tier == 'thorough':
    return {'programs': 36000, 'budget': 22, 'max_depth': 3, 'max_fns': 4, 'shrink_s': 60, 'wall_cap': 1150}
  return {'programs': 2400, 'budget': 14, 'max_depth': 3, 'max_fns': 3, 'shrink_s': 15, 'wall_cap': 300}


def HASHSEEDS(tier, seed):
  return ['0', '1', str((seed * 7919 + 19) % 4294967295)]


def gen_cfg(b, excl=EXCL):
  # dev knob (never set by the registered commands): VF_C19_ALLOW=flag,flag re-enables excluded shapes, e.g. to
  # check a candidate fix of the corresponding finding
  allow = [a for a in os.environ.get('VF_C19_ALLOW', '').split(',') if a]
  if allow:
    excl = tuple(e for e in excl if e not in allow and 'all' not in allow)
  return {'budget': b.get('budget', 14), 'max_depth': b.get('max_depth', 3), 'max_fns': b.get('max_fns', 3), 'excl': list(excl)}


def shard(ctx, acc):
  b = ctx.budget
  n = ctx.share('programs')
  seen = set()
  cfg_ = gen_cfg(b)
  strict = set(cfg_['excl']) == set(EXCL)

  def body(prog):
    case = {'src': prog['src'], 'inputs': prog['inputs'], 'opts': prog['opts']}
    key = common.h8([case['src'], case['inputs'], case['opts']])
    if key in seen:
      acc.count('duplicate_draws_skipped')
      return
    seen.add(key)
    try:
      fails, info = run_case(case, prog.get('kn') if strict else None)
    except SyntaxError as e:
      acc.count('generator_slip:syntax')
      acc.notes.append('generator produced invalid source: %r\n%s' % (e, prog['src']))
      return
    classes = []
    for k, v in prog['meta'].items():
      if k.startswith('excluded:'):
        acc.count(k, v)
      else:
        classes.append(k if k.startswith('has:') else 'has:' + k)
    if info.get('kn_mismatch'):
      # the generator mispredicted what the inference can know (a slip of the check, not of malt); the oracle still ran
      classes.append('generator_slip:knownness')
      if len(acc.notes) < 5:
        acc.notes.append('knownness slip: %s\n%s' % (info['kn_mismatch'][:3], case['src']))
    for r in sorted(set(info['raised'])):
      classes.append('run_raised:' + r)
    if not info['raised']:
      classes.append('all_runs_completed')
    if info['closure_facts']:
      classes.append('closure_facts_checked')
    if info['closure_multi']:
      classes.append('captured_var_with>=2_types_at_calls')
    if info['multi']:
      classes.append('var_with>=2_runtime_types')
    if info['silent']:
      classes.append('some_occurrence_without_annotation')
    for k in info['checked_kinds']:
      classes.append('checked:' + k)
    nf = info['facts']
    classes.append('facts:' + ('0' if nf == 0 else '1-19' if nf < 20 else '20-59' if nf < 60 else '60+'))
    nontriv = info['facts'] > 0 and info['multi']
    size = len(case['src'].splitlines())
    sample = None
    if nontriv and (len(acc.samples) < acc.MAX_SAMPLES or size > (acc.biggest[0] if acc.biggest else 0)):
      sample = case
    acc.case(key=key, nontrivial=nontriv, classes=classes, sample=sample,
             size=size, n=max(1, info['runs']))
    acc.count('programs')
    acc.count('facts_checked', info['facts'])
    acc.count('occurrences_without_annotation', info['silent'])
    for bkt, d in fails:
      acc.fail(bkt, case, d)

  common.hyp_run(ctx, programs(cfg_), body, n)


def shrink(case, bucket, deadline):
  """Statement-level ddmin; a candidate that newly raises at run time (a deleted binding) is rejected so that the shrunk case
  stays inside the generated class."""
  fails0, info0 = run_case(case)
  allowed, buckets0 = set(info0['raised']), set(b for b, _ in fails0)

  def rp(c):
    fails, info = run_case(c)
    if not set(info['raised']) <= allowed or not set(b for b, _ in fails) <= buckets0:
      return []
    return [{'bucket': b, 'detail': d} for b, d in fails]

  return shrinker.shrink_case(case, bucket, rp, deadline)
