"""C20 - conversion options survive embedding in generated code and key the caches.

Finite space: 2^3 flags x 2^7 Feature subsets = 1024 values, enumerated completely (Pool of
worker processes, rows of the 1024x1024 pair table sharded by index). No random generation.
"""
import itertools

from malt.core import converter
from malt.impl import api as _api
from malt.impl import conversion as _conversion
from malt.pyct import parser
from vf import harness

ID = 'C20'
LEVEL = 'exploration'
EXHAUSTIVE = True
TECHNIQUE = ('exhaustive enumeration of the finite option space (1024 values, 1024^2 ordered pairs, '
             'all spellings) against round-trip / algebraic-law oracles; end-to-end embedding on the '
             '128 values a FunctionScope accepts')
RULE = ('every one of the 2^3 x 2^7 = 1024 ConversionOptions values is constructed (also through the '
        'alternative spellings None / bare Feature / tuple / reversed tuple / list / set / frozenset), '
        'round-tripped through to_ast -> unparse -> eval, compared against all 1024 values for eq/ne/hash, '
        'and checked for call_options and uses; as cache keys: an entity allowlisted under one value is looked up under all 1024 '
        '(conversion.cache_allowlisted / is_in_allowlist_cache) and the transpiler caching keys (api.PyToPy.get_caching_key) of all '
        'ordered pairs are compared - a hit / equal key exactly when the two values are equal; a value is non-trivial always (the space is finite) and '
        'distinct by its (flags, feature set); evaluations counts single-value checks + ordered pairs + '
        'embedded conversions')
ASSUMPTIONS = [
    'the Feature enumeration has exactly the 7 members read from malt.core.converter at run time',
    'eval of the unparsed AST uses the ag__ module built by api.PyToPy.get_extra_locals (what generated code sees)',
    'end-to-end embedding is exercised only for option values FunctionScope accepts (no ALL / NAME_SCOPES / AUTO_CONTROL_DEPS)',
]

FEATURES = list(converter.Feature)
FLAGS = list(itertools.product([False, True], repeat=3))


def all_values():
  vals = []
  for r, u, i in FLAGS:
    for mask in range(1 << len(FEATURES)):
      fs = tuple(f for k, f in enumerate(FEATURES) if mask >> k & 1)
      vals.append((r, u, i, fs))
  return vals


def mk(v, spelling='tuple'):
  r, u, i, fs = v
  if spelling == 'tuple':
    of = tuple(fs)
  elif spelling == 'rev':
    of = tuple(reversed(fs))
  elif spelling == 'list':
    of = list(fs)
  elif spelling == 'set':
    of = set(fs)
  elif spelling == 'frozenset':
    of = frozenset(fs)
  elif spelling == 'none':
    assert not fs
    of = None
  elif spelling == 'bare':
    assert len(fs) == 1
    of = fs[0]
  elif spelling == 'dup':
    of = tuple(fs) + tuple(fs)
  return converter.ConversionOptions(recursive=r, user_requested=u, internal_convert_user_code=i,
                                     optional_features=of)


def spellings(v):
  s = ['tuple', 'rev', 'list', 'set', 'frozenset', 'dup']
  if not v[3]:
    s.append('none')
  if len(v[3]) == 1:
    s.append('bare')
  return s


def enc(v):
  return {'recursive': v[0], 'user_requested': v[1], 'internal': v[2], 'features': [f.name for f in v[3]]}


def dec(c):
  return (c['recursive'], c['user_requested'], c['internal'],
          tuple(converter.Feature[n] for n in c['features']))


def tup(v):
  return (v[0], v[1], v[2], frozenset(v[3]))


def check_single(v, fails):
  """All single-value clauses. Appends (bucket, detail)."""
  try:
    o = mk(v)
  except Exception as e:
    fails.append(('construct:' + type(e).__name__, repr(e)))
    return 0
  n = 0
  ag = harness.real_ag()
  # the value holds what was requested
  if (o.recursive, o.user_requested, o.internal_convert_user_code, frozenset(o.optional_features)) != tup(v):
    fails.append(('fields', 'constructed value has fields %r' % (o.as_tuple(),)))
  # round trip through the embedded source form
  for sp in spellings(v):
    n += 1
    try:
      os_ = mk(v, sp)
      src = parser.unparse(os_.to_ast()).strip()
      back = eval(src, {'ag__': ag})
      if not isinstance(back, converter.ConversionOptions):
        fails.append(('roundtrip:type', {'src': src, 'got': repr(back)}))
      elif not (back == o) or (back != o) or hash(back) != hash(o) or back.as_tuple() != o.as_tuple():
        fails.append(('roundtrip:value', {'src': src, 'got': repr(back.as_tuple()), 'want': repr(o.as_tuple())}))
      if not (os_ == o) or hash(os_) != hash(o):
        fails.append(('spelling:' + sp, {'got': repr(os_.as_tuple()), 'want': repr(o.as_tuple())}))
    except Exception as e:
      fails.append(('roundtrip:exc:' + type(e).__name__, {'spelling': sp, 'exc': repr(e)}))
  # call_options
  n += 1
  try:
    c = o.call_options()
    want = (v[0], False, v[0], frozenset(v[3]))
    got = (c.recursive, c.user_requested, c.internal_convert_user_code, frozenset(c.optional_features))
    if got != want:
      fails.append(('call_options', {'got': repr(got), 'want': repr(want)}))
    if (o.recursive, o.user_requested, o.internal_convert_user_code, frozenset(o.optional_features)) != tup(v):
      fails.append(('call_options:mutates', repr(o.as_tuple())))
  except Exception as e:
    fails.append(('call_options:exc:' + type(e).__name__, repr(e)))
  # uses
  for f in FEATURES:
    n += 1
    want = (f in v[3]) or (converter.Feature.ALL in v[3])
    try:
      got = o.uses(f)
    except Exception as e:
      fails.append(('uses:exc:' + type(e).__name__, repr(e)))
      continue
    if bool(got) != want or not isinstance(got, bool):
      fails.append(('uses', {'feature': f.name, 'got': repr(got), 'want': want}))
  return n


def check_pair(va, a, vb, b, fails):
  same = tup(va) == tup(vb)
  try:
    eq = (a == b)
    ne = (a != b)
  except Exception as e:
    fails.append(('pair:exc:' + type(e).__name__, {'other': enc(vb)}))
    return
  if eq is not same and eq != same:
    fails.append(('pair:eq', {'other': enc(vb), 'eq': eq, 'want': same}))
  if ne == same:
    fails.append(('pair:ne', {'other': enc(vb), 'ne': ne, 'want': not same}))
  if eq and hash(a) != hash(b):
    fails.append(('pair:hash', {'other': enc(vb)}))
  if same != (a.as_tuple() == b.as_tuple()):
    fails.append(('pair:as_tuple', {'other': enc(vb)}))
  # as a cache sub-key
  d = {a: 1}
  if (b in d) != same:
    fails.append(('pair:dictkey', {'other': enc(vb)}))


def caching_keys(objs):
  """The key the transpiler files generated code under, for every option value."""
  return [_api._TRANSPILER.get_caching_key(converter.ProgramContext(options=o)) for o in objs]


def check_cache_keys(va, a, vals, objs, keys, ka, fails):
  """The two caches keyed by options: unequal options never share an entry, equal ones always do."""
  def entity():
    return None
  _conversion.cache_allowlisted(entity, a)
  for vb, b, kb in zip(vals, objs, keys):
    same = tup(va) == tup(vb)
    hit = _conversion.is_in_allowlist_cache(entity, b)
    if bool(hit) != same:
      fails.append(('cache:allowlist:%s' % ('hit-for-unequal-options' if hit else 'miss-for-equal-options'), {'other': enc(vb)}))
    try:
      keq = (ka == kb) and hash(ka) == hash(kb) and (kb in {ka: 1})
    except Exception as e:
      fails.append(('cache:transpiler-key:exc:' + type(e).__name__, {'other': enc(vb)}))
      continue
    if bool(keq) != same:
      fails.append(('cache:transpiler-key:%s' % ('equal-for-unequal-options' if keq else 'differs-for-equal-options'), {'other': enc(vb)}))
  return 2 * len(vals)


# ---- end-to-end embedding -----------------------------------------------------------------------

_E2E_SRC = '''
def tiny(x):
  def inner(y):
    return y + 1
  lam = lambda z: z + 2
  return inner(x) + lam(x)
'''

_UNSUPPORTED = {converter.Feature.ALL, converter.Feature.NAME_SCOPES, converter.Feature.AUTO_CONTROL_DEPS}


def embeddable(v):
  return not (set(v[3]) & _UNSUPPORTED)


class _Recorder(object):
  def __init__(self):
    self.seen = []
    self.scopes = []


def check_embed(v, mod, fails):
  """Converts tiny() under v; the options objects the running code hands to its function scopes
  must equal v (top level) / v.call_options() (nested def and lambda)."""
  from malt.operators import function_wrappers
  rec = _Recorder()
  real_fs = function_wrappers.FunctionScope

  class SpyScope(real_fs):
    def __init__(self, function_name, scope_name, options):
      rec.seen.append((function_name, options))
      real_fs.__init__(self, function_name, scope_name, options)
      rec.scopes.append((function_name, self))

  def spy_with_function_scope(thunk, scope_name, options):
    rec.seen.append(('<lambda>', options))
    with SpyScope('lambda_', scope_name, options) as scope:
      return thunk(scope)

  tr = harness.PrivateTranspiler({'FunctionScope': SpyScope, 'with_function_scope': spy_with_function_scope},
                                 capture=True)
  o = mk(v)
  try:
    f = harness.convert_private(tr, mod.tiny, o)
    r = f(5)
  except Exception as e:
    fails.append(('embed:exc:' + harness.exc_bucket(e), repr(e)))
    return
  if r != 13:
    fails.append(('embed:result', r))
  want_top, want_inner = tup(v), (v[0], False, v[0], frozenset(v[3]))
  tops = [op for n, op in rec.seen if n == 'tiny']
  inners = [op for n, op in rec.seen if n == 'inner']  # nested lambdas get no scope (by design)
  if len(tops) != 1 or len(inners) != 1:
    fails.append(('embed:scopes', [n for n, _ in rec.seen]))
    return
  for op in tops:
    if not isinstance(op, converter.ConversionOptions) or (
        op.recursive, op.user_requested, op.internal_convert_user_code, frozenset(op.optional_features)) != want_top:
      fails.append(('embed:top', {'got': repr(getattr(op, 'as_tuple', lambda: op)()), 'want': repr(want_top)}))
  # the options each running scope hands to its callees (what converted_call receives)
  for name, sc in rec.scopes:
    co = getattr(sc, 'callopts', None)
    if not isinstance(co, converter.ConversionOptions) or (
        co.recursive, co.user_requested, co.internal_convert_user_code, frozenset(co.optional_features)) != want_inner:
      fails.append(('embed:callopts', {'scope': name, 'got': repr(getattr(co, 'as_tuple', lambda: co)()), 'want': repr(want_inner)}))
  for op in inners:
    if not isinstance(op, converter.ConversionOptions) or (
        op.recursive, op.user_requested, op.internal_convert_user_code, frozenset(op.optional_features)) != want_inner:
      fails.append(('embed:inner', {'got': repr(getattr(op, 'as_tuple', lambda: op)()), 'want': repr(want_inner)}))


def _std_checks(fails):
  ag = harness.real_ag()
  std = converter.STANDARD_OPTIONS
  src = parser.unparse(std.to_ast()).strip()
  back = eval(src, {'ag__': ag})
  if not (back == std) or hash(back) != hash(std):
    fails.append(('std:roundtrip', src))
  if tup((std.recursive, std.user_requested, std.internal_convert_user_code, tuple(std.optional_features))) != (
      True, False, True, frozenset()):
    fails.append(('std:value', repr(std.as_tuple())))
  # defaults of the constructor: optional_features defaults to ALL
  d = converter.ConversionOptions()
  if not d.uses(converter.Feature.LISTS):
    fails.append(('default:ALL', repr(d.as_tuple())))


def budget(tier):
  return {'values': 1024, 'pairs': 3 * 1024 * 1024, 'wall_cap': 900}


def shard(ctx, acc):
  vals = all_values()
  objs = [mk(v) for v in vals]
  keys = caching_keys(objs)
  mod = harness.load_module(_E2E_SRC)
  try:
    if ctx.shard == 0:
      fl = []
      _std_checks(fl)
      for b, d in fl:
        acc.fail(b, {'kind': 'std'}, d)
      acc.case(key='std', nontrivial=False, classes=['std_checks'])
    for idx, v in enumerate(vals):
      if idx % ctx.nshards != ctx.shard:
        continue
      fl = []
      n = check_single(v, fl)
      a = objs[idx]
      for j, vb in enumerate(vals):
        check_pair(v, a, vb, objs[j], fl)
      n += len(vals)
      n += check_cache_keys(v, a, vals, objs, keys, keys[idx], fl)
      cls = ['nfeatures=%d' % len(v[3])]
      if embeddable(v):
        check_embed(v, mod, fl)
        n += 1
        cls.append('embedded_end_to_end')
      acc.case(key=repr(tup(v)[:3]) + repr(sorted(f.name for f in v[3])), nontrivial=True, classes=cls,
               sample=enc(v) if idx % 97 == 0 else None, size=len(v[3]), n=n)
      acc.count('values')
      seen = set()
      for b, d in fl:
        if b not in seen:
          seen.add(b)
          acc.fail(b, enc(v), d)
  finally:
    harness.unload_module(mod)


def replay(case):
  fails = []
  if case.get('kind') == 'std':
    _std_checks(fails)
    return [{'bucket': b, 'detail': d} for b, d in fails]
  v = dec(case)
  check_single(v, fails)
  a = mk(v)
  for vb in all_values():
    check_pair(v, a, vb, mk(vb), fails)
  vals = all_values()
  objs = [mk(x) for x in vals]
  check_cache_keys(v, a, vals, objs, caching_keys(objs), caching_keys([a])[0], fails)
  if embeddable(v):
    mod = harness.load_module(_E2E_SRC)
    try:
      check_embed(v, mod, fails)
    finally:
      harness.unload_module(mod)
  out, seen = [], set()
  for b, d in fails:
    if b not in seen:
      seen.add(b)
      out.append({'bucket': b, 'detail': d})
  return out

LEVEL_TEXT = ('Complete enumeration: all 1024 option values, all their spellings and all 1024^2 ordered pairs are checked '
              'on every run, so within the stated space the property is decided, not sampled; embedding is additionally '
              'observed end to end in running converted code for the 128 values a function scope accepts.')
LEVEL_NOTE = ('Trusted: Python eval of the unparsed expression with the same ag__ module generated code receives; the Feature '
              'enumeration read at run time. Outside: option objects built by third-party subclasses.')
