"""C20 - conversion options survive embedding in generated code and key the caches.

Finite space: 2^3 flags x 2^7 Feature subsets = 1024 values, enumerated completely (Pool of
worker processes, the values dealt round-robin to the shards). No random generation.

End-to-end embedding (check_embed) is the product entity kinds x entry points x values:
  kinds   def (with nested def and lambda), lambda, lambda holding a nested lambda, lambda with a default,
          nested def (closure, with docstring), bound method, class method, static method,
          functools.partial of a def / of a partial / of a lambda, callable object
  entries PyToPy.transform (static for all 1024 values), to_code (static), to_graph, the convert decorator,
          converted_call(options=), converted_call(caller_fn_scope=), malt.internal.convert under every ambient
          status x context status x convert_by_default x user_requested (also left to their defaults)
"""
import itertools

from malt.core import converter
from malt.impl import api as _api
from malt.impl import conversion as _conversion
from malt.pyct import parser
from vf import harness

ID = 'C20'
LEVEL = 'exploration'
EXHAUSTIVE = True
TECHNIQUE = ('exhaustive enumeration of the finite option space (1024 values, 1024^2 ordered pairs, '
             'all spellings) against round-trip / algebraic-law oracles; end-to-end embedding over the product '
             'entity kinds (12) x entry points (7) for every value the entry point can request: the options '
             'expressions in the generated source are evaluated (all 1024 values) and the options objects handed '
             'to the live function scopes are read (the 128 values a FunctionScope accepts)')
RULE = ('every one of the 2^3 x 2^7 = 1024 ConversionOptions values is constructed (also through the '
        'alternative spellings None / bare Feature / tuple / reversed tuple / list / set / frozenset), '
        'round-tripped through to_ast -> unparse -> eval, compared against all 1024 values for eq/ne/hash, '
        'and checked for call_options and uses; as cache keys: an entity allowlisted under one value is looked up under all 1024 '
        '(conversion.cache_allowlisted / is_in_allowlist_cache) and the transpiler caching keys (api.PyToPy.get_caching_key) of all '
        'ordered pairs are compared - a hit / equal key exactly when the two values are equal; a value is non-trivial always (the space is finite) and '
        'distinct by its (flags, feature set); end-to-end: an embedding case is one (value, entity kind, entry point) conversion whose '
        'embedded options are evaluated from the generated source (embed_static) or read from the running scopes (embed_run); '
        'classes embed_static:<entry>/<kind> and embed_run:<entry>/<kind> count them; evaluations counts single-value checks + '
        'ordered pairs + embedding cases')
ASSUMPTIONS = [
    'the Feature enumeration has exactly the 7 members read from malt.core.converter at run time',
    'eval of the unparsed AST uses the ag__ module built by api.PyToPy.get_extra_locals (what generated code sees)',
    'running generated code is exercised only for option values FunctionScope accepts (no ALL / NAME_SCOPES / AUTO_CONTROL_DEPS); '
    'for the other 896 values the embedded expressions are evaluated from the generated source without running it '
    '(quick tier: one entity kind per value in rotation, 112 values per kind; thorough tier: every kind)',
    'entry points are given only what they document: to_graph / to_code / PyToPy.transform get entities with a __code__ object '
    '(partials and callable objects go through convert / converted_call / malt.internal.convert, which unwrap them)',
    'whether a route converts at all is taken from the documented contract: converted_call converts user code only when '
    'internal_convert_user_code is set (hence callees exactly under recursion); malt.internal.convert converts under an ENABLED '
    'context or an UNSPECIFIED one with convert_by_default - where it does not convert only the result is checked',
    'the spy FunctionScope / with_function_scope record their arguments and defer to the real implementations',
]

FEATURES = list(converter.Feature)
FLAGS = list(itertools.product([False, True], repeat=3))


def all_values():
  vals = []
  for r, u, i in FLAGS:
    for mask in range(1 << len(FEATURES)):
      fs = tuple(f for k, f in enumerate(FEATURES) if mask >> k & 1)
      vals.append((r, u, i, fs))
  return vals


def mk(v, spelling='tuple'):
  r, u, i, fs = v
  if spelling == 'tuple':
    of = tuple(fs)
  elif spelling == 'rev':
    of = tuple(reversed(fs))
  elif spelling == 'list':
    of = list(fs)
  elif spelling == 'set':
    of = set(fs)
  elif spelling == 'frozenset':
    of = frozenset(fs)
  elif spelling == 'none':
    assert not fs
    of = None
  elif spelling == 'bare':
    assert len(fs) == 1
    of = fs[0]
  elif spelling == 'dup':
    of = tuple(fs) + tuple(fs)
  return converter.ConversionOptions(recursive=r, user_requested=u, internal_convert_user_code=i,
                                     optional_features=of)


def spellings(v):
  s = ['tuple', 'rev', 'list', 'set', 'frozenset', 'dup']
  if not v[3]:
    s.append('none')
  if len(v[3]) == 1:
    s.append('bare')
  return s


def enc(v):
  return {'recursive': v[0], 'user_requested': v[1], 'internal': v[2], 'features': [f.name for f in v[3]]}


def dec(c):
  return (c['recursive'], c['user_requested'], c['internal'],
          tuple(converter.Feature[n] for n in c['features']))


def tup(v):
  return (v[0], v[1], v[2], frozenset(v[3]))


def check_single(v, fails):
  """All single-value clauses. Appends (bucket, detail)."""
  try:
    o = mk(v)
  except Exception as e:
    fails.append(('construct:' + type(e).__name__, repr(e)))
    return 0
  n = 0
  ag = harness.real_ag()
  # the value holds what was requested
  if (o.recursive, o.user_requested, o.internal_convert_user_code, frozenset(o.optional_features)) != tup(v):
    fails.append(('fields', 'constructed value has fields %r' % (o.as_tuple(),)))
  # round trip through the embedded source form
  for sp in spellings(v):
    n += 1
    try:
      os_ = mk(v, sp)
      src = parser.unparse(os_.to_ast()).strip()
      back = eval(src, {'ag__': ag})
      if not isinstance(back, converter.ConversionOptions):
        fails.append(('roundtrip:type', {'src': src, 'got': repr(back)}))
      elif not (back == o) or (back != o) or hash(back) != hash(o) or back.as_tuple() != o.as_tuple():
        fails.append(('roundtrip:value', {'src': src, 'got': repr(back.as_tuple()), 'want': repr(o.as_tuple())}))
      if not (os_ == o) or hash(os_) != hash(o):
        fails.append(('spelling:' + sp, {'got': repr(os_.as_tuple()), 'want': repr(o.as_tuple())}))
    except Exception as e:
      fails.append(('roundtrip:exc:' + type(e).__name__, {'spelling': sp, 'exc': repr(e)}))
  # call_options
  n += 1
  try:
    c = o.call_options()
    want = (v[0], False, v[0], frozenset(v[3]))
    got = (c.recursive, c.user_requested, c.internal_convert_user_code, frozenset(c.optional_features))
    if got != want:
      fails.append(('call_options', {'got': repr(got), 'want': repr(want)}))
    if (o.recursive, o.user_requested, o.internal_convert_user_code, frozenset(o.optional_features)) != tup(v):
      fails.append(('call_options:mutates', repr(o.as_tuple())))
  except Exception as e:
    fails.append(('call_options:exc:' + type(e).__name__, repr(e)))
  # uses
  for f in FEATURES:
    n += 1
    want = (f in v[3]) or (converter.Feature.ALL in v[3])
    try:
      got = o.uses(f)
    except Exception as e:
      fails.append(('uses:exc:' + type(e).__name__, repr(e)))
      continue
    if bool(got) != want or not isinstance(got, bool):
      fails.append(('uses', {'feature': f.name, 'got': repr(got), 'want': want}))
  return n


def check_pair(va, a, vb, b, fails):
  same = tup(va) == tup(vb)
  try:
    eq = (a == b)
    ne = (a != b)
  except Exception as e:
    fails.append(('pair:exc:' + type(e).__name__, {'other': enc(vb)}))
    return
  if eq is not same and eq != same:
    fails.append(('pair:eq', {'other': enc(vb), 'eq': eq, 'want': same}))
  if ne == same:
    fails.append(('pair:ne', {'other': enc(vb), 'ne': ne, 'want': not same}))
  if eq and hash(a) != hash(b):
    fails.append(('pair:hash', {'other': enc(vb)}))
  if same != (a.as_tuple() == b.as_tuple()):
    fails.append(('pair:as_tuple', {'other': enc(vb)}))
  # as a cache sub-key
  d = {a: 1}
  if (b in d) != same:
    fails.append(('pair:dictkey', {'other': enc(vb)}))


def caching_keys(objs):
  """The key the transpiler files generated code under, for every option value."""
  return [_api._TRANSPILER.get_caching_key(converter.ProgramContext(options=o)) for o in objs]


def check_cache_keys(va, a, vals, objs, keys, ka, fails):
  """The two caches keyed by options: unequal options never share an entry, equal ones always do."""
  def entity():
    return None
  _conversion.cache_allowlisted(entity, a)
  for vb, b, kb in zip(vals, objs, keys):
    same = tup(va) == tup(vb)
    hit = _conversion.is_in_allowlist_cache(entity, b)
    if bool(hit) != same:
      fails.append(('cache:allowlist:%s' % ('hit-for-unequal-options' if hit else 'miss-for-equal-options'), {'other': enc(vb)}))
    try:
      keq = (ka == kb) and hash(ka) == hash(kb) and (kb in {ka: 1})
    except Exception as e:
      fails.append(('cache:transpiler-key:exc:' + type(e).__name__, {'other': enc(vb)}))
      continue
    if bool(keq) != same:
      fails.append(('cache:transpiler-key:%s' % ('equal-for-unequal-options' if keq else 'differs-for-equal-options'), {'other': enc(vb)}))
  return 2 * len(vals)


# ---- end-to-end embedding -----------------------------------------------------------------------
#
# Entity kinds x entry points. Every entity calls the module-level def `callee` (so the options handed
# to a dynamically converted callee are observed as well) and has a result that identifies it.

_E2E_SRC = '''
import functools


def callee(y):
  return y + 1


def tiny(x):
  def inner(y):
    return y + 1
  lam = lambda z: z + 2
  return inner(x) + lam(x) + callee(x)


lam_entity = lambda x: callee(x) + 8

lam_nest = lambda x: (lambda z: callee(z) + 3)(x) + 1

lam_default = lambda x, k=20: callee(x) + k


def make_nested(k):
  def nested(x):
    """Docstring of a closure: the function scope is opened after it."""
    return callee(x) + k
  return nested


nested_entity = make_nested(10)


class Box(object):

  def __init__(self, k):
    self.k = k

  def method(self, x):
    return callee(x) + self.k * 2

  @classmethod
  def cmethod(cls, x):
    return callee(x) + 40

  @staticmethod
  def smethod(x):
    return callee(x) + 50

  def __call__(self, x):
    return callee(x) + self.k * 3


box = Box(10)


def base(a, x, b=0):
  return callee(x) + a + b


partial_entity = functools.partial(base, 100, b=1000)
partial_nested = functools.partial(functools.partial(base, 200), b=2000)
partial_lambda = functools.partial(lambda a, x: callee(x) + a + 60, 3000)
'''

_UNSUPPORTED = {converter.Feature.ALL, converter.Feature.NAME_SCOPES, converter.Feature.AUTO_CONTROL_DEPS}
_ARG = 5


class Kind(object):
  """One kind of convertible entity.

  get(mod) -> the entity; own: name its function scope reports; inner: names of the scopes of the defs
  nested in it (converted with it, they receive call options); want: result for argument 5;
  code: the entity exposes __code__ (to_graph / to_code / PyToPy.transform accept it);
  bind(mod) -> leading arguments the converted form needs when it is an unbound function.
  """

  def __init__(self, label, get, own, want, inner=(), code=True, bind=None):
    self.label, self.get, self.own, self.want = label, get, own, want
    self.inner, self.code, self.bind = tuple(inner), code, bind
    # failure buckets name the family, the detail names the kind
    self.family = ('lambda' if label.startswith('lambda') else 'partial' if label.startswith('partial') else
                   'callable_object' if label == 'callable_object' else 'function')

  def lead(self, mod):
    return tuple(self.bind(mod)) if self.bind else ()


KINDS = [
    Kind('def', lambda m: m.tiny, 'tiny', 19, inner=('inner',)),
    Kind('lambda', lambda m: m.lam_entity, '<lambda>', 14),
    Kind('lambda_with_nested_lambda', lambda m: m.lam_nest, '<lambda>', 10),
    Kind('lambda_with_default', lambda m: m.lam_default, '<lambda>', 26),
    Kind('nested_def', lambda m: m.nested_entity, 'nested', 16),
    Kind('bound_method', lambda m: m.box.method, 'method', 26, bind=lambda m: (m.box,)),
    Kind('class_method', lambda m: m.Box.cmethod, 'cmethod', 46, bind=lambda m: (m.Box,)),
    Kind('static_method', lambda m: m.Box.smethod, 'smethod', 56),
    Kind('partial_of_def', lambda m: m.partial_entity, 'base', 1106, code=False),
    Kind('partial_of_partial', lambda m: m.partial_nested, 'base', 2206, code=False),
    Kind('partial_of_lambda', lambda m: m.partial_lambda, '<lambda>', 3066, code=False),
    Kind('callable_object', lambda m: m.box, '__call__', 36, code=False),
]

# Shapes deliberately not generated (outside the documented domain of the entry point); counted.
EXCLUSIONS = {
    'excl_no_code_object_to_graph': 'to_graph / to_code / PyToPy.transform on a functools.partial or a callable object: '
                                    'documented ValueError ("doesn\'t expose a __code__ object"), nothing is generated',
}

_STATUSES = ('UNSPECIFIED', 'ENABLED', 'DISABLED')


def embeddable(v):
  return not (set(v[3]) & _UNSUPPORTED)


def call_tup(t):
  """The value call_options() must produce for a value with fields t."""
  return (t[0], False, t[0], frozenset(t[3]))


def _fields(op):
  if not isinstance(op, converter.ConversionOptions):
    return ('not-an-options-object', repr(op))
  return (op.recursive, op.user_requested, op.internal_convert_user_code, frozenset(op.optional_features))


def _show(t):
  if len(t) == 4 and isinstance(t[3], frozenset):
    return repr(t[:3] + (sorted(f.name for f in t[3]),))
  return repr(t)


class _Recorder(object):
  """What the running generated code handed to its function scopes."""

  def __init__(self):
    self.reset()

  def reset(self):
    self.seen = []     # (function name, options object passed by the generated code)
    self.scopes = []   # (function name, the live FunctionScope)


class _Spies(object):
  """FunctionScope / with_function_scope replacements that record and then defer to the real ones."""

  def __init__(self):
    from malt.operators import function_wrappers
    rec = self.rec = _Recorder()
    real_fs = function_wrappers.FunctionScope
    real_wfs = function_wrappers.with_function_scope

    class SpyScope(real_fs):
      def __init__(self, function_name, scope_name, options):
        rec.seen.append((function_name, options))
        real_fs.__init__(self, function_name, scope_name, options)
        rec.scopes.append((function_name, self))

    def spy_with_function_scope(thunk, scope_name, options):
      rec.seen.append(('<lambda>', options))

      def spied_thunk(scope):
        rec.scopes.append(('<lambda>', scope))
        return thunk(scope)
      return real_wfs(spied_thunk, scope_name, options)

    self.overrides = {'FunctionScope': SpyScope, 'with_function_scope': spy_with_function_scope}
    self.transpiler = harness.PrivateTranspiler(self.overrides, capture=False)


def _static_scopes(src):
  """(scope function name, source of the embedded options expression) for every function scope opened in
  generated source `src`."""
  import ast
  import textwrap
  out = []
  for n in ast.walk(ast.parse(textwrap.dedent(src))):
    if isinstance(n, ast.Call) and isinstance(n.func, ast.Attribute) and len(n.args) == 3:
      if n.func.attr == 'FunctionScope':
        out.append((n.args[0].value if isinstance(n.args[0], ast.Constant) else '?', ast.unparse(n.args[2])))
      elif n.func.attr == 'with_function_scope':
        out.append(('<lambda>', ast.unparse(n.args[2])))
  return out


class _Embed(object):
  """One value's end-to-end embedding checks; collects fails and class counters."""

  def __init__(self, v, mod, spies, fails, classes, rank=0, full=True):
    self.v, self.mod, self.spies, self.fails, self.classes, self.rank = v, mod, spies, fails, classes, rank
    self.full = full
    self.n = 0

  def cls(self, c):
    self.classes.append(c)

  def fail(self, what, entry, kind, detail):
    d = {'entry': entry, 'kind': kind.label}
    d.update(detail)
    self.fails.append(('embed:%s:%s/%s' % (what, entry.split('[')[0], kind.family), d))

  # -- oracles ------------------------------------------------------------------------------------

  def judge_static(self, entry, kind, src, top):
    """The options expressions in generated source evaluate back to the requested value (the entity's own
    scope) / its call options (scopes of nested defs)."""
    self.n += 1
    self.cls('embed_static')
    self.cls('embed_static:%s/%s' % (entry, kind.label))
    ag = harness.real_ag()
    try:
      scopes = _static_scopes(src)
    except Exception as e:
      self.fail('static:unparsable', entry, kind, {'exc': repr(e)})
      return
    names = sorted(n for n, _ in scopes)
    if names != sorted((kind.own,) + kind.inner):
      self.fail('static:scopes', entry, kind, {'got': names, 'want': sorted((kind.own,) + kind.inner)})
      return
    for name, expr in scopes:
      want = top if name == kind.own else call_tup(top)
      try:
        back = eval(expr, {'ag__': ag})
      except Exception as e:
        self.fail('static:eval-exc:' + type(e).__name__, entry, kind, {'expr': expr, 'exc': repr(e)})
        continue
      wo = converter.ConversionOptions(recursive=want[0], user_requested=want[1], internal_convert_user_code=want[2],
                                       optional_features=want[3])
      if _fields(back) != want or not (back == wo) or hash(back) != hash(wo):
        self.fail('static:entity-options' if name == kind.own else 'static:inner-options', entry, kind,
                  {'scope': name, 'expr': expr, 'got': _show(_fields(back)), 'want': _show(want)})

  def judge_run(self, entry, kind, result, top, converted):
    """converted: True = the entity must have been converted under `top`; False = must have run unconverted
    (user code not allowed); None = the route does not convert (status context), only the result is checked."""
    rec = self.spies.rec
    self.n += 1
    self.cls('embed_run')
    self.cls('embed_run:%s/%s' % (entry.split('[')[0], kind.label))
    if result != kind.want:
      self.fail('result', entry, kind, {'got': repr(result), 'want': kind.want})
    names = [n for n, _ in rec.seen]
    if converted is None:
      self.cls('embed_run:route_does_not_convert')
      return
    if not converted:
      self.cls('embed_run:user_code_not_allowed')
      if names:
        self.fail('converted-although-user-code-not-allowed', entry, kind, {'scopes': names, 'requested': _show(top)})
      return
    self.cls('embed_run:converted')
    inner = call_tup(top)
    want_names = (kind.own,) + kind.inner + (('callee',) if top[0] else ())
    self.cls('embed_run:callee_converted' if top[0] else 'embed_run:callee_left_alone(non-recursive)')
    if sorted(names) != sorted(want_names) or sorted(n for n, _ in rec.scopes) != sorted(want_names):
      if 'callee' in names and not top[0]:
        what = 'callee-converted-without-recursion'
      elif 'callee' not in names and top[0]:
        what = 'callee-not-converted-under-recursion'
      else:
        what = 'scopes'
      self.fail(what, entry, kind, {'got': names, 'want': list(want_names), 'requested': _show(top)})
      return
    for name, op in rec.seen:
      want = top if name == kind.own else inner
      if _fields(op) != want:
        what = 'entity-options' if name == kind.own else ('callee-options' if name == 'callee' else 'inner-options')
        self.fail(what, entry, kind, {'scope': name, 'got': _show(_fields(op)), 'want': _show(want)})
    for (name, op), (_, sc) in zip(rec.seen, rec.scopes):
      # what the scope keeps must be what it was given (a wrong argument is reported once, above)
      if _fields(getattr(sc, 'options', None)) != _fields(op):
        self.fail('scope-holds-other-options', entry, kind,
                  {'scope': name, 'got': _show(_fields(getattr(sc, 'options', None))), 'given': _show(_fields(op))})
      # the options each running scope hands to its callees (what converted_call receives)
      if _fields(getattr(sc, 'callopts', None)) != inner:
        self.fail('callopts', entry, kind,
                  {'scope': name, 'got': _show(_fields(getattr(sc, 'callopts', None))), 'want': _show(inner)})

  # -- entry points -------------------------------------------------------------------------------

  def attempt(self, entry, kind, thunk):
    self.spies.rec.reset()
    try:
      return True, thunk()
    except Exception as e:
      self.fail('exc:' + harness.exc_bucket(e), entry, kind, {'exc': repr(e)[:400]})
      return False, None

  def spelled(self, k):
    """optional_features argument for the public entry points: the spellings rotate over kinds and entries."""
    sp = spellings(self.v)
    sp = sp[k % len(sp)]
    return sp, _spell(self.v[3], sp)

  def run(self):
    import inspect
    v, mod = self.v, self.mod
    top = tup(v)
    r, u, i, fs = v
    o = mk(v)
    can_run = embeddable(v)
    code_kinds = [k for k in KINDS if k.code]
    for ki, kind in enumerate(KINDS):
      ent = kind.get(mod)
      lead = kind.lead(mod)
      # 1. PyToPy.transform (what every public route ends in): all 1024 values, static; run when a scope accepts v.
      #    Values no scope accepts (896 of them; the choice of the options object does not look at the features)
      #    take one kind each in rotation (quick tier; the thorough tier and replays take every kind).
      rotated_out = (kind.code and not can_run and not self.full and
                     code_kinds.index(kind) != self.rank % len(code_kinds))
      if rotated_out:
        self.cls('static_kind_left_to_rotation')
      elif kind.code:
        ok, f = self.attempt('transform', kind, lambda: harness.convert_private(self.spies.transpiler, ent, o))
        if ok:
          self.judge_static('transform', kind, inspect.getsource(f), top)   # no source = harness error
          if can_run:
            ok, res = self.attempt('transform', kind, lambda: f(*(lead + (_ARG,))))
            if ok:
              self.judge_run('transform', kind, res, top, True)
      else:
        self.cls('excl_no_code_object_to_graph')
      # 2. to_graph / to_code: requests (recursive, True, True, features)
      if u and i and kind.code and not rotated_out:
        sp, of = self.spelled(ki)
        ok, src = self.attempt('to_code', kind, lambda: _api.to_code(ent, recursive=r, experimental_optional_features=of))
        if ok:
          self.judge_static('to_code', kind, src, top)
        if can_run:
          ok, f = self.attempt('to_graph', kind, lambda: _api.to_graph(ent, recursive=r, experimental_optional_features=of))
          if ok:
            self.judge_static('to_graph', kind, inspect.getsource(f), top)
            ok, res = self.attempt('to_graph', kind, lambda: f(*(lead + (_ARG,))))
            if ok:
              self.cls('spelling:' + sp)
              self.judge_run('to_graph', kind, res, top, True)
      if not can_run:
        continue
      # 3. the convert decorator: requests (recursive, user_requested, True, features)
      if i:
        sp, of = self.spelled(ki + 1)
        ok, res = self.attempt('convert', kind, lambda: _api.convert(recursive=r, optional_features=of, user_requested=u)(ent)(_ARG))
        if ok:
          self.cls('spelling:' + sp)
          self.judge_run('convert', kind, res, top, True)
      # 4. converted_call with explicit options: any value; user code is converted only when the value allows it
      ok, res = self.attempt('converted_call', kind, lambda: _api.converted_call(ent, (_ARG,), None, options=mk(v)))
      if ok:
        self.judge_run('converted_call', kind, res, top, bool(i))
      # 5. converted_call on behalf of a caller whose scope was opened with v: the entity is a callee
      def as_callee():
        from malt.operators import function_wrappers
        with function_wrappers.FunctionScope('caller', 'fscope', mk(v)) as scope:
          return _api.converted_call(ent, (_ARG,), None, scope)
      ok, res = self.attempt('converted_call_from_scope', kind, as_callee)
      if ok:
        self.judge_run('converted_call_from_scope', kind, res, call_tup(top), bool(r))
      # 6. malt.internal.convert: requests (True, user_requested, True, no features) - under every ambient status,
      #    with every context status (the ambient context object itself and fresh ones), both defaults
      if r and i and not fs:
        self.internal_convert(kind, ent, top)

  def internal_convert(self, kind, ent, top):
    from malt.core import ag_ctx
    import malt
    u = top[1]
    for ambient in ('default',) + _STATUSES:
      for ctx_kind in ('ambient',) + _STATUSES:
        for cbd in (True, False, None):
          for spell_u in ((False, None) if not u else (True,)):
            def go():
              def inner_go():
                ctx = ag_ctx.control_status_ctx() if ctx_kind == 'ambient' else ag_ctx.ControlStatusCtx(
                    status=ag_ctx.Status[ctx_kind])
                kw = {}
                if cbd is not None:
                  kw['convert_by_default'] = cbd
                if spell_u is not None:
                  kw['user_requested'] = spell_u
                return ctx.status.name, malt.internal.convert(ent, ctx, **kw)(_ARG)
              if ambient == 'default':
                return inner_go()
              with ag_ctx.ControlStatusCtx(status=ag_ctx.Status[ambient]):
                return inner_go()
            entry = 'internal_convert[ambient=%s,ctx=%s,convert_by_default=%s,user_requested=%s]' % (
                ambient, ctx_kind, cbd, spell_u)
            ok, res = self.attempt(entry, kind, go)
            if not ok:
              continue
            status, result = res
            converts = status == 'ENABLED' or (status == 'UNSPECIFIED' and cbd is not False)
            self.cls('internal_convert:ctx=%s%s:user_requested=%s:%s' % (
                status, '' if status != 'UNSPECIFIED' else ('+default' if cbd is not False else '+no_default'),
                u, 'converts' if converts else 'does_not_convert'))
            self.judge_run(entry, kind, result, top, True if converts else None)


def _spell(fs, sp):
  fs = tuple(fs)
  return {'tuple': fs, 'rev': tuple(reversed(fs)), 'list': list(fs), 'set': set(fs), 'frozenset': frozenset(fs),
          'none': None, 'bare': fs[0] if fs else None, 'dup': fs + fs}[sp]


def rank_of(v):
  """Position of v among the values of its group (embeddable / not), in enumeration order."""
  vals = all_values()
  grp = [x for x in vals if embeddable(x) == embeddable(v)]
  return [tup(x) for x in grp].index(tup(v))


def check_embed(v, mod, fails, spies=None, classes=None, rank=None, full=True):
  """Converts every entity kind through every entry point that can request v; the options expressions in the
  generated source and the options objects the running code hands to its function scopes must equal v (the
  entity's own scope) / v.call_options() (nested defs, callees). Returns the number of cases."""
  own = spies is None
  spies = spies or _Spies()
  e = _Embed(v, mod, spies, fails, classes if classes is not None else [], rank_of(v) if rank is None else rank, full)
  with harness.swapped_ag(**spies.overrides):
    e.run()
  if own:
    harness.forget_generated(mod)
  return e.n


def _std_checks(fails):
  ag = harness.real_ag()
  std = converter.STANDARD_OPTIONS
  src = parser.unparse(std.to_ast()).strip()
  back = eval(src, {'ag__': ag})
  if not (back == std) or hash(back) != hash(std):
    fails.append(('std:roundtrip', src))
  if tup((std.recursive, std.user_requested, std.internal_convert_user_code, tuple(std.optional_features))) != (
      True, False, True, frozenset()):
    fails.append(('std:value', repr(std.as_tuple())))
  # defaults of the constructor: optional_features defaults to ALL
  d = converter.ConversionOptions()
  if not d.uses(converter.Feature.LISTS):
    fails.append(('default:ALL', repr(d.as_tuple())))


def budget(tier):
  return {'values': 1024, 'pairs': 3 * 1024 * 1024, 'wall_cap': 900}


def shard(ctx, acc):
  vals = all_values()
  objs = [mk(v) for v in vals]
  keys = caching_keys(objs)
  mod = harness.load_module(_E2E_SRC)
  spies = _Spies()
  try:
    if ctx.shard == 0:
      fl = []
      _std_checks(fl)
      for b, d in fl:
        acc.fail(b, {'kind': 'std'}, d)
      acc.case(key='std', nontrivial=False, classes=['std_checks'])
    # the values a function scope accepts (the expensive ones: they are also run through every entry point) are
    # dealt round-robin on their own, so that every shard gets its share of both groups
    ranks, cnt = {}, {True: 0, False: 0}
    for idx, v in enumerate(vals):
      ranks[idx] = cnt[embeddable(v)]
      cnt[embeddable(v)] += 1
    for idx, v in enumerate(vals):
      if ranks[idx] % ctx.nshards != ctx.shard:
        continue
      fl = []
      n = check_single(v, fl)
      a = objs[idx]
      for j, vb in enumerate(vals):
        check_pair(v, a, vb, objs[j], fl)
      n += len(vals)
      n += check_cache_keys(v, a, vals, objs, keys, keys[idx], fl)
      cls = ['nfeatures=%d' % len(v[3])]
      ecls = []
      n += check_embed(v, mod, fl, spies, ecls, ranks[idx], full=(ctx.tier == 'thorough'))
      cls.append('embedded_end_to_end' if embeddable(v) else 'embedded_static_only')
      acc.case(key=repr(tup(v)[:3]) + repr(sorted(f.name for f in v[3])), nontrivial=True, classes=cls,
               sample=enc(v) if idx % 97 == 0 else None, size=len(v[3]), n=n)
      acc.count('values')
      for c in ecls:
        acc.count(c)
      seen = set()
      for b, d in fl:
        if b not in seen:
          seen.add(b)
          acc.fail(b, enc(v), d)
  finally:
    harness.forget_generated(mod)
    harness.unload_module(mod)


def replay(case):
  fails = []
  if case.get('kind') == 'std':
    _std_checks(fails)
    return [{'bucket': b, 'detail': d} for b, d in fails]
  v = dec(case)
  check_single(v, fails)
  a = mk(v)
  for vb in all_values():
    check_pair(v, a, vb, mk(vb), fails)
  vals = all_values()
  objs = [mk(x) for x in vals]
  check_cache_keys(v, a, vals, objs, caching_keys(objs), caching_keys([a])[0], fails)
  mod = harness.load_module(_E2E_SRC)
  try:
    check_embed(v, mod, fails)
  finally:
    harness.unload_module(mod)
  out, seen = [], set()
  for b, d in fails:
    if b not in seen:
      seen.add(b)
      out.append({'bucket': b, 'detail': d})
  return out

LEVEL_TEXT = ('Complete enumeration: all 1024 option values, all their spellings and all 1024^2 ordered pairs are checked '
              'on every run, so within the stated space the property is decided, not sampled; embedding is additionally '
              'observed end to end over 12 entity kinds (def, lambdas, closure, methods, partials, callable object) and 7 entry '
              'points (transform, to_code, to_graph, convert, converted_call by options / by caller scope, malt.internal.convert '
              'under all context statuses): statically for all 1024 values, in running converted code for the 128 values a '
              'function scope accepts.')
LEVEL_NOTE = ('Trusted: Python eval of the unparsed expression with the same ag__ module generated code receives; the Feature '
              'enumeration read at run time. Outside: option objects built by third-party subclasses; entity kinds beyond the '
              'twelve listed (generators, coroutines, decorated functions are C09/C15 territory).')
