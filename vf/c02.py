"""C02 - functional (tracing) operator backends see complete state.

Side-effect-free total programs are converted through a private transpiler whose control-flow
operators are replaced by a *functional* backend (vf.backends.Functional): both branches of every
conditional are run from the same initial state and only the declared outputs of the chosen one
are kept; every loop body is run once out of band and the carried state is re-injected before
every iteration. The result must equal the original's on an exhaustive input box.
"""
import ast

import hypothesis.strategies as st

from vf import backends
from vf import common
from vf import diffobs
from vf import harness
from vf import progen
from vf import rt
from vf import shrink as shrinker
from vf import skel

ID = 'C02'
LEVEL = 'exploration'
TECHNIQUE = ('differential testing against a reference tracing backend: bounded-exhaustive control-flow skeletons with a canonical '
             'variable pattern + Hypothesis-generated pure programs, converted with functional if/while/for operators (state only via '
             'get_state/set_state, outputs-only merge, out-of-band body trace), compared with the original on an exhaustive input box')
RULE = ('(a) every skeleton over {assign, if, if/else, while, for, break, continue, return} with <= N statement nodes, holes filled with '
        'a canonical pattern in which every modified variable is read after the statement and on the next iteration; (b) Hypothesis-drawn '
        'pure programs from vf.progen (no effects, all locals initialised at function top, closures read-only, composites o.x / d[k] '
        'on existing structure). Each program runs on all 16 inputs of the box a,b in [0,3]. One evaluation = one (program, input) '
        'comparison. Non-trivial = some operator invocation had a non-empty state tuple, over the box both outcomes of some '
        'conditional (or a zero-trip and a multi-trip loop) occurred, and the program has a jump or control nesting >= 2; distinct by source.')
ASSUMPTIONS = [
    'one functional discipline (restore non-outputs, trace body once with a placeholder element); backends that also check types/shapes of state are not modelled',
    'programs are total and side-effect free, so executing the untaken branch / the out-of-band body is harmless in Python',
    'for-loop targets are fresh, never rebound names (known finding F3); lambdas capturing later-modified variables are excluded (documented limit)',
    'and_/or_/if_exp/not_ keep the shipped lazy Python semantics (documented dispatch rule)',
]
LEVEL_TEXT = ('Exhaustive inside the skeleton-size bound and input box, random beyond: each program is executed under a backend that makes '
              'missing state or mis-declared outputs observable as a wrong result.')
LEVEL_NOTE = 'Trusted: the functional backend model in vf/backends.py (40 lines); CPython as reference semantics.'

BOX = [[a, b] for a in range(4) for b in range(4)]

GEN = {'pure': True, 'tracer': False, 'try': False, 'with': False, 'del': False, 'unbound_reads': False, 'lambdas': False,
       'globals': False, 'nonlocals': False, 'iterators': False, 'helpers': 0, 'init_all': True, 'def_extras': 0,
       # jumps are covered exhaustively by the enumerated skeletons: the random part leans towards closures that outlive
       # their name / defs at drawn positions of compound statements (state completeness through closure liveness)
       'shape_escape': 7, 'shape_defpos': 3,
       'excl': ('no_for_target_rebind', 'no_impure_chain_middle', 'no_all_branch_rebind_in_nested_block')}


def budget(tier):
  if tier == 'thorough':
    return {'enum_nodes': 5, 'random': 6000, 'max_depth': 4, 'budget': 34, 'shrink_s': 60, 'wall_cap': 3000}
  return {'enum_nodes': 4, 'random': 700, 'max_depth': 3, 'budget': 24, 'shrink_s': 20, 'wall_cap': 600}


# ---- canonical rendering of enumerated skeletons ---------------------------------------------------

_ALLOWED = ('s', 'if', 'while', 'for', 'break', 'continue', 'return')


def _ok(block):
  for s in block:
    if s[0] not in _ALLOWED:
      return False
    for part in s[1:]:
      if isinstance(part, tuple) and part and isinstance(part[0], tuple) and not _ok(part):
        return False
  return True


def render(block):
  """Pure program with the canonical variable pattern. Variables x0..x2 are all initialised; each
  simple statement rotates through x_i = x_j + k; tests depend on data; loops are bounded."""
  lines = ['import malt', 'from vf.rt import *', 'G0 = 0', 'G1 = 5', 'def make():', '  c0 = 10', '  c1 = 20',
           '  def prog(a, b, o, d, l):', '    x0 = a', '    x1 = b', '    x2 = 1']
  cnt = [0, 0]

  def nxt():
    cnt[0] += 1
    return cnt[0]

  def rec(bl, ind):
    sp = '  ' * ind
    for s in bl:
      k = s[0]
      n = nxt()
      if k == 's':
        i, j = n % 3, (n + 1) % 3
        lines.append('%sx%d = x%d + x%d + %d' % (sp, i, i, j, n % 4))
      elif k == 'return':
        lines.append('%sreturn (x0, x1, x2, %d)' % (sp, n))
      elif k in ('break', 'continue'):
        lines.append(sp + k)
      elif k == 'if':
        lines.append('%sif (x%d + %d) %% 2 == 0:' % (sp, n % 3, n % 2))
        rec(s[1], ind + 1)
        if s[2] is not None:
          lines.append('%selse:' % sp)
          rec(s[2], ind + 1)
      elif k == 'while':
        w = 'w%d' % cnt[1]
        cnt[1] += 1
        lines.append('%s%s = 0' % (sp, w))
        lines.append('%swhile %s < 2 and x%d < 40 + a:' % (sp, w, n % 3))
        lines.append('%s  %s += 1' % (sp, w))
        rec(s[1], ind + 1)
      elif k == 'for':
        # the target is never read after the loop: it is not *definitely* assigned there, and the
        # tracing backend also executes untaken branches (property domain)
        lines.append('%sfor i%d in range((x%d + b) %% 3):' % (sp, n, n % 3))
        rec(s[1], ind + 1)
    return

  rec(block, 2)
  lines.append('    return (x0, x1, x2, -1)')
  lines += ['  def cells():', '    return (c0, c1)', '  return prog, cells', '']
  return '\n'.join(lines)


# ---- oracle ---------------------------------------------------------------------------------------

_KEEP = []


def run_case(case):
  fails = []
  info = {'runs': 0, 'stats': None}
  try:
    mod = harness.load_module(case['src'])
  except Exception as e:
    info['generator_slip'] = repr(e)
    return fails, info
  _KEEP.append(mod)
  fb = backends.Functional()
  tr = harness.PrivateTranspiler(fb.overrides())
  opts = harness.options(recursive=True, user_requested=True, features=None)
  conv_cache = {}
  for inp in case.get('inputs') or BOX:
    prog, cells = mod.make()
    o = diffobs.observe(prog, inp, mod, cells, 10.0)
    prog2, cells2 = mod.make()
    try:
      with diffobs.time_limit(30):
        conv = harness.convert_private(tr, prog2, opts)
    except diffobs.Timeout:
      fails.append(('convert:timeout', {'input': inp}))
      break
    except Exception as e:
      fails.append(('convert:' + harness.exc_bucket(e), {'exc': repr(e)[:500]}))
      break
    c = diffobs.observe(conv, inp, mod, cells2, 10.0)
    info['runs'] += 1
    if o['outcome'][0] != 'ok':
      continue   # not total on this input (generator slip): nothing to compare
    r = diffobs.compare(o, c)
    if r is not None:
      b, d = r
      d = dict(d) if isinstance(d, dict) else {'detail': d}
      d['input'] = inp
      fails.append(('functional:' + b, d))
      break
  info['stats'] = fb.stats
  return fails, info


def _nontrivial(src, info):
  st_ = info.get('stats') or {}
  nest, jump, ncomp = diffobs.structure(src)
  lines = {}
  for ln, c in st_.get('both_branches', ()):
    lines.setdefault(ln, set()).add(c)
  both = any(len(v) == 2 for v in lines.values()) or (st_.get('zero_trip', 0) > 0 and st_.get('multi_trip', 0) > 0)
  return st_.get('nonempty_state', 0) > 0 and both and (jump or nest >= 2), (nest, jump, ncomp)


def _record(acc, case, fails, info, classes):
  nt, (nest, jump, ncomp) = _nontrivial(case['src'], info)
  cls = list(classes)
  if info.get('generator_slip'):
    cls.append('generator_slip')
  if jump:
    cls.append('has_jump')
  if nest >= 2:
    cls.append('nesting>=2')
  st_ = info.get('stats') or {}
  if st_.get('zero_trip'):
    cls.append('zero_trip_loop_seen')
  sample = {'src': case['src']} if nt and (len(acc.samples) < acc.MAX_SAMPLES) else None
  acc.case(key=common.h8(case['src']), nontrivial=nt, classes=cls, sample=sample, size=ncomp, n=max(1, info['runs']))
  for b, d in fails:
    acc.fail(b, case, d)


def shard(ctx, acc):
  b = ctx.budget
  i = -1
  for block in skel.enumerated(b['enum_nodes']):
    if not _ok(block):
      continue
    i += 1
    if i % ctx.nshards != ctx.shard:
      continue
    case = {'src': render(block), 'inputs': None}
    fails, info = run_case(case)
    _record(acc, case, fails, info, ['enumerated_skeleton'])
  cfg = dict(GEN, max_depth=b['max_depth'], budget=b['budget'])

  def body(prog):
    case = {'src': prog['src'], 'inputs': None}
    fails, info = run_case(case)
    cls = ['random_program'] + ['has:' + k for k in prog['meta'] if not k.startswith(('stmt:', 'helper:'))]
    _record(acc, case, fails, info, cls)

  common.hyp_run(ctx, progen.programs(cfg), body, ctx.share('random'))


def replay(case):
  fails, _ = run_case(case)
  return [{'bucket': b, 'detail': d} for b, d in fails]


def shrink(case, bucket, deadline):
  c = dict(case)
  if not c.get('inputs'):
    c['inputs'] = list(BOX)
  return shrinker.shrink_case(c, bucket, replay, deadline)
